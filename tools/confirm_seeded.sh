#!/bin/bash
# tools/confirm_seeded.sh <ID> <mK> : confirm a sub-agent's seeded change in a scratch worktree of /repo and keep it
# under /verif/seeded/<ID>-<mK>/ (patch.diff, demo, meta.json).  Nothing is ever committed to /repo.
set -u
ID="$1"; M="$2"; SRC=/tmp/mutout/$ID/$M; WT=/tmp/confirm-$ID-$M; OUT=/verif/seeded/$ID-$M
[ -f "$SRC/patch.diff" ] || { echo "no patch"; exit 2; }
DEMO=$(ls $SRC/demo.py $SRC/test_demo.py 2>/dev/null | head -1)
git -C /repo worktree add -q --detach "$WT" HEAD || exit 2
cleanup() { git -C /repo worktree remove --force "$WT" 2>/dev/null; rm -rf "$WT"; }
trap cleanup EXIT
cd "$WT"
rundemo() { if [[ "$DEMO" == *test_demo.py ]]; then PYDJINNI_SRC=$WT/src PYTHONPATH=$WT/src /venv/bin/python -m pytest -q -p no:cacheprovider "$DEMO" >/tmp/confirm_demo.log 2>&1; else PYDJINNI_SRC=$WT/src PYTHONPATH=$WT/src timeout 600 /venv/bin/python "$DEMO" >/tmp/confirm_demo.log 2>&1; fi; echo $?; }
base_demo=$(rundemo)
git apply "$SRC/patch.diff" || { echo "patch does not apply on current HEAD"; exit 3; }
tests=$(PYTHONPATH=$WT/src /venv/bin/python -m pytest -q -p no:cacheprovider tests 2>&1 | tail -1)
mut_demo=$(rundemo)
git checkout -q -- .
echo "base_demo_exit=$base_demo tests_with_patch='$tests' demo_with_patch_exit=$mut_demo"
if [ "$base_demo" = "0" ] && [ "$mut_demo" != "0" ] && echo "$tests" | grep -q "145 passed"; then
  mkdir -p "$OUT"; cp "$SRC/patch.diff" "$OUT/"; cp "$DEMO" "$OUT/"
  /venv/bin/python - "$SRC/meta.json" "$OUT/meta.json" "$tests" "$base_demo" "$mut_demo" <<'PY'
import json,sys
m=json.load(open(sys.argv[1]))
m['confirmed_by_main_session']={'worktree':'scratch worktree of /repo at HEAD, removed afterwards','tests_with_patch':sys.argv[3],'demo_exit_unpatched':int(sys.argv[4]),'demo_exit_patched':int(sys.argv[5])}
json.dump(m,open(sys.argv[2],'w'),indent=1)
PY
  echo "KEPT $OUT"
else
  echo "NOT KEPT"
fi
