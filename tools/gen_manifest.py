#!/usr/bin/env python3
"""Writes /verif/MANIFEST.json from the table below (kept here so the manifest stays consistent)."""
import json, os
ALL = ['C%02d' % i for i in range(1, 21)]
CLAIMED = {
 'C04': dict(
   text="Coq theorems about a Gallina model of Resolver.register/resolve (longest-registered-prefix search, absolute "
        "lookups, key injectivity, order independence, duplicate rejection, import transparency) for all registries, "
        "namespaces and names; the model is tied to /repo on every run by two correspondences evaluated with vm_compute: "
        "random register/resolve interleavings on the real Resolver, and whole generated programs (namespace trees with "
        "shadowing, import trees, respelled and duplicate variants) through API.parse, each reference site compared.",
   note="Trusted: Coq kernel+vm_compute; ANTLR recognition; pydantic; the generator's ground-truth tables; Python "
        "reference scoping used only as search oracle. Theorems are closed under the global context.",
   technique="Coq proof over Gallina model + vm_compute correspondence against the real Resolver and API.parse",
   design="7/C04"),
 'C20': dict(
   text="Coq theorems about a Gallina model of packaging.target.execute() and of the build/package/publish step lists of the "
        "aar, nuget and swiftpackage plugins, for ALL step lists and ALL outcome sequences of the external tools: the working "
        "directory is restored, the first missing/non-zero command stops the pipeline with code 130 and nothing after it runs, "
        "and a failing package step leaves no artifact (stale ones included). Tied to /repo by running the real pipelines with "
        "os.system/shutil.which replaced by an outcome oracle, a fault injected at every invocation point, and comparing "
        "result, invocation log, artifact presence and cwd with the model under vm_compute.",
   note="Trusted: Coq kernel+vm_compute; the in-process tool oracle (real conan/gradle/nuget/xcodebuild/git are not available "
        "offline) and its simulation of the files a successful tool leaves; hypothesis that a failing tool writes no artifact.",
   technique="Coq proof over Gallina state-machine model + fault-injection correspondence (vm_compute) against the real packaging code",
   design="7/C20"),
 'C17': dict(
   text="Coq theorems about a Gallina model of api.combine_into, cli.parse_option, the folding of several -o options and of "
        "options over the file tree, for ALL trees/paths/option strings: an override sets exactly the path it names, every "
        "untouched path keeps the file value, k1.k2=v parses to the one-path tree, a malformed option is refused, file-only and "
        "options-only settings hand the same tree to validation; plus the target lattice (generate accepted iff all generators "
        "of the target are configured, the diagnostic names a missing one) over the target table regenerated from /repo. Tied to "
        "/repo by four vm_compute correspondences (real combine_into; real parse_option run from its code object; API.configure "
        "with settings spread over yaml/json/toml/dict/-o/environment; subsets of generator keys x targets) and an oracle for "
        "corrupted configurations (must be refused with 141 naming the key, never an internal error).",
   note="Trusted: Coq kernel+vm_compute; pydantic(-settings) validation and env layering; YAML/JSON/TOML loaders; the table "
        "translator. Two recorded findings (known_findings.json: C17-K1 unknown nested keys accepted, C17-K2 cpp generator dependency).",
   technique="Coq proof over Gallina model of the merge/option parser/target lattice + vm_compute correspondence against the real configuration code",
   design="7/C17"),
 'C19': dict(
   text="Coq theorems about a Gallina model of cli.main()'s outcome-to-exit-status mapping for ALL outcomes and error lists "
        "(status 0 iff success; otherwise the code of the FIRST reported error; distinct positive codes so the status identifies "
        "the class), finite checks over the exception/return-code table regenerated from /repo on every run, and the operation "
        "sequence of a chained generate invocation (equal to the documented API chain; --clean reaches every target; the first "
        "failing stage decides). Tied to /repo by a subprocess matrix of `python -m pydjinni` invocations compared (vm_compute) "
        "with the model applied to the API-level outcome, plus file-tree equality with the API chain and a no-traceback oracle.",
   note="Trusted: Coq kernel+vm_compute; click; the table translator; the in-process API chain used to observe the outcome.",
   technique="Coq proof over Gallina model of exit-status mapping and op sequence + vm_compute correspondence against CLI subprocess runs",
   design="7/C19"),
 'C03': dict(
   text="Gallina model of the ANTLR visitor (Idl/Visitor.v: every visit method of parser.py on the dumped parse tree, with Python's "
        "evaluation order and None-dereferences explicit). Theorems for unbounded objects: the target set computed from a +/- flag "
        "sequence of ANY length is the documented denotation; flag evaluation writes no state; after visiting ANY tree the namespace "
        "stack is restored and the members of `namespace a.b {}` are visited under the enclosing path ++ [a;b]. Tie: K-front evaluates "
        "the model (vm_compute) on the real parse trees of generated programs under random layouts and compares the complete AST incl. "
        "every position; all flag sequences of length <= 3 are enumerated; an independent oracle compares the AST with the abstract program."
        " From the text: the grammar Idl.g4 is translated on every run (Gen/Grammar.v) and interpreted by a generic lexer (longest match, first rule on ties, "
        "non-greedy rules stop at the shortest match, skip rules) and a generic parser that builds ANTLR's parse tree; theorems for every grammar: the lexemes "
        "partition the text, token line/column are the position reached by reading the text in front, the leaves of every parse tree are exactly the tokens in order. "
        "K-parse compares the model's tree with the tree of the generated ANTLR parser on every text of the run. Documentation commands (@deprecated/@param in both "
        "spellings): model Idl/CommentCmd.v with spelling-freedom and last-command-wins theorems, tied by K-commands on every commented node.",
   note="Trusted: Coq kernel+vm_compute; the grammar translator; ANTLR's error recovery (texts with syntax errors are only compared for rejection); mistune for comments outside the plain class; pydantic; the harness generators/mutators and the Python reference readings used as oracles.", technique="Coq proof over Gallina models of lexer, parser (grammar translated from Idl.g4) and visitor + vm_compute correspondence with ANTLR's parse trees and the real AST", design="7/C03"),
 'C05': dict(
   text="Coq theorems: the post-resolution rule checks of Parser.parse (model Idl/Front.v) report EXACTLY the rule violations "
        "(sound and complete as an iff with a declarative violation relation) for declaration lists of any length, any member index, "
        "imported declarations included; acceptance iff no violation; generic-arity and unknown-type reporting per reference. Tie: "
        "K-front compares the diagnostics multiset (class, code, file, line, column) of model and implementation on programs with 0-3 "
        "injected violations of 18 rules at random sites (namespace depth 0-3, root or imported file); an oracle checks every injected "
        "violation is reported at its file and line and nothing else is.",
   note="Trusted: Coq kernel+vm_compute; ANTLR lexer/parser (the model starts from the dumped parse tree); pydantic; the harness generators/mutators and the Python reference readings used as oracles.", technique="Coq proof (iff with declarative rule relation) + vm_compute correspondence on rule-violating mutants", design="7/C05"),
 'C06': dict(
   text="Coq theorems: import recursion is fuel-bounded and its exhaustion is the circular-import diagnostic; deferred resolution, "
        "generic checks and rule checks never fail internally for ANY references, registry and declarations (unresolved references are "
        "skipped). The full no-crash statement is REFUTED with a witness tree (C06_no_crash_refuted): the visitor crashes on "
        "error-recovered trees - recorded finding C06-K1; the model reproduces these crashes exactly (Crash outcomes are compared). Tie: "
        "K-front on token/character mutations, deep nesting and unknown types in every position; oracle: only own diagnostics, each "
        "inside its file. From the character sequence: for EVERY input the lexer model (grammar translated from Idl.g4 on each run) terminates within "
        "|input| steps and its lexemes partition the input (theorems for every rule table); K-parse: the model accepts exactly the texts ANTLR accepts "
        "and builds the same tree. Valid programs with documentation commands of every shape and import graphs with cycles / non-canonical spellings are part of the run.",
   note="Trusted: Coq kernel+vm_compute; the grammar translator; ANTLR's error recovery (the visitor model runs on the dumped recovered tree); pydantic; the harness generators/mutators and the Python reference readings used as oracles. Known finding C06-K1 (visitor on recovered trees); one defect repaired (db1079a: '@param' without a name).", technique="Coq proof (totality of post-visit phases, refutation witness) + vm_compute correspondence on malformed inputs", design="7/C06"),
 'C16': dict(
   text="Coq theorems about the import model (Idl/Front.v) for every file system, importer and include-directory list: the file chosen "
        "is the first existing non-directory among [literal; importer dir; include dirs...]; NotFound iff none exists; self import "
        "detection; recursion bounded by fuel with the circular diagnostic on exhaustion. 'Loaded once' and 'every cycle diagnosed' "
        "are REFUTED with witnesses evaluated on the model (diamond; cycle through declaring files) - recorded findings C16-K1/K2, "
        "plus C16-K3 (exponential blow-up = hang). Tie: K-front on import graphs over 1-5 files (trees, DAGs, cycles, self loops, "
        "missing leaves, decoys, traps) x placements x spellings x include dirs, with an oracle based on the documented search order.",
   note="Trusted: Coq kernel+vm_compute; ANTLR lexer/parser (the model starts from the dumped parse tree); pydantic; the harness generators/mutators and the Python reference readings used as oracles. Known findings C16-K1, C16-K2, C16-K3.", technique="Coq proof (search order, bounded recursion, refutation witnesses) + vm_compute correspondence on import graphs", design="7/C16"),
 'C11': dict(
   text="Coq theorems on the front-end model for declaration lists of any length: rule diagnostics are permutation-invariant as a "
        "multiset (hence acceptance), every reference binds to the same declaration under any registration order, and splitting "
        "the declarations over imported/importing files gives the same diagnostics and registry. Equality of generated files is "
        "decided on the implementation by a metamorphic correspondence: base / re-layout / permutation (top level and inside "
        "namespaces) / split into one or two imported files, through parse and generation of all targets, comparing acceptance, "
        "diagnostics modulo position and every generated file with the banner line removed. Re-formatting: the parser model looks at token types only - "
        "texts whose token streams agree on (type, text) get the same parse tree up to positions, for every grammar (C11_reformatting); line breaks isolate: "
        "for the token rules translated from Idl.g4 (computable side condition table_ok, decided by vm_compute) the lexemes in front of a line break do not depend on "
        "anything that follows it (C11_line_break_isolates_what_precedes, from prefix determinacy of the pattern matcher), and lexing continues from a boundary depending only on the position; "
        "the same for blank, tab and carriage return, and as the statement a user reads: between two lexemes a white-space run may be replaced by any other white-space run that starts "
        "with the same character - same lexemes in front, same token types and texts after, only positions move (C11_white_space_runs_are_interchangeable), hence the same parse tree up to positions or both rejected (C11_white_space_does_not_change_the_tree).",
   note="Trusted: Coq kernel; the real pipeline is the subject of the metamorphic runs (no model of the generators here). Known "
        "finding C11-K1 (order decides which of two colliding declarations survives; consequence of C15).",
   technique="Coq proof (permutation/split invariance of diagnostics and bindings) + metamorphic comparison of the implementation's outputs", design="7/C11"),
 'C14': dict(
   text="Coq theorems about a Gallina state-machine model of FileReaderWriter for EVERY operation sequence on a fresh writer: the "
        "report lists exactly the files written per generator in order, a generator section exists iff it wrote something, the "
        "parsed lists are exactly the files read, and nothing is written except through write_header/write_source/copy_*; path "
        "joining (relative right operand appended, absolute one wins). Tied to /repo by an op-sequence correspondence on the real "
        "class (vm_compute) and by an oracle over real pipeline runs: feature programs (imports, @extern, async interfaces, loader) "
        "x output spellings (relative, absolute, split, header nested in source, other working directory) x target subsets x report "
        "formats x clean with pre-existing files, judging write log, report and file tree against the configuration.",
   note="Trusted: Coq kernel+vm_compute; pathlib/file system; report serialisers; the in-process write log. Two defects repaired "
        "(JNI double join a771f07, extern files missing from the report c591a17).",
   technique="Coq proof (invariant over all op sequences of the writer model) + vm_compute correspondence + pipeline oracle", design="7/C14"),
 'C15': dict(
   text="Coq theorems: for every op sequence pairwise-distinct written paths imply no path receives two contents; the cpp/cppcli file "
        "name (namespace directories + converted name) is injective on (namespace, converted name) and on canonical lower-case names; "
        "REFUTED with witnesses for jni, objcpp, yaml (namespace ignored), objc (namespace and name glued) and for style conversion "
        "(case/underscore) - recorded findings C15-K1..K4. Tied to /repo by comparing the header/source attributes of the real "
        "marshalling objects with the file-name model (vm_compute) under random naming configurations, and by searching the write log "
        "of full generations for paths written with two contents.",
   note="Trusted: Coq kernel+vm_compute; pathlib; the in-process write log. Known findings C15-K1..K4.",
   technique="Coq proof (injectivity / refutation witnesses of file-name functions, single-writer lemma) + vm_compute correspondence on marshalling attributes", design="7/C15"),
 'C12': dict(
   text="Coq theorems for ALL strings: the generated /** ... */ block produced by comment_filter contains the terminator exactly once, "
        "at its end (neutralisation lemma + concatenation algebra of the terminator scanner); line-comment generators prefix every line; "
        "the escaped @deprecated message is a well-formed C string-literal body (the three sequential replaces equal one per-character "
        "substitution). Tied to /repo by running the real comment filter of six generators and the real deprecated() helpers on "
        "adversarial strings (vm_compute comparison) and by a non-interference oracle on real generations: comments added/changed and "
        "@deprecated messages changed on every commentable construct, code compared after removing comments and message literals. Translation phases that run "
        "before comments are recognised are modelled (Lang/Lexical.v): Java's unicode escapes (JLS 3.3 automaton) and C-family line splicing; theorems: the Javadoc "
        "comment as written contains no backslash-u pair, javac reads exactly the written text and it closes once at its end; no physical line of a generated '//' "
        "comment ends in a backslash; no character that str.splitlines() (Jinja's indent filter) treats as a line break survives the comment filter or the escape of a "
        "@deprecated message; all statements are refuted (with witnesses) for the code before the repairs.",
   note="Trusted: Coq kernel+vm_compute; mistune and the Markdown renderers (arbitrary string in the theorems); the harness' lexical "
        "stripper. Six defects repaired (c68de42 terminator, 02a4a46 backslash, 1e35a17 Java unicode escapes, e1f57ae line splicing, f0a7094 and 9bbb2ef line separators).",
   technique="Coq proof over all strings (comment filter, literal escaping) + vm_compute correspondence + metamorphic non-interference runs", design="7/C12"),
 'C18': dict(
   text="Coq refinement proof for a Gallina state-machine model of validate() and the request handlers: for EVERY event sequence "
        "(open/change/close/definition/symbols, any number of documents) whose texts the front end can judge, the last published "
        "diagnostics and the caches of every open document are those of its CURRENT text; queries are answered from those caches only; "
        "close drops the state; queries on unknown documents answer nothing; a handler ends in the error logger only if the front end "
        "itself fails internally on the new text. Tied to /repo by driving the real handlers in-process: front_of(text) is observed on a "
        "fresh single-text server, random (thorough: also exhaustive depth-3) event sequences over two documents and 14 texts are replayed "
        "on one server and every output is compared with the model (vm_compute); absolute expectations guard the fresh observations.",
   note="Trusted: Coq kernel+vm_compute; pygls/lsprotocol (transport and text synchronisation bypassed: handlers are called directly). Two "
        "defects repaired (e105e67, b16dc95); known finding C18-K1 (consequence of C06-K1).",
   technique="Coq refinement proof over all event sequences + vm_compute correspondence against the real handlers", design="7/C18"),
 'C08': dict(
   text="Coq render lemmas, proved for EVERY flag/item list (any length, none/all flags anywhere, comments and deprecations anywhere): the "
        "for-loops of the C++, Objective-C and C++/CLI flags templates - as translated from /repo by the template translator on this very "
        "run - print one enumerator per flag whose value expression is that of flag_enumerators (counter threading through the running "
        "namespace counter, the nested filtered loop of the `all` flag, loop.last commas); the Java flags loop prints exactly the ordinary "
        "flags in order; the C++ enum loop all items in order. Arithmetic theorems: the i-th ordinary flag is 1u<<i, none is 0, all is the "
        "union, one enumerator per flag, enum ordinals, Java ordinal i = bit i (cross target); the all-before-ordinary case is REFUTED with "
        "a witness (finding C08-K1). A changed template changes the regenerated term and breaks the render lemma. Tie of the interpreter: "
        "K-jinja renders the sliced loops with Jinja itself on the real marshalling objects and compares with the TIR interpreter "
        "(vm_compute) for all 8 enum/flags templates, exhaustively for all none/all patterns up to length 3 (5 in thorough). Render lemmas also for the Java, "
        "Objective-C and C++/CLI enum item loops; a static theorem: each C-family flags template initialises its bit counter to 0 before the block and writes it "
        "only inside the flags loop; the headers written by the real pipeline for programs with many flags types are read back (bits 0,1,2,... per type). Marshalling: "
        "Lang/JniFlags.v models JniFlags::flags / create of the support library (32-bit unsigned) with round-trip theorems for every type with at most 32 ordinary flags; "
        "J-runtime builds the generated C++/Java/JNI code with the shipped support library (g++ -shared, javac) and sends every constant, the empty / full sets and unions "
        "across the boundary in both directions in a JVM.",
   note="Trusted: Coq kernel+vm_compute; the template translator and jinja2's parser; Jinja runtime as reference for the interpreter; C's "
        "enumerator semantics as stated in Lang/EnumBody.v; g++/javac/java for J-runtime. Known finding C08-K1.",
   technique="Coq proof by induction over flag lists on the translated templates (deep embedding of Jinja) + vm_compute correspondence against Jinja itself", design="7/C08"),
 'C09': dict(
   text="Coq render theorems, proved for EVERY record (any names, any deriving set, any number of fields): the eq and ord sections of the "
        "C++ record source template and of the Java record template - as translated from /repo on this very run - print exactly the && "
        "chain over all fields in declaration order (`true;` for no fields), operator!= as !(lhs == rhs), the two-if cascade per field and "
        "> <= >= in terms of <, Java equals / hashCode (17, *31 + term) / compareTo (tempResult cascade, boxed vs primitive branch), and the "
        "C++/Java string forms mention every field. Meaning (Lang/RecordOps.v, any number of fields): == is an equivalence that holds iff "
        "all fields are equal, != its negation, < is irreflexive, transitive, total modulo ==, exactly the lexicographic order of the "
        "printed field order and never holds between == values; equals implies equal hashCode (32-bit wrap included); compareTo<0 iff <, "
        "compareTo=0 iff equals - under the stated hypotheses about the FIELD types' own operators (discharged for integers). Per-field Java "
        "expressions (Lang/JavaField.v): hash term and equals term are single operands at parenthesis depth 0 for every type kind and every "
        "identifier (the precedence slips repaired in ebe4a26 / 14a62e6 are rejected by the same scanner), references compare by content. "
        "Ties: K-jinja renders the sliced sections with Jinja itself on the real objects vs the TIR interpreter; K-jfield compares "
        "JavaDataField.equals/hash_code with the model; an independent judge compiles the generated C++ (g++) and Java (javac) with a "
        "generated driver and compares ==,!=,<,>,<=,>=,equals,hashCode,compareTo,toString on value tuples with tuple semantics.",
   note="Trusted: Coq kernel+vm_compute; template translator and jinja2's parser; Jinja runtime as reference for the interpreter; C++/Java "
        "semantics of the printed shapes as written in Lang/RecordOps.v; g++/javac for the judge. Five defects repaired (14a62e6, ebe4a26, "
        "d28ab69, 435354f, 149d679).",
   technique="Coq proof by induction over field lists on the translated templates (deep embedding of Jinja) + order-theoretic proofs + vm_compute correspondences + compile-and-run judge", design="7/C09"),
 'C07': dict(
   text="Specification fragments in Coq (Lang/Jvm.v): descriptor of a Java source type (generics erased, java.lang implicit, arrays), method "
        "descriptor, JNI short native name (mangling), C type of a descriptor. Model of jni/type.py and of java/type.py's type strings "
        "(Marshal/Jni.v). Theorems: every built-in row of the external-type tables REGENERATED from /repo has JNI signature = descriptor of "
        "its Java type, plain and boxed (finite, vm_compute); for ALL packages and names L<class_descriptor>; = descriptor of <package>.<Name>; "
        "flags = EnumSet; for ANY parameter list / result / async flag the signature string passed to jniGetMethodID equals the descriptor "
        "of the Java member as the Java side writes its types (optional => boxed on both sides, generic arguments erased, async => "
        "CompletableFuture), likewise every field lookup; jni_prefix = Java_ + mangle(binary class name) and the exported proxy symbol = "
        "the JNI short name of the native method for all identifier segments; C parameter/result types fit the descriptors, optional "
        "primitives are jobject. Ties: K-jni runs the model on the attributes of the real marshalling objects for every method, field and "
        "declaration of generated programs under 3 identifier-style/package configurations and checks the implementation values against "
        "the specification in the same vm_compute run; an independent judge compiles the generated Java (javac), reads classes, members, "
        "descriptors and native methods with javap -s -p and compares with every jniFindClass / jniGet*ID literal and JNIEXPORT prototype "
        "scraped from the generated JNI sources. Systematic programs cover every pool type x optional x parameter/result x sync/async x "
        "(+cpp | +java | both).",
   note="Trusted: Coq kernel+vm_compute; javac/javap; the scraper; Lang/Jvm.v as transcription of JVMS 4.3 / JNI mangling. Seven defects "
        "repaired (f4862d1, 988aa46, c98a583, e387bc4 and three more, see known_findings.json); known finding C07-K1 (independent identifier-style settings).",
   technique="Coq proofs over all parameter lists / names against a JVM-descriptor and JNI-mangling specification + vm_compute correspondence + javac/javap judge", design="7/C07"),
 'C02': dict(
   text="Coq model of the four structural type-string computations (cpp _type_specifier, java compute_data_type, objc type_decl, cppcli "
        "typename), of the C++ method specifiers, of the Objective-C block type of a function and of identifier conversion. Theorems: each "
        "type function is compositional (the string of a reference is a function of the head type's table row, the optional flag and the "
        "strings of the arguments) and is the UNIQUE function satisfying its per-constructor clauses, so agreement on the clauses settles "
        "every nesting depth; optional laws (std::optional wraps once, Java optional = boxed, C++/CLI reference types unchanged), interfaces "
        "are shared_ptr, parameters by const reference unless by_value; specifier table (static/virtual/= 0/const/noexcept/[[nodiscard]], "
        "finite); a throwing function block always ends in the NSError out-parameter; identifier styles. Render theorems for EVERY field "
        "list: the C++ struct prints one const member, one constructor parameter and one initialiser per field in declaration order, the "
        "Java class one field, one constructor parameter and one assignment. Ties: K-marshal runs the model on the attributes of the real "
        "objects for every field, parameter, result, method and function of systematic programs (every atom x optional, all list/set, "
        "sampled maps, depth 2) and random programs; K-ident on generated identifiers x 6 styles x prefix; K-jinja on the member loops. "
        "Judges with an independent reference mapping: javac+javap (record fields in order + constructor, interface methods with "
        "descriptors and static, enum constants in order, error code classes and constructors) and g++ -fsyntax-only static_asserts "
        "(decltype of every record member, is_constructible, member-function pointer types with const/noexcept, is_abstract, enumerators). Objective-C and C++/CLI "
        "(no compiler here): render theorems for the record initialiser / @property loops, the C++/CLI constructor / property / backing-field loops, the protocol and "
        "abstract-class method loops (nested parameter loops) and the enum item loops, for every member list; a text inventory reads the declarations back from the "
        "generated .h / .hpp files and compares them in order with the marshalled names and type strings.",
   note="Trusted: Coq kernel+vm_compute; javac/javap/g++ as judges; the reference mapping and the regular expressions of the text inventory in props/c02.py; Jinja runtime. One defect repaired (f7bd709).",
   technique="Coq proofs of compositionality/uniqueness by nested induction over type references + render lemmas + vm_compute correspondences + javap / static_assert judges", design="7/C02"),
 'C13': dict(
   text="Coq model of the YAML target's export and of @extern's import on the external-type tree (Marshal/Yaml.v). Theorems: import(export "
        "e) = e for every well-formed type record (name, namespace, kind, parameters, deprecation, comment, every per-generator field); "
        "finite inventories REGENERATED from /repo on each run: every attribute the generators' Python code reads through a type reference "
        "(AST scan of generator/**/*.py for X.type_def.<gen>.<attr>) is an exported field; every such read in the 69 translated templates "
        "is exported; the reads through a variable bound to a referenced definition are exported except exactly six (error codes, "
        "jni/objcpp namespace+name, objc domain name of an error domain after `throws`) - the refuted part, recorded as C13-K1: a new "
        "unexported read breaks the theorem. Ties: K-yaml compares the document exported for every declaration (two naming "
        "configurations) with the model's export of the fields read off the live marshalling objects and re-imports it; the exported "
        "documents are validated against API().external_type_model.model_json_schema() (the published schema); M-extern generates every "
        "dependant feature (14: enum/flags/record fields, containers, function types, interface parameters/results, async, throws, "
        "error parameters, inline functions, deprecated types, records extended in C++) with the library declared locally and pulled in "
        "with @extern, in both export modes, and compares every dependant file byte for byte.",
   note="Trusted: Coq kernel+vm_compute; PyYAML/pydantic as identities on the tree; jsonschema; the translators. Known findings C13-K1 "
        "(error domains through @extern), C13-K2 (records extended in a target).",
   technique="Coq round-trip proof + finite attribute inventories over the regenerated templates/AST scan + vm_compute correspondence + metamorphic local-vs-extern comparison", design="7/C13"),
 'C10': dict(
   text="Hash-seed freedom: every attribute annotated as a set anywhere in pydjinni (AST scan, REGENERATED each run) reaches the 69 translated "
        "templates only through order-insensitive uses (| sort, | length, in / not in, truth value) - finite theorem over the regenerated "
        "templates - and every loop over such an attribute uses sort(case_sensitive=True); Jinja's sort (stable insertion sort on the key, "
        "as in the TIR interpreter) is proved to be a function of the SET of items: for all permutations of a duplicate-free list the "
        "sorted sequence is the same (strict total order on strings: irreflexive, transitive, trichotomous; sorted permutations are "
        "equal); with the default case-folded key only when no two items fold to the same key - refuted otherwise with a witness, which "
        "was a real defect (repaired in 6729cee). History and target-order freedom in the writer model: the content of a path after ANY "
        "operation history is the last write to it, so what the final generation writes does not depend on earlier parses/generations, "
        "and targets writing disjoint paths commute; refuted for shared paths (witness) and for the processed-files report (accumulates). "
        "Tie: M-determinism runs every generated program (valid, rule-violating, doc-command-rich, names differing only in case under "
        "identity styles) in separate processes under 4 (thorough 8) PYTHONHASHSEED values, and on one API object after an unrelated "
        "parse+generate, after a re-parse, with permuted targets, and one target at a time; sha256 of every file and the diagnostics "
        "are compared with the fresh run.",
   note="Trusted: Coq kernel+vm_compute; translators (templates, set-attribute scan); the TIR interpreter's sort as model of Jinja's (K-jinja); "
        "CPython's hash randomisation as the only source of set order. One defect repaired (6729cee).",
   technique="Coq order-theoretic proof (sorting a permutation) + finite static theorems over regenerated templates + writer-model proofs + metamorphic multi-process correspondence", design="7/C10"),
 'C01': dict(
   text="What a theorem carries here is the template side, over the 69 templates translated from /repo on this run: no literal text of a "
        "template contains a template marker (so a marker in an output can only come from data), and every attribute a template reads "
        "from a marshalling object (X.<generator>.<attr>) exists on some marshalling class of that generator (classes reflected into "
        "Gen/MarshalAttrs.v each run) - with exactly one listed exception, a provably dead branch; a new unresolvable read breaks the "
        "theorem. Whether rendered text is well-formed C++/Java is decided by compilers: J-compile runs random programs (two naming "
        "configurations) and one program per target-language keyword through parse and generation of all targets with the "
        "PYDJINNI_VERIF hook on (undefined values created by failed look-ups / written to output are recorded); generate() must end "
        "normally or in an ApplicationException (reserved words give InvalidIdentifierException); every generated C++ and JNI header "
        "and source is compiled on its own with g++ -std=c++20 -fsyntax-only against the shipped support library and jni.h, all Java "
        "together with javac; every output of every target (Objective-C, C++/CLI, YAML included) is scanned for unrendered markers.",
   note="Level: the theorems are finite facts about the templates; compilation is judged, not proved (partial). Trusted: g++/javac, the "
        "translators, the hook. No Objective-C / C++/CLI compiler in the sandbox. Six defects repaired; known findings C01-K1..K5 "
        "(deriving on types without the operator, JNI header including itself under default naming, unhashable set/map keys, async "
        "Java proxies with by-reference results, parameter names clashing with template locals), C08-K1 excluded by construction.",
   technique="finite Coq theorems over the regenerated templates and reflected marshalling classes + compile-and-scan judge (g++, javac) with an undefined-value hook", design="7/C01"),
}
PENDING_REASON = "check not built yet in this session (work in progress; see DESIGN.md section 10 build order)"
HOOK_COMMITS = ['6805ba2']
def main():
    checks = []
    for pid, c in sorted(CLAIMED.items()):
        checks.append({
            "property_id": pid,
            "quick_cmd": "./check %s quick" % pid,
            "thorough_cmd": "./check %s thorough" % pid,
            "evidence_file": "/verif/evidence/%s.json" % pid,
            "replay_cmd_template": "cat {path}",
            "engine": "pdv",
            "level_claimed": {"category": "proof", "text": c['text'], "design_ref": c['design']},
            "level_note": c['note'],
            "technique": c['technique'],
        })
    m = {
        "version": 1,
        "setup_cmd": "./check setup",
        "hooks": {"guard": "PYDJINNI_VERIF", "enable": "checks set PYDJINNI_VERIF=1 in the environment of every process that imports /repo/src (tools/pdv/common.py impl_env)",
                  "baseline_off_cmd": "cd /repo && env -u PYDJINNI_VERIF /venv/bin/python -m pytest -ra -q -p no:cacheprovider --timeout=900 --continue-on-collection-errors tests",
                  "source_commits": HOOK_COMMITS, "add_only": True},
        "engines": [{"name": "pdv", "path": "/verif/tools/pdv", "serves_properties": sorted(CLAIMED),
                     "kind_free_text": "Coq 8.16 development under /verif/coq (hand-written Gallina models + theorems; coq/Gen regenerated from /repo by translators) and a Python correspondence harness that runs the real implementation and the model (vm_compute) on the same generated inputs"}],
        "checks": checks,
        "not_applicable": [{"property_id": p, "reason": PENDING_REASON} for p in ALL if p not in CLAIMED],
        "notes": "All checks: ./check <id> quick|thorough. Known findings: /verif/known_findings.json. Seeded changes used to test the checks: /verif/seeded/."
    }
    json.dump(m, open(os.path.join(os.path.dirname(__file__), '..', 'MANIFEST.json'), 'w'), indent=1)
if __name__ == '__main__':
    main()
