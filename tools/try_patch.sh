#!/bin/bash
# tools/try_patch.sh <patch.diff> <property-id> [tier]  — apply a seeded change to /repo, run the check, undo it
set -u
P="$1"; ID="$2"; TIER="${3:-quick}"
git -C /repo apply "$P" || { echo "PATCH DOES NOT APPLY"; exit 3; }
/verif/check "$ID" "$TIER" > /tmp/try_patch_$ID.log 2>&1; rc=$?
git -C /repo checkout -- . ; git -C /repo clean -fdq -- src
grep -E "VIOLATION|KNOWN-FINDING|PASS|FAIL|mismatch" /tmp/try_patch_$ID.log | head -12
echo "exit=$rc"
