"""K-front: run API.parse on generated file sets, evaluate the front-end model (Idl/Front.v) on the dumped parse
trees of the same files, and compare the canonical outcome records inside Coq."""
import json
from . import coqtool, front_val
from .common import run_impl
from .emit import *

PRE = '''From Coq Require Import List String Ascii Bool Arith.
From PDV Require Import Lib.StrUtil Idl.Cst Idl.Ast Idl.Resolver Idl.Visitor Idl.Front Idl.Show Idl.Init.
Import ListNotations. Open Scope string_scope. Open Scope list_scope.
Definition field_of (k : string) (v : val) : val :=
  match v with VO fs => (fix go (l : list (string * val)) := match l with [] => VNone | (k', x) :: r => if String.eqb k k' then x else go r end) fs | _ => VNone end.
(* diagnostics are compared as multisets (imported declarations are re-checked by the importer; order is not part of any property) *)
Fixpoint remove1 (x : val) (l : list val) : option (list val) :=
  match l with [] => None | y :: r => if val_eqb x y then Some r else match remove1 x r with Some r' => Some (y :: r') | None => None end end.
Fixpoint perm_eqb (a b : list val) : bool :=
  match a with [] => match b with [] => true | _ => false end | x :: a' => match remove1 x b with Some b' => perm_eqb a' b' | None => false end end.
Definition list_of (v : val) : list val := match v with VL l => l | _ => [] end.
Definition part_ok (k : string) (m e : val) : bool :=
  if String.eqb k "errors" then perm_eqb (list_of (field_of k m)) (list_of (field_of k e)) else val_eqb (field_of k m) (field_of k e).
Definition keys_of (v : val) : list string := match v with VO fs => map fst fs | _ => [] end.
(* compare exactly the parts the expected record carries *)
Definition bad_parts (m e : val) : list string := filter (fun k => negb (part_ok k m e)) (keys_of e).
'''


def run(ctx, name, cases, parts=('errors', 'defs', 'refs', 'ast', 'imports'), shard=10, timeout=1800, loose_cyclic=False):
    """cases: dicts with files/root/(options)/(dirs); returns list of (index, bad part names, impl outcome) mismatches
    and the list of implementation outcomes."""
    for c in cases:
        c['want'] = ['defs', 'refs', 'ast', 'imports', 'cst']
    ok, res = run_impl('front', {'cases': cases}, timeout=timeout)
    if not ok:
        ctx.broken.append({'kind': 'harness', 'name': 'front driver', 'detail': str(res)[-2000:]})
        return None, None
    obs = res['results']
    mism = []
    import re
    from concurrent.futures import ThreadPoolExecutor

    def one_shard(s):
        defs = []
        for i in range(s, min(len(cases), s + shard)):
            c, o = cases[i], obs[i]
            if o['outcome'] == 'harness-error':
                defs.append('Definition c%d : list string := ["harness-error"].' % i)
                continue
            if o['outcome'] == 'timeout' or c.get('_skip_model'):
                defs.append('Definition c%d : list string := [].' % i)   # not evaluated on the model (see the property module)
                continue
            gen = ((c.get('options') or {}).get('generate') or {})
            deriving = gen.get('default_deriving', [])
            incdirs = gen.get('include_dirs', [])   # configured relative paths stay relative in the real code
            world = front_val.c_world(o['cst'], c.get('dirs', []))
            exp = front_val.voutcome(o, c.get('_parts', parts), c.get('_loose_app', False))
            defs.append('Definition c%d : list string := bad_parts (voutcome (run_front (%s) %s %s %s)) (%s).' %
                        (i, world, cstrs(deriving), cstrs(incdirs), cstr(c['root']), exp))
        body = PRE + '\n'.join(defs) + '\nDefinition all := %s.\n' % clist(['(%s, c%d)' % (cnat(i - s), i) for i in range(s, min(len(cases), s + shard))]) + \
            'Eval vm_compute in (map fst (filter (fun x => match snd x with [] => false | _ => true end) all)).\n' \
            'Eval vm_compute in (map snd (filter (fun x => match snd x with [] => false | _ => true end) all)).\n'
        return s, coqtool.run_cases('kfront_%s_%d' % (name, s), body)

    with ThreadPoolExecutor(max_workers=14) as ex:
        results = list(ex.map(one_shard, range(0, len(cases), shard)))
    for s, (rc, out, err) in results:
        if rc != 0:
            ctx.broken.append({'kind': 'correspondence', 'name': 'K-front/%s (coqc failed)' % name, 'detail': (err + out)[-2500:]})
            return None, obs
        chunks = out.split('= ')
        bad = coqtool.parse_nat_list('= ' + chunks[1]) if len(chunks) > 1 else None
        if bad is None:
            ctx.broken.append({'kind': 'correspondence', 'name': 'K-front/%s (unparsable coqc output)' % name, 'detail': out[-1500:]})
            return None, obs
        inner = re.findall(r'\[((?:"[^"]*"(?:;\s*)?)*)\]', chunks[2]) if len(chunks) > 2 else []
        inner = [x for x in inner if x.strip()]
        for j, b in enumerate(bad):
            parts_bad = re.findall(r'"([^"]*)"', inner[j]) if j < len(inner) else ['?']
            mism.append((s + b, parts_bad, obs[s + b]))
    return mism, obs


# ---------------------------------------------------------------------------------------------------------------- K-parse
PARSE_PRE = '''From Coq Require Import List String Ascii Bool Arith.
From PDV Require Import Lib.StrUtil Idl.GrammarDefs Idl.Cst Idl.Lexer Idl.ParserG Gen.Grammar.
Import ListNotations. Open Scope string_scope. Open Scope list_scope.
Fixpoint bad_idx (i : nat) (cs : list (string * string)) : list nat :=
  match cs with
  | [] => []
  | c :: t => if String.eqb (show_ocst (parse_text lexer_rules parser_rules start_rule (fst c))) (snd c) then bad_idx (S i) t else i :: bad_idx (S i) t
  end.
'''


def show_cst(n):
    """mirror of ParserG.show_cst"""
    if 't' in n:
        return 't%s %d %d %d %d:%s;' % (n['t'], n['l'], n['c'], 1 if n['err'] else 0, len(n['x']), n['x'])
    s = '-' if n['s'] is None else '%d %d' % tuple(n['s'])
    e = '-' if n['e'] is None else '%d %d %d' % tuple(n['e'])
    return 'r%s %s %s[%s]' % (n['r'], s, e, ''.join(show_cst(k) for k in n['c']))


def parse_corr(ctx, name, cases, obs, per_shard=12, max_chars=4000, max_texts=400, shard_timeout=240):
    """K-parse: the generic lexer + parser of Idl/Lexer.v, Idl/ParserG.v on the grammar translated from Idl.g4 (Gen/Grammar.v) vs the parse
    tree ANTLR's generated IdlLexer/IdlParser deliver for the same text: equal trees (rule nodes with start/stop tokens, every token with type,
    text, line, column) for texts ANTLR accepts, rejection for texts on which ANTLR reports a lexical or syntactic error."""
    from concurrent.futures import ThreadPoolExecutor
    seen, rows = set(), []
    dist = {'texts': 0, 'accepted_by_antlr': 0, 'with_syntax_errors': 0, 'skipped_non_ascii_or_cr': 0, 'skipped_too_long_or_over_quota': 0, 'max_chars': 0,
            'model_search_not_finished': 0}
    for c, o in zip(cases, obs):
        for rel, d in (o.get('cst') or {}).items():
            if not isinstance(d, dict) or 'tree' not in d:
                continue
            text = c['files'].get(rel)
            if text is None or text in seen:
                continue
            seen.add(text)
            if any(ord(ch) > 126 or ch == '\r' for ch in text):
                dist['skipped_non_ascii_or_cr'] += 1; continue      # Coq strings are byte strings, ANTLR counts code points
            if len(text) > max_chars or len(rows) >= max_texts:
                dist['skipped_too_long_or_over_quota'] += 1; continue
            okp = not d['syntax']
            dist['texts'] += 1; dist['accepted_by_antlr'] += okp; dist['with_syntax_errors'] += (not okp); dist['max_chars'] = max(dist['max_chars'], len(text))
            rows.append(('(%s, %s)' % (cstr(text), cstr(show_cst(d['tree']) if okp else 'REJECTED')), {'text': text, 'antlr_syntax_errors': d['syntax'][:3]}))
    def run_rows(tag, rr):
        body = PARSE_PRE + 'Definition cases : list (string * string) := %s.\nEval vm_compute in (bad_idx 0 cases).\n' % clist([r for r, _ in rr])
        return coqtool.run_cases('kparse_%s_%s' % (name, tag), body, timeout=shard_timeout)
    def shard(s):
        return s, run_rows(str(s), rows[s:s + per_shard])
    with ThreadPoolExecutor(max_workers=14) as ex:
        results = list(ex.map(shard, range(0, len(rows), per_shard)))
    mism = []
    for s, (rc, out, err) in results:
        bad = coqtool.parse_nat_list(out) if rc == 0 else None
        if bad is None and rc in (124, 137):
            # the exhaustive search of the model did not finish on some text of this shard: evaluate the texts one by one, count the slow ones
            for k_ in range(s, min(len(rows), s + per_shard)):
                rc1, out1, err1 = run_rows('%d_%d' % (s, k_), rows[k_:k_ + 1])
                b1 = coqtool.parse_nat_list(out1) if rc1 == 0 else None
                if b1 is None:
                    dist['model_search_not_finished'] += 1
                elif b1:
                    mism.append(rows[k_][1])
            continue
        if bad is None:
            ctx.broken.append({'kind': 'correspondence', 'name': 'K-parse/%s (coqc failed)' % name, 'detail': (err + out)[:600] + ' ... ' + (err + out)[-600:]})
            return
        mism += [rows[s + i][1] for i in bad]
    if dist['model_search_not_finished'] > max(2, len(rows) // 10):
        ctx.broken.append({'kind': 'correspondence', 'name': 'K-parse/%s (model too slow)' % name, 'detail': json.dumps(dist)})
        return
    ctx.add_corr('K-parse', len(rows), dist['accepted_by_antlr'], mism, [rows[0][1]] if rows else [], dist,
                 'every distinct IDL text of the cases above: parse tree of the generic lexer/parser model on the grammar translated from Idl.g4 on this run '
                 'vs the tree of the generated ANTLR parser the implementation uses (all rule nodes with start/stop tokens, all tokens with type, text, line, '
                 'column); texts with lexical or syntactic errors must be rejected by both; non-trivial = accepted texts')
