"""K-front: run API.parse on generated file sets, evaluate the front-end model (Idl/Front.v) on the dumped parse
trees of the same files, and compare the canonical outcome records inside Coq."""
import json
from . import coqtool, front_val
from .common import run_impl
from .emit import *

PRE = '''From Coq Require Import List String Ascii Bool Arith.
From PDV Require Import Lib.StrUtil Idl.Cst Idl.Ast Idl.Resolver Idl.Visitor Idl.Front Idl.Show Idl.Init.
Import ListNotations. Open Scope string_scope. Open Scope list_scope.
Definition field_of (k : string) (v : val) : val :=
  match v with VO fs => (fix go (l : list (string * val)) := match l with [] => VNone | (k', x) :: r => if String.eqb k k' then x else go r end) fs | _ => VNone end.
(* diagnostics are compared as multisets (imported declarations are re-checked by the importer; order is not part of any property) *)
Fixpoint remove1 (x : val) (l : list val) : option (list val) :=
  match l with [] => None | y :: r => if val_eqb x y then Some r else match remove1 x r with Some r' => Some (y :: r') | None => None end end.
Fixpoint perm_eqb (a b : list val) : bool :=
  match a with [] => match b with [] => true | _ => false end | x :: a' => match remove1 x b with Some b' => perm_eqb a' b' | None => false end end.
Definition list_of (v : val) : list val := match v with VL l => l | _ => [] end.
Definition part_ok (k : string) (m e : val) : bool :=
  if String.eqb k "errors" then perm_eqb (list_of (field_of k m)) (list_of (field_of k e)) else val_eqb (field_of k m) (field_of k e).
Definition keys_of (v : val) : list string := match v with VO fs => map fst fs | _ => [] end.
(* compare exactly the parts the expected record carries *)
Definition bad_parts (m e : val) : list string := filter (fun k => negb (part_ok k m e)) (keys_of e).
'''


def run(ctx, name, cases, parts=('errors', 'defs', 'refs', 'ast', 'imports'), shard=10, timeout=1800, loose_cyclic=False):
    """cases: dicts with files/root/(options)/(dirs); returns list of (index, bad part names, impl outcome) mismatches
    and the list of implementation outcomes."""
    for c in cases:
        c['want'] = ['defs', 'refs', 'ast', 'imports', 'cst']
    ok, res = run_impl('front', {'cases': cases}, timeout=timeout)
    if not ok:
        ctx.broken.append({'kind': 'harness', 'name': 'front driver', 'detail': str(res)[-2000:]})
        return None, None
    obs = res['results']
    mism = []
    import re
    from concurrent.futures import ThreadPoolExecutor

    def one_shard(s):
        defs = []
        for i in range(s, min(len(cases), s + shard)):
            c, o = cases[i], obs[i]
            if o['outcome'] == 'harness-error':
                defs.append('Definition c%d : list string := ["harness-error"].' % i)
                continue
            if o['outcome'] == 'timeout' or c.get('_skip_model'):
                defs.append('Definition c%d : list string := [].' % i)   # not evaluated on the model (see the property module)
                continue
            gen = ((c.get('options') or {}).get('generate') or {})
            deriving = gen.get('default_deriving', [])
            incdirs = gen.get('include_dirs', [])   # configured relative paths stay relative in the real code
            world = front_val.c_world(o['cst'], c.get('dirs', []))
            exp = front_val.voutcome(o, c.get('_parts', parts), c.get('_loose_app', False))
            defs.append('Definition c%d : list string := bad_parts (voutcome (run_front (%s) %s %s %s)) (%s).' %
                        (i, world, cstrs(deriving), cstrs(incdirs), cstr(c['root']), exp))
        body = PRE + '\n'.join(defs) + '\nDefinition all := %s.\n' % clist(['(%s, c%d)' % (cnat(i - s), i) for i in range(s, min(len(cases), s + shard))]) + \
            'Eval vm_compute in (map fst (filter (fun x => match snd x with [] => false | _ => true end) all)).\n' \
            'Eval vm_compute in (map snd (filter (fun x => match snd x with [] => false | _ => true end) all)).\n'
        return s, coqtool.run_cases('kfront_%s_%d' % (name, s), body)

    with ThreadPoolExecutor(max_workers=14) as ex:
        results = list(ex.map(one_shard, range(0, len(cases), shard)))
    for s, (rc, out, err) in results:
        if rc != 0:
            ctx.broken.append({'kind': 'correspondence', 'name': 'K-front/%s (coqc failed)' % name, 'detail': (err + out)[-2500:]})
            return None, obs
        chunks = out.split('= ')
        bad = coqtool.parse_nat_list('= ' + chunks[1]) if len(chunks) > 1 else None
        if bad is None:
            ctx.broken.append({'kind': 'correspondence', 'name': 'K-front/%s (unparsable coqc output)' % name, 'detail': out[-1500:]})
            return None, obs
        inner = re.findall(r'\[((?:"[^"]*"(?:;\s*)?)*)\]', chunks[2]) if len(chunks) > 2 else []
        inner = [x for x in inner if x.strip()]
        for j, b in enumerate(bad):
            parts_bad = re.findall(r'"([^"]*)"', inner[j]) if j < len(inner) else ['?']
            mism.append((s + b, parts_bad, obs[s + b]))
    return mism, obs
