"""Build the inputs of the front-end model (world = dumped parse trees) and the canonical `val` literal of what the
implementation observed, in the shape of coq/Idl/Show.v."""
import os
from .emit import *


# ---------------------------------------------------------------- Coq literals for parse trees / the world
def c_cst(n):
    if 't' in n:
        return 'T %s %s %s %s %s' % (cstr(n['t']), cstr(n['x']), cnat(n['l']), cnat(n['c']), cbool(n['err']))
    s = 'None' if n['s'] is None else '(Some (%s, %s))' % (cnat(n['s'][0]), cnat(n['s'][1]))
    e = 'None' if n['e'] is None else '(Some (%s, %s, %s))' % (cnat(n['e'][0]), cnat(n['e'][1]), cnat(n['e'][2]))
    return 'R %s %s %s %s' % (cstr(n['r']), s, e, clist(['(%s)' % c_cst(k) for k in n['c']]))


def c_pos(p, root='/R'):
    if p is None:
        return 'mkpos "" 0 0 0 0'
    f = p['file'] or ''
    s = p['start'] or [0, 0]
    e = p['end'] or [0, 0]
    return 'mkpos %s %d %d %d %d' % (cstr(f if not f or f.startswith('/') else root + '/' + f), s[0], s[1], e[0], e[1])

PRIMS = {'primitive': 'PPrimitive', 'collection': 'PCollection', 'interface': 'PInterface', 'record': 'PRecord', 'enum': 'PEnum',
         'flags': 'PFlags', 'function': 'PFunction', 'error': 'PError'}


def c_world(csts, dirs=(), root='/R'):
    entries = []
    for rel, d in sorted(csts.items()):
        key = os.path.normpath(root + '/' + rel)
        if 'extern' in d:
            x = d['extern']
            if x.get('bad'):
                entries.append('(%s, FExtern [] true)' % cstr(key))
            else:
                ts = ['(mktdef %s %s %s %s, %s)' % (cstr(t['name']), cstrs(t['ns']), PRIMS[t['prim']], cstrs(t['params']), c_pos(t['pos'], root))
                      for t in x['types']]
                entries.append('(%s, FExtern %s false)' % (cstr(key), clist(ts)))
        else:
            entries.append('(%s, FIdl (%s) %s)' % (cstr(key), c_cst(d['tree']),
                                                   clist(['(%s, %s)' % (cnat(a), cnat(b)) for a, b in d['syntax']])))
    for rel in dirs:
        entries.append('(%s, FDir)' % cstr(os.path.normpath(root + '/' + rel)))
    return 'mkworld %s %s' % (clist(entries), cstr(root))


# ---------------------------------------------------------------- the implementation's outcome as a val literal
def VS(s): return 'VS %s' % cstr(s)
def VN(n): return 'VN %d' % n
def VB(b): return 'VB %s' % cbool(b)
def VL(items): return 'VL %s' % clist(['(%s)' % i for i in items])
def VO(fields): return 'VO %s' % clist(['(%s, %s)' % (cstr(k), v if v == 'VNone' else '(%s)' % v) for k, v in fields])
def vstrs(l): return VL([VS(x) for x in l])
def vopt(f, x): return 'VNone' if x is None else f(x)


def vpos(p):
    p = p or {}
    s = p.get('start') or [0, 0]
    e = p.get('end') or [0, 0]
    return VO([('file', VS(p.get('file') or '')), ('s', VL([VN(s[0]), VN(s[1])])), ('e', VL([VN(e[0]), VN(e[1])]))])


def vtdef(b):
    return VO([('name', VS(b['name'])), ('ns', vstrs(b['ns'])), ('prim', VS(b['prim']))])


def vtref(t):
    if t['name'] == '<function>' and 'fn' in t:
        return VO([('name', VS('<function>')), ('ns', vstrs(t['ns'])), ('pos', vpos(t['pos'])), ('fn', vfunc(t['fn']))])
    return VO([('name', VS(t['name'])), ('ns', vstrs(t['ns'])), ('opt', VB(t['opt'])), ('pos', vpos(t['pos'])),
               ('params', VL([vtref(p) for p in t['params']])), ('bound', vopt(vtdef, t['bound']))])


def vparam(p):
    return VO([('name', VS(p['name'])), ('pos', vpos(p['pos'])), ('type', vtref(p['type']))])


def vfunc(d):
    return VO([('k', VS('Function')), ('name', VS(d['name'])), ('ns', vstrs(d['ns'])), ('pos', vpos(d['pos'])),
               ('comment', vopt(VS, d['comment'])), ('anonymous', VB(d['anonymous'])), ('targets', vstrs(d['targets'])),
               ('params', VL([vparam(p) for p in d['params']])), ('ret', vopt(vtref, d['ret'])),
               ('throws', vopt(lambda ts: VL([vtref(t) for t in ts]), d['throws']))])


def vcommon(d):
    return [('k', VS(d['k'])), ('name', VS(d['name'])), ('ns', vstrs(d['ns'])), ('pos', vpos(d['pos'])), ('comment', vopt(VS, d['comment']))]


def vmember(m, extra=()):
    return VO([('name', VS(m['name'])), ('pos', vpos(m['pos'])), ('comment', vopt(VS, m['comment']))] + list(extra))


def vdecl(d):
    k = d['k']
    if k == 'Enum':
        return VO(vcommon(d) + [('items', VL([vmember(i) for i in d['items']]))])
    if k == 'Flags':
        return VO(vcommon(d) + [('flags', VL([vmember(f, [('all', VB(f['all'])), ('none', VB(f['none']))]) for f in d['flags']]))])
    if k == 'Record':
        return VO(vcommon(d) + [('fields', VL([vmember(f, [('type', vtref(f['type']))]) for f in d['fields']])),
                                ('targets', vstrs(d['targets'])), ('deriving', vstrs(sorted(set(d['deriving'])))), ('deps', vstrs(d['deps']))])
    if k == 'Interface':
        ms = [VO([('name', VS(m['name'])), ('pos', vpos(m['pos'])), ('comment', vopt(VS, m['comment'])), ('static', VB(m['static'])),
                  ('const', VB(m['const'])), ('async', VB(m['asyn'])), ('params', VL([vparam(p) for p in m['params']])),
                  ('ret', vopt(vtref, m['ret'])), ('throws', vopt(lambda ts: VL([vtref(t) for t in ts]), m['throws']))]) for m in d['methods']]
        return VO(vcommon(d) + [('main', VB(d['main'])), ('targets', vstrs(d['targets'])), ('methods', VL(ms)),
                                ('props', VL([vmember(p, [('type', vtref(p['type']))]) for p in d['props']])), ('deps', vstrs(d['deps']))])
    if k == 'Function':
        return vfunc(d)
    if k == 'ErrorDomain':
        return VO(vcommon(d) + [('codes', VL([vmember(c, [('params', VL([vparam(p) for p in c['params']]))]) for c in d['codes']])),
                                ('deps', vstrs(d['deps']))])
    raise ValueError(k)


def vnode(n):
    if n is None:
        return 'VNone'
    if n['k'] == 'Namespace':
        return VO([('k', VS('Namespace')), ('name', VS(n['name'])), ('pos', vpos(n['pos'])), ('comment', vopt(VS, n['comment'])),
                   ('children', VL([vnode(c) for c in n['children']]))])
    return vdecl(n)


def vdiag(i):
    p = i['pos'] or {}
    s = p.get('start') or [0, 0]
    return VO([('cls', VS(i['cls'])), ('code', VN(i['code'] or 0)), ('file', VS(p.get('file') or '')), ('line', VN(s[0])), ('col', VN(s[1]))])


def voutcome(o, parts=('errors', 'defs', 'refs', 'ast', 'imports'), loose_app=False):
    if o['outcome'] == 'internal':
        return VO([('outcome', VS('internal'))])
    if o['outcome'] == 'app':
        i = o['exc']['item']
        p = i['pos'] or {}
        s = p.get('start') or [0, 0]
        if loose_app:
            return VO([('outcome', VS('app')), ('cls', VS(i['cls'])), ('code', VN(i['code'] or 0))])
        return VO([('outcome', VS('app')), ('cls', VS(i['cls'])), ('code', VN(i['code'] or 0)), ('file', VS(p.get('file') or '')),
                   ('line', VN(s[0])), ('col', VN(s[1]))])
    errs = o['exc']['items'] if o['outcome'] == 'list' else []
    fields = [('outcome', VS(o['outcome']))]
    if 'errors' in parts:
        fields.append(('errors', VL([vdiag(i) for i in errs])))
    if 'error_codes' in parts:     # position-free view (cyclic imports: the depth at which Python's recursion limit hits is not modelled)
        fields.append(('error_codes', VL([VN(c) for c in sorted(set(i['code'] or 0 for i in errs))])))
    if 'def_names' in parts:
        fields.append(('def_names', vstrs(['.'.join(d['ns'] + [d['name']]) for d in o['defs']])))
    if 'defs' in parts:
        fields.append(('defs', VL([vdecl(d) for d in o['defs']])))
    if 'refs' in parts:
        fields.append(('refs', VL([VO([('name', VS(r['name'])), ('ns', vstrs(r['ns'])), ('pos', vpos(r['pos'])), ('bound', vopt(vtdef, r['bound']))])
                                   for r in o['refs']])))
    if 'ast' in parts:
        fields.append(('ast', VL([vnode(n) for n in o['ast']])))
    if 'imports' in parts:
        fields.append(('imports', VL([VO([('path', VS(f['path'])), ('pos', vpos(f['pos']))]) for f in o['imports']])))
    return VO(fields)
