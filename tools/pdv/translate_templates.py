"""Translator: every Jinja template of every generator -> a Gallina term (coq/Gen/Templates.v), using the generator's own
template_preprocessing and its own jinja2.Environment.parse, so line statements, whitespace control and the `//?` idiom
are resolved exactly as in production.  Fails closed on any node outside the known subset.
usage: translate_templates.py <GenDir>   (run under /venv/bin/python with PYTHONPATH=/repo/src)"""
import sys, os, re, warnings
warnings.filterwarnings('ignore')
sys.path.insert(0, os.path.join(os.path.dirname(__file__), '..'))
from pdv.emit import *
from jinja2 import nodes as N

HEADER = '(* GENERATED from /repo by tools/pdv/translate_templates.py on every run - do not edit, not committed *)\n' \
         'From Coq Require Import List String Ascii ZArith.\nFrom PDV Require Import Jinja.Tir.\nImport ListNotations.\nOpen Scope string_scope.\n\n'


class Unsupported(Exception):
    pass


def ex(n):
    if isinstance(n, N.TemplateData):
        return 'EStr %s' % cstr(n.data)
    if isinstance(n, N.Const):
        v = n.value
        if isinstance(v, bool):
            return 'EBool %s' % cbool(v)
        if isinstance(v, int):
            return 'EInt (%d)%%Z' % v
        if v is None:
            return 'ENone'
        if isinstance(v, str):
            return 'EStr %s' % cstr(v)
        raise Unsupported('const %r' % (v,))
    if isinstance(n, N.Name):
        return 'EVar %s' % cstr(n.name)
    if isinstance(n, N.NSRef):
        return 'EAttr (EVar %s) %s' % (cstr(n.name), cstr(n.attr))
    if isinstance(n, N.Getattr):
        return 'EAttr (%s) %s' % (ex(n.node), cstr(n.attr))
    if isinstance(n, N.Getitem):
        return 'EItem (%s) (%s)' % (ex(n.node), ex(n.arg))
    if isinstance(n, N.Concat):
        return 'EConcat %s' % clist(['(%s)' % ex(x) for x in n.nodes])
    if isinstance(n, N.CondExpr):
        return 'ECond (%s) (%s) %s' % (ex(n.test), ex(n.expr1), 'None' if n.expr2 is None else '(Some (%s))' % ex(n.expr2))
    if isinstance(n, N.Not):
        return 'ENot (%s)' % ex(n.node)
    if isinstance(n, N.And):
        return 'EAnd (%s) (%s)' % (ex(n.left), ex(n.right))
    if isinstance(n, N.Or):
        return 'EOr (%s) (%s)' % (ex(n.left), ex(n.right))
    if isinstance(n, N.Compare):
        if len(n.ops) != 1:
            raise Unsupported('chained compare')
        return 'ECmp %s (%s) (%s)' % (cstr(n.ops[0].op), ex(n.expr), ex(n.ops[0].expr))
    if isinstance(n, (N.Add, N.Sub, N.Mul)):
        return 'EBin %s (%s) (%s)' % (cstr(type(n).__name__.lower()), ex(n.left), ex(n.right))
    if isinstance(n, N.Filter):
        if n.dyn_args or n.dyn_kwargs:
            raise Unsupported('dynamic filter args')
        return 'EFilter %s (%s) %s %s' % (cstr(n.name), ex(n.node) if n.node is not None else 'ENone',
                                          clist(['(%s)' % ex(a) for a in n.args]), clist(['(%s, %s)' % (cstr(k.key), ex(k.value)) for k in n.kwargs]))
    if isinstance(n, N.Test):
        return 'ETest %s (%s) %s' % (cstr(n.name), ex(n.node), clist(['(%s)' % ex(a) for a in n.args]))
    if isinstance(n, N.Call):
        if n.dyn_args or n.dyn_kwargs:
            raise Unsupported('dynamic call args')
        return 'ECall (%s) %s %s' % (ex(n.node), clist(['(%s)' % ex(a) for a in n.args]), clist(['(%s, %s)' % (cstr(k.key), ex(k.value)) for k in n.kwargs]))
    if isinstance(n, (N.List, N.Tuple)):
        return 'EListLit %s' % clist(['(%s)' % ex(x) for x in n.items])
    raise Unsupported('expression node %s' % type(n).__name__)


def sts(body):
    return clist(['(%s)' % st(s) for s in body])


def st(n):
    if isinstance(n, N.Output):
        return 'SOut %s' % clist(['(%s)' % ex(x) for x in n.nodes])
    if isinstance(n, N.If):
        elifs = clist(['(%s, %s)' % (ex(e.test), sts(e.body)) for e in n.elif_])
        return 'SIf (%s) %s %s %s' % (ex(n.test), sts(n.body), elifs, sts(n.else_))
    if isinstance(n, N.For):
        if n.recursive or n.else_ or not isinstance(n.target, N.Name):
            raise Unsupported('for-loop form')
        return 'SFor %s (%s) %s %s' % (cstr(n.target.name), ex(n.iter), 'None' if n.test is None else '(Some (%s))' % ex(n.test), sts(n.body))
    if isinstance(n, N.Assign):
        if isinstance(n.target, N.Name):
            return 'SSet %s (%s)' % (cstr(n.target.name), ex(n.node))
        if isinstance(n.target, N.NSRef):
            return 'SSetNs %s %s (%s)' % (cstr(n.target.name), cstr(n.target.attr), ex(n.node))
        raise Unsupported('assign target')
    if isinstance(n, N.CallBlock):
        return 'SCallBlock (%s) %s' % (ex(n.call), sts(n.body))
    if isinstance(n, N.Macro):
        return 'SMacro %s %s %s %s' % (cstr(n.name), cstrs([a.name for a in n.args]), clist(['(%s)' % ex(d) for d in n.defaults]), sts(n.body))
    if isinstance(n, N.Block):
        return 'SBlock %s %s' % (cstr(n.name), sts(n.body))
    if isinstance(n, N.Extends):
        return 'SExtends (%s)' % ex(n.template)
    if isinstance(n, (N.Import, N.FromImport, N.Include)):
        return 'SOther %s' % cstr(type(n).__name__)
    raise Unsupported('statement node %s' % type(n).__name__)


def ident(gen, rel):
    return 't_' + re.sub(r'[^A-Za-z0-9]', '_', gen + '_' + rel)


def main(outdir):
    from pydjinni import API
    api = API()
    out = [HEADER]
    index = []
    for t in api.generation_targets.values():
        for g in t.generator_instances:
            tdir = g._generator_directory / 'templates'
            if not tdir.exists():
                continue
            for p in sorted(tdir.rglob('*')):
                if not p.is_file():
                    continue
                rel = str(p.relative_to(tdir))
                src = g.template_preprocessing(rel)
                ast = g._jinja_env.parse(src)
                name = ident(g.key, rel)
                try:
                    body = sts(ast.body)
                except Unsupported as e:
                    raise SystemExit('template %s/%s: unsupported construct: %s' % (g.key, rel, e))
                out.append('Definition %s : list stmt :=\n  %s.\n\n' % (name, body))
                index.append((g.key, rel, name))
    out.append('Definition all_templates : list (string * string * list stmt) :=\n  %s.\n' %
               clist(['(%s, %s, %s)' % (cstr(g), cstr(r), n) for g, r, n in index]))
    text = ''.join(out)
    path = os.path.join(outdir, 'Templates.v')
    if not (os.path.exists(path) and open(path).read() == text):
        open(path, 'w').write(text)
    print('templates ok: %d' % len(index))


if __name__ == '__main__':
    try:
        main(sys.argv[1])
    except BaseException:
        p = os.path.join(sys.argv[1], 'Templates.v')
        if os.path.exists(p):
            os.unlink(p)
        raise
