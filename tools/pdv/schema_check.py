"""python3-vt side: validate YAML documents (already parsed to JSON) against a JSON schema. stdin: {"schema":..., "docs":[...]}"""
import json, sys
import jsonschema
p = json.load(sys.stdin)
v = jsonschema.Draft202012Validator(p['schema'])
out = []
for d in p['docs']:
    errs = sorted(v.iter_errors(d), key=lambda e: list(e.path))
    out.append([('/'.join(map(str, e.path)) + ': ' + e.message)[:200] for e in errs[:3]])
print(json.dumps(out))
