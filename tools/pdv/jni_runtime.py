"""J-runtime: enum and flag constants crossing the C++ <-> Java boundary at run time.  The generated C++ / Java / JNI code of a program with
enum and flags types of many sizes is built together with the shipped JNI support library (g++ -shared, javac) and a small C++ implementation +
Java driver that send every constant, the empty / full sets and some unions across the boundary in both directions.
Returns a list of mismatch lines (empty = everything agrees) or raises JudgeProblem when the build itself is impossible."""
import os, re, shutil, subprocess, tempfile
from pathlib import Path


class JudgeProblem(Exception):
    pass


def pascal(n):
    return ''.join(w[:1].upper() + w[1:].lower() for w in n.split('_'))


def upper(n):
    return n.upper()


def program(enum_sizes, flag_specs):
    """flag_specs: list of lists of 'ord' | 'none' | 'all' (declaration order; every 'all' after the last 'ord': finding C08-K1 otherwise)"""
    lines, enums, flags = [], [], []
    for k, n in enumerate(enum_sizes):
        name = 'en_%d' % k
        items = ['e%d_%d' % (k, i) for i in range(n)]
        lines.append('%s = enum { %s }' % (name, ' '.join(i + ';' for i in items)))
        enums.append((name, items))
    for k, spec in enumerate(flag_specs):
        name = 'fl_%d' % k
        items = []
        for i, kind in enumerate(spec):
            items.append(('f%d_%d' % (k, i), kind))
        lines.append('%s = flags { %s }' % (name, ' '.join(n + (' = none' if kd == 'none' else ' = all' if kd == 'all' else '') + ';' for n, kd in items)))
        flags.append((name, items))
    meths = []
    for name, items in enums:
        meths += ['static %s_value(v: %s) -> i32;' % (name, name), 'static %s_named(index: i32) -> %s;' % (name, name)]
    for name, items in flags:
        meths += ['static %s_value(v: %s) -> i64;' % (name, name), 'static %s_named(index: i32) -> %s;' % (name, name),
                  'static %s_raw(bits: i64) -> %s;' % (name, name), 'static %s_union(a: %s, b: %s) -> %s;' % (name, name, name, name)]
    lines.append('api = main interface +cpp {\n    %s\n}' % '\n    '.join(meths))
    return '\n'.join(lines) + '\n', enums, flags


def cpp_impl(enums, flags):
    out = ['#include "api.hpp"', '#include <cstdint>', 'namespace rt {']
    for name, items in enums:
        T = pascal(name)
        out.append('static constexpr %s %s_constants[] = { %s };' % (T, name, ', '.join('%s::%s' % (T, upper(i)) for i in items) or '%s{}' % T))
        out.append('int32_t Api::%s_value(%s v) noexcept { return static_cast<int32_t>(v); }' % (name, T))
        out.append('%s Api::%s_named(int32_t index) noexcept { return %s_constants[index]; }' % (T, name, name))
    for name, items in flags:
        T = pascal(name)
        out.append('static constexpr %s %s_constants[] = { %s };' % (T, name, ', '.join('%s::%s' % (T, upper(i)) for i, _ in items)))
        out.append('int64_t Api::%s_value(%s v) noexcept { return static_cast<int64_t>(static_cast<unsigned>(v)); }' % (name, T))
        out.append('%s Api::%s_named(int32_t index) noexcept { return %s_constants[index]; }' % (T, name, name))
        out.append('%s Api::%s_raw(int64_t bits) noexcept { return static_cast<%s>(static_cast<unsigned>(bits)); }' % (T, name, T))
        out.append('%s Api::%s_union(%s a, %s b) noexcept { return a | b; }' % (T, name, T, T))
    out.append('}')
    return '\n'.join(out) + '\n'


def java_main(enums, flags):
    b = ['import java.util.EnumSet;', 'import rt.*;', 'public class Main {', '  static int failures = 0;',
         '  static void check(String what, Object expected, Object actual) { if (!expected.equals(actual)) { failures++; System.out.println("MISMATCH " + what + ": expected " + expected + ", got " + actual); } }',
         '  public static void main(String[] args) {']
    def camel(n):
        p = pascal(n)
        return p[:1].lower() + p[1:]
    for name, items in enums:
        T = pascal(name)
        b.append('    check("%s: number of constants", %d, %s.values().length);' % (name, len(items), T))
        b.append('    for (%s c : %s.values()) { check("Java->C++ value of %s." + c, c.ordinal(), Api.%s(c)); check("C++->Java %s constant #" + c.ordinal(), c, Api.%s(c.ordinal())); }'
                 % (T, T, T, camel(name + '_value'), T, camel(name + '_named')))
    for name, items in flags:
        T = pascal(name)
        ords = [i for i, (n, kd) in enumerate(items) if kd == 'ord']
        nord = len(ords)
        b.append('    check("%s: number of Java constants (ordinary flags)", %d, %s.values().length);' % (name, nord, T))
        b.append('    for (%s f : %s.values()) { check("Java->C++ value of %s." + f, 1L << f.ordinal(), Api.%s(EnumSet.of(f))); check("C++->Java raw bit " + f.ordinal() + " of %s", EnumSet.of(f), Api.%s(1L << f.ordinal())); }'
                 % (T, T, T, camel(name + '_value'), T, camel(name + '_raw')))
        full = (1 << nord) - 1
        b.append('    check("Java->C++ value of the empty %s set", 0L, Api.%s(EnumSet.noneOf(%s.class)));' % (T, camel(name + '_value'), T))
        b.append('    check("Java->C++ value of the full %s set", %dL, Api.%s(EnumSet.allOf(%s.class)));' % (T, full, camel(name + '_value'), T))
        b.append('    check("C++->Java empty %s", EnumSet.noneOf(%s.class), Api.%s(0L));' % (T, T, camel(name + '_raw')))
        b.append('    check("C++->Java full %s", EnumSet.allOf(%s.class), Api.%s(%dL));' % (T, T, camel(name + '_raw'), full))
        # the declared constants, in declaration order: ordinary -> its own bit, none -> empty, all -> everything
        oi = 0
        for idx, (n, kd) in enumerate(items):
            if kd == 'ord':
                b.append('    check("C++->Java %s constant #%d (ordinary)", EnumSet.of(%s.values()[%d]), Api.%s(%d));' % (T, idx, T, oi, camel(name + '_named'), idx)); oi += 1
            elif kd == 'none':
                b.append('    check("C++->Java %s constant #%d (none)", EnumSet.noneOf(%s.class), Api.%s(%d));' % (T, idx, T, camel(name + '_named'), idx))
            else:
                b.append('    check("C++->Java %s constant #%d (all)", EnumSet.allOf(%s.class), Api.%s(%d));' % (T, idx, T, camel(name + '_named'), idx))
        if nord >= 2:
            b.append('    check("C++ operator| on %s", EnumSet.of(%s.values()[0], %s.values()[%d]), Api.%s(EnumSet.of(%s.values()[0]), EnumSet.of(%s.values()[%d])));'
                     % (T, T, T, nord - 1, camel(name + '_union'), T, T, nord - 1))
    b += ['    if (failures != 0) { System.out.println(failures + " value(s) changed while crossing the language boundary"); System.exit(1); }',
          '    System.out.println("OK");', '  }', '}']
    return '\n'.join(b) + '\n'


OPTIONS = {'generate': {'cpp': {'out': 'out/cpp', 'namespace': 'rt', 'string_serialization': False},
                        'java': {'out': 'out/java', 'package': 'rt', 'native_lib': 'rtglue', 'string_serialization': False},
                        'jni': {'out': 'out/jni', 'namespace': 'rt::jni', 'identifier': {'file': {'style': 'snake_case', 'prefix': 'jni_'}}}}}


def build_and_run(tree, enums, flags, timeout=300):
    """tree: {relative path: content} as written by the generators (support library included)"""
    javac = shutil.which('javac')
    if not javac or not shutil.which('g++') or not shutil.which('java'):
        raise JudgeProblem('g++, javac and java are required')
    java_home = Path(javac).resolve().parent.parent
    work = Path(tempfile.mkdtemp(prefix='pdv-rt-'))
    try:
        for rel, text in tree.items():
            if rel.startswith('out/'):
                p = work / rel
                p.parent.mkdir(parents=True, exist_ok=True)
                p.write_text(text)
        (work / 'impl.cpp').write_text(cpp_impl(enums, flags))
        (work / 'Main.java').write_text(java_main(enums, flags))
        (work / 'shim').mkdir()
        (work / 'shim' / 'format').write_text('// g++ 12 has no <format>; the JNI support library includes it without using it\n')
        sources = [str(p) for p in (work / 'out').rglob('*.cpp')] + [str(work / 'impl.cpp')]
        cmd = ['g++', '-std=c++20', '-shared', '-fPIC', '-O0', '-w', *sources, '-I' + str(work / 'shim'), '-I' + str(work / 'out/cpp'), '-I' + str(work / 'out/jni'),
               '-I' + str(java_home / 'include'), '-I' + str(java_home / 'include' / 'linux'), '-o', str(work / 'librtglue.so')]
        p = subprocess.run(cmd, capture_output=True, text=True, timeout=timeout)
        if p.returncode != 0:
            raise JudgeProblem('g++: ' + (p.stderr or p.stdout)[-1500:])
        (work / 'classes').mkdir()
        jsrc = [str(x) for x in (work / 'out/java').rglob('*.java')] + [str(work / 'Main.java')]
        p = subprocess.run(['javac', '-nowarn', '-d', str(work / 'classes'), *jsrc], capture_output=True, text=True, timeout=timeout)
        if p.returncode != 0:
            raise JudgeProblem('javac: ' + (p.stderr or p.stdout)[-1500:])
        p = subprocess.run(['java', '-Xss4m', '-Djava.library.path=' + str(work), '-cp', str(work / 'classes'), 'Main'], capture_output=True, text=True, timeout=timeout)
        lines = [l for l in (p.stdout + p.stderr).split('\n') if l.strip()]
        if p.returncode == 0 and lines and lines[-1].strip() == 'OK':
            return []
        mism = [l for l in lines if l.startswith('MISMATCH')]
        if not mism:
            raise JudgeProblem('java ended with %d: %s' % (p.returncode, '\n'.join(lines[-12:])))
        return mism
    finally:
        shutil.rmtree(work, ignore_errors=True)
