"""Drive the real language-server handlers in-process (no transport): one server per case, an event sequence over
several documents, publishDiagnostics / log messages captured."""
import os, sys, json, shutil, tempfile
from pathlib import Path
sys.path.insert(0, os.path.dirname(__file__))
from _util import *


def run_case(case):
    from lsprotocol.types import (InitializeParams, ClientCapabilities, TextDocumentClientCapabilities, DocumentSymbolClientCapabilities,
                                  DidOpenTextDocumentParams, TextDocumentItem, DidChangeTextDocumentParams, VersionedTextDocumentIdentifier,
                                  TextDocumentContentChangeEvent_Type2, DidCloseTextDocumentParams, TextDocumentIdentifier, DocumentSymbolParams,
                                  DefinitionParams, HoverParams, Position, MessageType, TEXT_DOCUMENT_DOCUMENT_SYMBOL, TEXT_DOCUMENT_DEFINITION,
                                  TEXT_DOCUMENT_HOVER)
    from pydjinni_language_server.language_server import init_language_server
    tmp = Path(tempfile.mkdtemp(prefix='pdv-lsp-'))
    cwd = os.getcwd()
    os.chdir(tmp)
    try:
        for rel, text in (case.get('disk') or {}).items():
            p = tmp / rel
            p.parent.mkdir(parents=True, exist_ok=True)
            p.write_text(text)
        server = init_language_server(tmp / 'pydjinni.yaml', False, tmp / 'out', None)
        published, logs = [], []
        server.publish_diagnostics = lambda uri, diagnostics=None, **kw: published.append((uri, list(diagnostics or [])))
        server.show_message_log = lambda msg, msg_type=MessageType.Log: logs.append((msg_type, str(msg)))
        server.show_message = lambda msg, msg_type=MessageType.Info: logs.append((msg_type, str(msg)))
        server.lsp.lsp_initialize(InitializeParams(
            capabilities=ClientCapabilities(text_document=TextDocumentClientCapabilities(
                document_symbol=DocumentSymbolClientCapabilities(hierarchical_document_symbol_support=True))),
            root_uri=tmp.as_uri()))
        version = [0]
        def uri(d):
            # the CLIENT's spelling of the document URI (editors leave characters such as parentheses unescaped); for plain names it is pathlib's spelling
            return tmp.as_uri() + '/' + d
        outs = []
        for e in case['events']:
            npub, nlog = len(published), len(logs)
            o = {}
            try:
                if e[0] == 'open':
                    version[0] += 1
                    server.lsp.lsp_text_document__did_open(DidOpenTextDocumentParams(
                        TextDocumentItem(uri=uri(e[1]), language_id='pydjinni', version=version[0], text=e[2])))
                elif e[0] == 'change':
                    version[0] += 1
                    server.lsp.lsp_text_document__did_change(DidChangeTextDocumentParams(
                        text_document=VersionedTextDocumentIdentifier(uri=uri(e[1]), version=version[0]),
                        content_changes=[TextDocumentContentChangeEvent_Type2(text=e[2])]))
                elif e[0] == 'close':
                    server.lsp.lsp_text_document__did_close(DidCloseTextDocumentParams(TextDocumentIdentifier(uri(e[1]))))
                elif e[0] == 'symbols':
                    r = server.lsp.fm.features[TEXT_DOCUMENT_DOCUMENT_SYMBOL](DocumentSymbolParams(TextDocumentIdentifier(uri(e[1]))))
                    o['symbols'] = None if r is None else [s.name for s in r]
                elif e[0] == 'definition':
                    r = server.lsp.fm.features[TEXT_DOCUMENT_DEFINITION](
                        DefinitionParams(TextDocumentIdentifier(uri(e[1])), Position(e[2], e[3])))
                    o['answer'] = None if r is None else [os.path.basename(r.uri), r.range.start.line]
                elif e[0] == 'hover':
                    r = server.lsp.fm.features[TEXT_DOCUMENT_HOVER](HoverParams(TextDocumentIdentifier(uri(e[1])), Position(e[2], e[3])))
                    o['hover'] = None if r is None else r.contents.value[:60]
            except Exception as ex:  # noqa
                o['raised'] = '%s: %s' % (type(ex).__name__, str(ex)[:150])
            pubs = [(u, d) for u, d in published[npub:]]
            if pubs:
                u, d = pubs[-1]
                o['published'] = {'doc': os.path.basename(u), 'diags': [[int(x.severity), x.range.start.line, x.range.start.character] for x in d],
                                  'messages': [x.message[:80] for x in d]}
            errs = [m for t, m in logs[nlog:] if t == MessageType.Error]
            # a ConfigurationException is shown to the user as an error message by design; tracebacks come from @error_logger
            tb = [m for m in errs if 'Traceback' in m]
            if tb:
                o['error_log'] = tb[0][-300:]
            outs.append(o)
        return {'outs': outs}
    finally:
        os.chdir(cwd)
        shutil.rmtree(tmp, ignore_errors=True)


if __name__ == '__main__':
    payload = read_payload()
    res = []
    for c in payload['cases']:
        try:
            res.append(run_case(c))
        except BaseException as e:
            if isinstance(e, (KeyboardInterrupt, SystemExit)):
                raise
            import traceback
            res.append({'harness_error': traceback.format_exc()[-1500:]})
    emit({'results': res})
