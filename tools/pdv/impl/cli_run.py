"""Run `python -m pydjinni ...` as a subprocess and the documented API chain in-process on the same inputs."""
import os, sys, json, shutil, tempfile, hashlib, subprocess, types
from concurrent.futures import ThreadPoolExecutor
from pathlib import Path
sys.path.insert(0, os.path.dirname(__file__))
from _util import *
from config_ops import real_parse_option


def materialise(root, case):
    for rel, text in case['files'].items():
        p = Path(root) / rel
        p.parent.mkdir(parents=True, exist_ok=True)
        p.write_text(text)
    for rel in case.get('leftovers', []):
        p = Path(root) / rel
        p.parent.mkdir(parents=True, exist_ok=True)
        p.write_text('stale')


def tree(root):
    out = {}
    for p in sorted(Path(root).rglob('*')):
        if p.is_file() and '/pydjinni/' not in str(p) and not str(p).endswith('.log'):
            rel = str(p.relative_to(root))
            out[rel] = hashlib.sha256(p.read_bytes()).hexdigest()[:16]
    return out


def cli(case):
    root = tempfile.mkdtemp(prefix='pdv-cli-')
    try:
        materialise(root, case)
        args = [sys.executable, '-m', 'pydjinni']
        if case.get('config') is not None:
            args += ['--config', case['config']]
        for o in case.get('opts', []):
            args += ['-o', o]
        args += ['generate'] + (['--clean'] if case.get('clean') else []) + [case['idl']] + case['targets']
        env = dict(os.environ, COLUMNS='200', NO_COLOR='1', TERM='dumb')
        p = subprocess.run(args, cwd=root, capture_output=True, text=True, timeout=300, env=env)
        txt = p.stdout + p.stderr
        return {'status': p.returncode, 'traceback': 'Traceback (most recent call last)' in txt,
                'output': txt[-1500:], 'tree': tree(root)}
    finally:
        shutil.rmtree(root, ignore_errors=True)


def api(case, parse_option):
    from pydjinni import API
    from pydjinni.api import combine_into
    from pydjinni.exceptions import ApplicationException, ApplicationExceptionList
    root = tempfile.mkdtemp(prefix='pdv-api-')
    cwd = os.getcwd()
    os.chdir(root)
    try:
        materialise(root, case)
        set_root(root)
        stage = 'configure'
        try:
            options = {}
            for o in case.get('opts', []):
                combine_into(parse_option(o), options)
            cfg = case.get('config')
            if cfg is None:
                cfg = 'pydjinni.yaml'
            path = None if cfg in ('None', 'none', 'False', 'false') else Path(cfg)
            ctx = API().configure(path=path, options=options)
            stage = 'parse'
            g = ctx.parse(Path(case['idl']))
            for t in case['targets']:
                stage = 'generate:' + t
                g.generate(t, clean=bool(case.get('clean')))
            stage = 'report'
            g.write_processed_files()
            out = {'outcome': 'ok'}
        except ApplicationExceptionList as e:
            out = {'outcome': 'list', 'stage': stage, 'classes': [type(i).__qualname__ for i in e.items], 'codes': [i.code for i in e.items]}
        except ApplicationException as e:
            out = {'outcome': 'app', 'stage': stage, 'classes': [type(e).__qualname__], 'codes': [e.code]}
        except KeyError as e:
            out = {'outcome': 'internal', 'stage': stage, 'exc': exc_info(e)}
        except Exception as e:  # noqa
            out = {'outcome': 'internal', 'stage': stage, 'exc': exc_info(e)}
        out['tree'] = tree(root)
        return out
    finally:
        os.chdir(cwd)
        shutil.rmtree(root, ignore_errors=True)


if __name__ == '__main__':
    payload = read_payload()
    po = real_parse_option()
    cases = payload['cases']
    with ThreadPoolExecutor(max_workers=14) as ex:
        cli_res = list(ex.map(lambda c: (lambda: cli(c))() if True else None, cases))
    api_res = []
    for c in cases:
        try:
            api_res.append(api(c, po))
        except BaseException as e:
            if isinstance(e, (KeyboardInterrupt, SystemExit)):
                raise
            import traceback
            api_res.append({'harness_error': traceback.format_exc()[-1500:]})
    emit({'cli': cli_res, 'api': api_res})
