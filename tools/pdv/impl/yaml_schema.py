"""The published JSON schema of external type definitions (docs/gen-files/schemas.py does exactly this)."""
import os, sys
sys.path.insert(0, os.path.dirname(__file__))
from _util import *
if __name__ == '__main__':
    read_payload()
    from pydjinni.api import API
    emit({'schema': API().external_type_model.model_json_schema()})
