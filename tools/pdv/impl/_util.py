"""Helpers shared by the implementation-side drivers (run under /venv/bin/python with PYTHONPATH=/repo/src)."""
import json, os, sys, traceback, io, contextlib, warnings, logging
warnings.filterwarnings('ignore')
logging.disable(logging.CRITICAL)

def read_payload():
    return json.loads(sys.stdin.read())

def emit(result):
    sys.stdout.write('\n@@RESULT@@' + json.dumps(result, default=str))
    sys.stdout.flush()

def exc_info(e):
    """Classify an exception: pydjinni's own diagnostics vs internal Python errors (+ innermost pydjinni frame)."""
    from pydjinni.exceptions import ApplicationException, ApplicationExceptionList
    if isinstance(e, ApplicationExceptionList):
        return {'kind': 'list', 'items': [app_exc(i) for i in e.items]}
    if isinstance(e, ApplicationException):
        return {'kind': 'app', 'item': app_exc(e)}
    tb = traceback.extract_tb(e.__traceback__)
    frame = None
    for fr in tb:
        if '/pydjinni' in fr.filename:
            frame = '%s:%s' % (os.path.basename(fr.filename), fr.name)
    return {'kind': 'internal', 'cls': type(e).__name__, 'frame': frame, 'msg': str(e)[:300],
            'line': next((fr.lineno for fr in reversed(tb) if '/pydjinni' in fr.filename), None)}

def relpath(p, root):
    if p is None:
        return None
    p = str(p)
    root = str(root)
    if os.path.isabs(p):
        rp = os.path.realpath(p)
        rr = os.path.realpath(root)
        if rp == rr:
            return '.'
        if rp.startswith(rr + os.sep):
            return rp[len(rr) + 1:]
        return p
    return os.path.normpath(p)

_ROOT = [None]
def set_root(r):
    _ROOT[0] = r

def pos(p):
    if p is None:
        return None
    return {'file': relpath(p.file, _ROOT[0]) if p.file else None,
            'start': [p.start.line, p.start.col] if p.start else None,
            'end': [p.end.line, p.end.col] if p.end else None}

def app_exc(e):
    code = getattr(e, 'code', None)
    return {'cls': type(e).__qualname__, 'code': code, 'pos': pos(getattr(e, 'position', None)),
            'desc': str(getattr(e, 'description', ''))[:300]}
