"""Drive the real Resolver class with interleaved register/resolve operations."""
import os, sys
sys.path.insert(0, os.path.dirname(__file__))
from _util import *

def run_case(ops):
    from pydjinni.parser.resolver import Resolver
    from pydjinni.parser.base_models import BaseExternalType, BaseType, TypeReference
    from pydjinni.position import Position
    r = Resolver(BaseExternalType)
    out = []
    for op in ops:
        try:
            if op[0] == 'reg':
                t = BaseType(name=op[2], namespace=list(op[1]), position=Position())
                t.__dict__['_pdv_id'] = op[3]
                object.__setattr__(t, 'pdv_id', op[3])
                r.register(t)
                out.append('ok')
            else:
                ref = TypeReference(name=op[2], namespace=list(op[1]))
                d = r.resolve(ref)
                out.append(['some', getattr(d, 'pdv_id', -1)])
        except Resolver.TypeResolvingException as e:
            out.append('dup' if op[0] == 'reg' else 'none')
        except Exception as e:  # noqa
            out.append(['internal', type(e).__name__, str(e)[:200]])
    return out

if __name__ == '__main__':
    payload = read_payload()
    emit({'results': [run_case(c) for c in payload['cases']]})
