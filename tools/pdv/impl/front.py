"""Drive the real front end: API().configure(options).parse(root) on files written to a scratch directory.
Returns, per case, the canonical outcome record used by the K-front correspondences."""
import os, sys, shutil, tempfile
from pathlib import Path
sys.path.insert(0, os.path.dirname(__file__))
from _util import *

DEFAULT_OPTS = {"generate": {"cpp": {"out": "out/cpp"}, "java": {"out": "out/java", "package": "com.ex"},
                             "jni": {"out": "out/jni", "namespace": "ex::jni"}, "objc": {"out": "out/objc"},
                             "objcpp": {"out": "out/objcpp", "namespace": "ex::objcpp"},
                             "cppcli": {"out": "out/cppcli", "namespace": "Ex::Cli"}, "yaml": {"out": "out/yaml"}}}


def tref(r):
    if r is None:
        return None
    d = {'name': str(r.name), 'ns': [str(x) for x in r.namespace], 'opt': r.optional, 'pos': pos(r.position),
         'params': [tref(p) for p in r.parameters]}
    td = r.type_def
    if td is None:
        d['bound'] = None
    else:
        d['bound'] = {'name': str(td.name), 'ns': [str(x) for x in td.namespace], 'prim': str(td.primitive.value),
                      'pos': pos(td.position), 'cls': type(td).__name__}
        if type(td).__name__ == 'Function' and getattr(td, 'anonymous', False):
            d['fn'] = decl(td)
    return d


def param(p):
    return {'name': str(p.name), 'type': tref(p.type_ref), 'pos': pos(p.position), 'comment': p.comment}


def common(d):
    return {'name': str(d.name), 'pos': pos(d.position), 'comment': d.comment, 'deprecated': d.deprecated}


def decl(d):
    k = type(d).__name__
    o = common(d)
    o['k'] = k
    if hasattr(d, 'namespace'):
        o['ns'] = [str(x) for x in d.namespace]
    if k == 'Enum':
        o['items'] = [common(i) for i in d.items]
    elif k == 'Flags':
        o['flags'] = [dict(common(f), all=f.all, none=f.none) for f in d.flags]
    elif k == 'Record':
        o['fields'] = [dict(common(f), type=tref(f.type_ref)) for f in d.fields]
        o['targets'] = list(d.targets)
        o['deriving'] = sorted(str(x.value) for x in d.deriving)
        o['deps'] = [str(x.name) for x in d.dependencies]
    elif k == 'Interface':
        o['main'] = d.main
        o['targets'] = list(d.targets)
        o['methods'] = [dict(common(m), static=m.static, const=m.const, asyn=m.asynchronous,
                             params=[param(p) for p in m.parameters], ret=tref(m.return_type_ref),
                             throws=None if m.throwing is None else [tref(t) for t in m.throwing]) for m in d.methods]
        o['props'] = [dict(common(p), type=tref(p.type_ref)) for p in d.properties]
        o['deps'] = [str(x.name) for x in d.dependencies]
    elif k == 'Function':
        o['anonymous'] = d.anonymous
        o['targets'] = list(d.targets)
        o['params'] = [param(p) for p in d.parameters]
        o['ret'] = tref(d.return_type_ref)
        o['throws'] = None if d.throwing is None else [tref(t) for t in d.throwing]
        o['deps'] = [str(x.name) for x in d.dependencies]
    elif k == 'ErrorDomain':
        o['codes'] = [dict(common(c), params=[param(p) for p in c.parameters]) for c in d.error_codes]
        o['deps'] = [str(x.name) for x in d.dependencies]
    return o


def ast_node(n):
    if n is None:
        return None
    if type(n).__name__ == 'Namespace':
        return {'k': 'Namespace', 'name': str(n.name), 'pos': pos(n.position), 'comment': n.comment,
                'children': [ast_node(c) for c in n.children]}
    return decl(n)


def dump_cst(text):
    """The parse tree exactly as Parser.parse() obtains it (same lexer/parser set-up), plus the listener's errors."""
    from antlr4 import InputStream, CommonTokenStream
    from antlr4.error.ErrorListener import ErrorListener
    from antlr4.tree.Tree import ErrorNode, TerminalNode
    from pydjinni.parser.grammar.IdlLexer import IdlLexer
    from pydjinni.parser.grammar.IdlParser import IdlParser
    errs = []
    class L(ErrorListener):
        def syntaxError(self, recognizer, offendingSymbol, line, column, msg, e):
            errs.append([line, column])
    lexer = IdlLexer(InputStream(text))
    lexer.removeErrorListeners(); lexer.addErrorListener(L())
    parser = IdlParser(CommonTokenStream(lexer))
    parser.removeErrorListeners(); parser.addErrorListener(L())
    tree = parser.idl()
    def node(n):
        if isinstance(n, TerminalNode):
            t = n.symbol
            ty = 'EOF' if t.type == -1 else (IdlParser.symbolicNames[t.type] if 0 <= t.type < len(IdlParser.symbolicNames) else str(t.type))
            return {'t': ty, 'x': t.text if t.text is not None else '', 'l': t.line, 'c': t.column, 'err': isinstance(n, ErrorNode)}
        st, sp = n.start, n.stop
        return {'r': IdlParser.ruleNames[n.getRuleIndex()],
                's': None if st is None else [st.line, st.column],
                'e': None if sp is None else [sp.line, sp.column, len(sp.text) if sp.text is not None else 0],
                'c': [node(ch) for ch in (n.children or [])]}
    return {'tree': node(tree), 'syntax': errs}


def dump_extern(path):
    from pydjinni import API
    from pydjinni.parser.resolver import Resolver
    r = Resolver(API().external_type_model)
    try:
        r.load_external(Path(path))
    except BaseException as e:  # noqa
        return {'bad': True}
    return {'bad': False, 'types': [{'name': str(t.name), 'ns': [str(x) for x in t.namespace], 'prim': str(t.primitive.value),
                                     'params': list(t.params), 'pos': pos(t.position)} for t in r.registry.values()]}


def run_case(case):
    root = tempfile.mkdtemp(prefix='pdv-front-')
    cwd = os.getcwd()
    try:
        set_root(root)
        for rel, text in case['files'].items():
            p = Path(root) / rel
            p.parent.mkdir(parents=True, exist_ok=True)
            p.write_text(text)
        for rel in case.get('dirs', []):
            (Path(root) / rel).mkdir(parents=True, exist_ok=True)
        os.chdir(Path(root) / case.get('cwd', '.'))
        csts = {}
        if 'cst' in case.get('want', []):
            for rel, text in case['files'].items():
                if rel.endswith('.yaml') or rel.endswith('.yml'):
                    csts[rel] = {'extern': dump_extern(str(Path(root) / rel))}
                else:
                    csts[rel] = dump_cst((Path(root) / rel).read_text())   # as FileReaderWriter.read_idl reads it
        from pydjinni import API
        opts = case.get('options') or DEFAULT_OPTS
        out = {}
        try:
            ctx = API().configure(options=opts)
            g = ctx.parse(case['root'] if not case.get('root_abs') else str(Path(root) / case['root']))
            out['outcome'] = 'ok'
            src = g
        except BaseException as e:  # noqa
            if isinstance(e, (KeyboardInterrupt, SystemExit, CaseTimeout)):
                raise
            info = exc_info(e)
            out['outcome'] = info['kind']
            out['exc'] = info
            src = e if info['kind'] == 'list' and hasattr(e, 'type_decls') else None
        if src is not None:
            want = case.get('want', ['defs', 'refs', 'ast', 'imports'])
            defs = src.defs if hasattr(src, 'defs') else src.type_decls
            refs = src.refs if hasattr(src, 'refs') else src.type_refs
            if 'defs' in want:
                out['defs'] = [decl(d) for d in defs]
            if 'refs' in want:
                out['refs'] = [tref(r) for r in refs]
            if 'ast' in want:
                out['ast'] = [ast_node(n) for n in (src.ast or [])]
            if 'imports' in want:
                out['imports'] = [{'path': relpath(f.path, root), 'pos': pos(f.position)} for f in src.file_imports]
        if csts:
            out['cst'] = csts
        return out
    finally:
        os.chdir(cwd)
        shutil.rmtree(root, ignore_errors=True)


class CaseTimeout(BaseException):
    pass


def _alarm(signum, frame):
    raise CaseTimeout()


if __name__ == '__main__':
    import signal
    payload = read_payload()
    res = []
    signal.signal(signal.SIGALRM, _alarm)
    for c in payload['cases']:
        try:
            signal.alarm(int(c.get('timeout_s', 25)))
            try:
                res.append(run_case(c))
            finally:
                signal.alarm(0)
        except CaseTimeout:
            res.append({'outcome': 'timeout'})
        except BaseException as e:  # harness-level failure
            if isinstance(e, (KeyboardInterrupt, SystemExit)):
                raise
            import traceback
            res.append({'outcome': 'harness-error', 'msg': traceback.format_exc()[-1500:]})
    emit({'results': res})
