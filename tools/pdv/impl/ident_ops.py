"""IdentifierType.convert on (name, style, prefix) triples."""
import os, sys
sys.path.insert(0, os.path.dirname(__file__))
from _util import *

if __name__ == '__main__':
    payload = read_payload()
    from pydjinni.parser.identifier import IdentifierType
    from pydjinni.config.types import IdentifierStyle
    out = []
    for name, style, prefix in payload['cases']:
        try:
            st = IdentifierStyle.Case(style) if prefix is None else IdentifierStyle(style=IdentifierStyle.Case(style), prefix=prefix)
            out.append({'v': IdentifierType(name).convert(st)})
        except Exception as e:  # noqa
            out.append({'err': '%s: %s' % (type(e).__name__, str(e)[:200])})
    emit({'results': out})
