"""Drive the real FileReaderWriter with operation sequences in a scratch directory."""
import os, sys, json, shutil, tempfile
from pathlib import Path
sys.path.insert(0, os.path.dirname(__file__))
from _util import *


def run_case(case):
    from pydjinni.file.file_reader_writer import FileReaderWriter
    from pydjinni.file.processed_files_model_builder import ProcessedFilesModelBuilder
    root = tempfile.mkdtemp(prefix='pdv-wr-')
    cwd = os.getcwd()
    os.chdir(root)
    try:
        b = ProcessedFilesModelBuilder()
        for k in case['keys']:
            b.add_generated_field(k, header=True, source=True)
        w = FileReaderWriter()
        w.setup(b.build())
        for op in case['ops']:
            o = op[0]
            if o in ('ReadIdl', 'ReadExt'):
                p = Path(op[1]); p.parent.mkdir(parents=True, exist_ok=True); p.write_text('x')
                (w.read_idl if o == 'ReadIdl' else w.read_external_type)(p)
            elif o == 'SetupInc':
                w.setup_include_dir(op[1], Path(op[2]))
            elif o == 'SetupSrc':
                w.setup_source_dir(op[1], Path(op[2]))
            elif o == 'WriteHeader':
                w.write_header(op[1], Path(op[2]), op[3])
            elif o == 'WriteSource':
                w.write_source(op[1], Path(op[2]), op[3])
            elif o in ('CopyHeader', 'CopySource'):
                src = Path('srcdir_%d' % len(os.listdir('.')))
                (src / Path(op[2]).name).parent.mkdir(parents=True, exist_ok=True)
                (src / Path(op[2]).name).write_text('c')
                (w.copy_header_directory if o == 'CopyHeader' else w.copy_source_directory)(op[1], src, Path(op[2]).parent)
        w.write_processed_files(Path('rep.json'))
        rep = json.loads(Path('rep.json').read_text())
        files = {}
        for p in Path('.').rglob('*'):
            if p.is_file() and not str(p).startswith('srcdir_') and str(p) != 'rep.json':
                files[str(p)] = p.read_text()
        return {'report': rep, 'files': files}
    finally:
        os.chdir(cwd)
        shutil.rmtree(root, ignore_errors=True)


if __name__ == '__main__':
    payload = read_payload()
    res = []
    for c in payload['cases']:
        try:
            res.append(run_case(c))
        except BaseException as e:
            if isinstance(e, (KeyboardInterrupt, SystemExit)):
                raise
            import traceback
            res.append({'harness_error': traceback.format_exc()[-1500:]})
    emit({'results': res})
