"""Drive the real configuration code: combine_into, the CLI's parse_option (extracted from cli()'s code object),
API.configure with every source (yaml/json/toml file, dict, -o strings, environment), and the parse/generate lattice."""
import os, sys, json, shutil, tempfile, types, copy
from collections import defaultdict
from pathlib import Path
sys.path.insert(0, os.path.dirname(__file__))
from _util import *


def real_parse_option():
    """The nested function parse_option of pydjinni.cli.cli.cli, rebuilt from its own code object."""
    import pydjinni.cli.cli as climod
    fn = climod.cli.callback
    while hasattr(fn, '__wrapped__'):
        fn = fn.__wrapped__
    for const in fn.__code__.co_consts:
        if isinstance(const, types.CodeType) and const.co_name == 'parse_option':
            return types.FunctionType(const, climod.__dict__, 'parse_option')
    raise RuntimeError('parse_option not found in cli()')


def plain(d):
    if isinstance(d, dict):
        return {k: plain(v) for k, v in d.items()}
    return d


def outcome(f):
    from pydjinni.exceptions import ApplicationException
    try:
        return {'r': 'ok', 'v': f()}
    except ApplicationException as e:
        return {'r': 'app', 'exc': app_exc(e)}
    except Exception as e:  # noqa
        return {'r': 'internal', 'exc': exc_info(e)}


def dump_config(ctx):
    return json.loads(ctx.config.model_dump_json())


def write_file(root, fmt, tree):
    import yaml, tomli_w
    p = Path(root) / ('cfg.' + fmt)
    if fmt in ('yaml', 'yml'):
        p.write_text(yaml.safe_dump(tree))
    elif fmt == 'json':
        p.write_text(json.dumps(tree))
    elif fmt == 'toml':
        p.write_text(tomli_w.dumps(tree))
    return p


def run_case(c, parse_option):
    from pydjinni import API
    from pydjinni.api import combine_into
    k = c['k']
    if k == 'combine':
        d, comb = copy.deepcopy(c['d']), copy.deepcopy(c['c'])
        return outcome(lambda: (combine_into(d, comb), comb)[1])
    if k == 'options':
        def f():
            acc = {}
            for o in c['opts']:
                combine_into(parse_option(o), acc)
            return plain(acc)
        return outcome(f)
    root = tempfile.mkdtemp(prefix='pdv-cfg-')
    cwd = os.getcwd()
    os.chdir(root)
    saved_env = dict(os.environ)
    try:
        set_root(root)
        if k == 'configure':
            # c['file']: tree or None; c['fmt']; c['options']: tree; c['opts']: -o strings; c['env']: {NAME: value}
            path = write_file(root, c['fmt'], c['file']) if c.get('file') is not None else None
            if c.get('raw_file') is not None:
                path = Path(root) / ('cfg.' + c['fmt'])
                path.write_text(c['raw_file'])
            if c.get('dir_as_file'):
                path = Path(root) / 'cfgdir.yaml'
                path.mkdir()
            os.environ.update(c.get('env') or {})
            def f():
                options = copy.deepcopy(c.get('options') or {})
                for o in c.get('opts') or []:
                    combine_into(parse_option(o), options)
                api = API()
                seen = {}
                model = api._configuration_model
                class Proxy:
                    def model_validate(self, d):
                        seen['tree'] = copy.deepcopy(d)
                        return model.model_validate(d)
                api._configuration_model = Proxy()
                ctx = api.configure(path, plain(options) if options or path is None else None)
                return {'config': dump_config(ctx), 'tree': seen.get('tree')}
            return outcome(f)
        if k == 'configure_seq':
            # one configuration file, several configure() calls in this process (fresh API object each, or one object for all):
            # every call must behave like the only one
            path = write_file(root, c['fmt'], c['file'])
            shared = API() if c.get('shared_api') else None
            outs = []
            for options in c['steps']:
                def f(options=options):
                    api = shared or API()
                    seen = {}
                    model = api._configuration_model
                    if not isinstance(model, type) and hasattr(model, '_pdv_inner'):
                        model = model._pdv_inner
                    class Proxy:
                        _pdv_inner = model
                        def model_validate(self, d):
                            seen['tree'] = copy.deepcopy(d)
                            return model.model_validate(d)
                    api._configuration_model = Proxy()
                    ctx = api.configure(path, plain(copy.deepcopy(options)) if options else None)
                    return {'config': dump_config(ctx), 'tree': seen.get('tree')}
                outs.append(outcome(f))
            return {'r': 'seq', 'steps': outs}
        if k == 'lattice':
            (Path(root) / 'a.djinni').write_text('foo = enum { a; b; }\n')
            full = c['full']
            gen = {g: full[g] for g in c['keys']}
            def f():
                ctx = API().configure(options={'generate': gen} if c.get('has_generate', True) else {'package': {'target': 'x'}})
                return 'configured'
            o = outcome(f)
            if o['r'] != 'ok':
                return {'configure': o}
            res = {}
            def p():
                ctx = API().configure(options={'generate': gen} if c.get('has_generate', True) else {'package': {'target': 'x'}})
                g = ctx.parse('a.djinni')
                res['g'] = g
                return 'parsed'
            po = outcome(p)
            out = {'parse': po}
            if po['r'] == 'ok':
                def gg():
                    res['g'].generate(c['target'])
                    return 'generated'
                out['generate'] = outcome(gg)
            return out
    finally:
        os.environ.clear()
        os.environ.update(saved_env)
        os.chdir(cwd)
        shutil.rmtree(root, ignore_errors=True)


if __name__ == '__main__':
    payload = read_payload()
    po = None
    try:
        po = real_parse_option()
    except Exception as e:  # noqa
        emit({'fatal': 'cannot extract parse_option: %s' % e})
        sys.exit(0)
    res = []
    for c in payload['cases']:
        try:
            res.append(run_case(c, po))
        except BaseException as e:
            if isinstance(e, (KeyboardInterrupt, SystemExit)):
                raise
            import traceback
            res.append({'harness_error': traceback.format_exc()[-1500:]})
    emit({'results': res})
