"""Read marshalling attributes off the real objects after API.parse: per declaration (and its members) and generator."""
import os, sys, json, shutil, tempfile
from pathlib import Path
sys.path.insert(0, os.path.dirname(__file__))
from _util import *

GENS = ['cpp', 'java', 'jni', 'objc', 'objcpp', 'cppcli']


def attr(obj, gen, name):
    try:
        m = getattr(obj, gen)
    except Exception as e:  # noqa
        return {'err': 'no-marshal:' + type(e).__name__}
    try:
        v = getattr(m, name)
        if callable(v):
            if name in ('prefix_specifiers', 'postfix_specifiers'):
                return {'v': str(v())}
            return {'err': 'callable'}
        if isinstance(v, (set, frozenset)):
            return {'v': sorted(str(x) for x in v), 'set': True}
        if isinstance(v, (list, tuple)):
            return {'v': [str(x) for x in v]}
        if isinstance(v, bool) or v is None:
            return {'v': v}
        return {'v': str(v)}
    except AttributeError as e:
        return {'err': 'AttributeError', 'msg': str(e)[:150]}
    except Exception as e:  # noqa
        from pydjinni.exceptions import ApplicationException
        if isinstance(e, ApplicationException):
            return {'app': type(e).__name__, 'code': getattr(e, 'code', None), 'msg': str(getattr(e, 'description', ''))[:150]}
        return {'err': type(e).__name__, 'msg': str(e)[:150]}


def tref(r):
    if r is None:
        return None
    td = r.type_def
    return {'name': str(r.name), 'opt': r.optional, 'params': [tref(p) for p in r.parameters],
            'target': None if td is None else {'name': str(td.name), 'ns': [str(x) for x in td.namespace], 'prim': str(td.primitive.value),
                                               'builtin': not hasattr(td, 'dependencies'), 'anonymous': bool(getattr(td, 'anonymous', False)),
                                               'java': {a: attr(td, 'java', a).get('v') for a in ('typename', 'boxed', 'reference')},
                                               'jni': {a: attr(td, 'jni', a).get('v') for a in ('type_signature', 'boxed_type_signature', 'typename')},
                                               'cpp': {a: attr(td, 'cpp', a).get('v') for a in ('typename', 'by_value')},
                                               'objc': {a: attr(td, 'objc', a).get('v') for a in ('typename', 'boxed', 'pointer')},
                                               'cppcli': {a: attr(td, 'cppcli', a).get('v') for a in ('typename', 'reference')}}}


def dump_members(d, want):
    out = []
    k = type(d).__name__
    def member(m, kind, extra=None):
        e = {'kind': kind, 'name': str(m.name), 'deprecated': m.deprecated, 'comment': m.comment}
        if extra:
            e.update(extra)
        e['attrs'] = {g: {a: attr(m, g, a) for a in want.get(kind, [])} for g in GENS}
        return e
    if k == 'Enum':
        out += [member(i, 'item') for i in d.items]
    elif k == 'Flags':
        out += [member(i, 'flag', {'all': i.all, 'none': i.none}) for i in d.flags]
    elif k == 'Record':
        out += [member(f, 'field', {'type': tref(f.type_ref)}) for f in d.fields]
    elif k == 'Interface':
        for m in d.methods:
            e = member(m, 'method', {'static': m.static, 'const': m.const, 'asyn': m.asynchronous, 'ret': tref(m.return_type_ref),
                                     'throws': None if m.throwing is None else [tref(t) for t in m.throwing]})
            e['params'] = [member(p, 'param', {'type': tref(p.type_ref)}) for p in m.parameters]
            out.append(e)
    elif k == 'Function':
        for p in d.parameters:
            out.append(member(p, 'param', {'type': tref(p.type_ref)}))
    elif k == 'ErrorDomain':
        for c in d.error_codes:
            e = member(c, 'code')
            e['params'] = [member(p, 'param', {'type': tref(p.type_ref)}) for p in c.parameters]
            out.append(e)
    return out


def run_case(case):
    from pydjinni import API
    root = tempfile.mkdtemp(prefix='pdv-md-')
    cwd = os.getcwd()
    try:
        set_root(root)
        for rel, text in case['files'].items():
            p = Path(root) / rel
            p.parent.mkdir(parents=True, exist_ok=True)
            p.write_text(text)
        os.chdir(root)
        try:
            ctx = API().configure(options=case['options'])
            g = ctx.parse(case['root'])
        except BaseException as e:  # noqa
            if isinstance(e, (KeyboardInterrupt, SystemExit)):
                raise
            return {'outcome': exc_info(e)['kind'], 'exc': exc_info(e)}
        want = case['want']
        decls = []
        for d in g.defs:
            k = type(d).__name__
            e = {'k': k, 'name': str(d.name), 'ns': [str(x) for x in d.namespace], 'deprecated': d.deprecated, 'comment': d.comment,
                 'anonymous': bool(getattr(d, 'anonymous', False)), 'targets': list(getattr(d, 'targets', []) or []),
                 'deriving': sorted(str(x.value) for x in getattr(d, 'deriving', []) or []),
                 'attrs': {gn: {a: attr(d, gn, a) for a in want.get('decl', [])} for gn in GENS}}
            if case.get('ext_fields'):
                e['computed'] = {}
                for gn in GENS:
                    try:
                        mm = getattr(d, gn)
                        names = sorted(type(mm).model_computed_fields.keys())
                        e['computed'][gn] = {a: attr(d, gn, a) for a in names}
                    except Exception as ex_:  # noqa
                        e['computed'][gn] = {'__error__': str(ex_)[:100]}
            if k == 'Function':
                e['ret'] = tref(d.return_type_ref)
                e['throws'] = None if d.throwing is None else [tref(t) for t in d.throwing]
            if want.get('members', True):
                e['members'] = dump_members(d, want)
            decls.append(e)
        cfg = json.loads(ctx.config.model_dump_json())
        ext_fields = {}
        try:
            for t_ in ctx._api.generation_targets.values() if hasattr(ctx, '_api') else []:
                pass
        except Exception:  # noqa
            pass
        if case.get('ext_fields'):
            from pydjinni import API as _API
            a_ = _API()
            for t_ in a_.generation_targets.values():
                for gi in t_.generator_instances:
                    m_ = getattr(gi, 'external_type_model', None)
                    if m_ is not None:
                        ext_fields[gi.key] = sorted(m_.model_fields.keys())
        return {'outcome': 'ok', 'decls': decls, 'config': cfg['generate'], 'ext_fields': ext_fields}
    finally:
        os.chdir(cwd)
        shutil.rmtree(root, ignore_errors=True)


if __name__ == '__main__':
    payload = read_payload()
    res = []
    for c in payload['cases']:
        try:
            res.append(run_case(c))
        except BaseException as e:
            if isinstance(e, (KeyboardInterrupt, SystemExit)):
                raise
            import traceback
            res.append({'outcome': 'harness-error', 'msg': traceback.format_exc()[-1500:]})
    emit({'results': res})
