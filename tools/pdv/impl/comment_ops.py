"""Run the real comment filter of each generator and the real deprecated() helpers on given strings."""
import os, sys, json
sys.path.insert(0, os.path.dirname(__file__))
from _util import *


def main():
    payload = read_payload()
    from pydjinni import API
    from types import SimpleNamespace
    api = API()
    gens = {}
    for t in api.generation_targets.values():
        for g in t.generator_instances:
            gens[g.key] = g
    import pydjinni.generator.cpp.cpp.type as cpp_t
    import pydjinni.generator.objc.objc.type as objc_t
    import pydjinni.generator.cppcli.cppcli.type as cli_t
    res = []
    for c in payload['cases']:
        out = {}
        try:
            if c['k'] == 'filter':
                g = gens[c['gen']]
                out = {'v': g._jinja_env.filters['comment'](c['text']), 'start': g.comment_start_string, 'end': g.comment_end_string,
                       'prefix': g.comment_line_prefix}
            elif c['k'] == 'javadoc':
                from mistune import Markdown
                from pydjinni.parser.markdown_plugins import commands_plugin
                import pydjinni.generator.java.java.type as java_t
                from pydjinni.generator.java.java.comment_renderer import JavaDocCommentRenderer
                g = gens['java']
                cfg = java_t.JavaConfig.model_validate({'out': 'o', 'package': 'com.ex'})
                decl = SimpleNamespace(comment=c['text'], parsed_comment=Markdown(plugins=[commands_plugin]).parse(c['text']))
                raw = JavaDocCommentRenderer(cfg.identifier).render_tokens(*Markdown(plugins=[commands_plugin]).parse(c['text'])).strip()
                cls = java_t.JavaBaseField if c.get('field') else java_t.JavaBaseType
                prop = cls.comment.func(SimpleNamespace(decl=decl, config=cfg))
                out = {'raw': raw, 'prop': prop, 'v': g._jinja_env.filters['comment'](prop), 'start': g.comment_start_string,
                       'end': g.comment_end_string, 'prefix': g.comment_line_prefix}
            elif c['k'] == 'deprecated':
                decl = SimpleNamespace(deprecated=c['text'])
                if c['gen'] == 'cpp':
                    out = {'v': cpp_t.deprecated(decl)}
                elif c['gen'] == 'objc':
                    out = {'v': objc_t.ObjcBaseCommentModel.deprecated.fget(SimpleNamespace(decl=decl))}
                elif c['gen'] == 'cppcli':
                    m = SimpleNamespace(decl=decl)
                    f = cli_t.CppCliBaseCommentModel.deprecated
                    out = {'v': (f.fget if isinstance(f, property) else f.func)(m)}
        except Exception as e:  # noqa
            out = {'err': type(e).__name__, 'msg': str(e)[:200]}
        res.append(out)
    emit({'results': res})

if __name__ == '__main__':
    main()
