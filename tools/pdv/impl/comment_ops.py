"""Run the real comment filter of each generator and the real deprecated() helpers on given strings."""
import os, sys, json
sys.path.insert(0, os.path.dirname(__file__))
from _util import *


def main():
    payload = read_payload()
    from pydjinni import API
    from types import SimpleNamespace
    api = API()
    gens = {}
    for t in api.generation_targets.values():
        for g in t.generator_instances:
            gens[g.key] = g
    import pydjinni.generator.cpp.cpp.type as cpp_t
    import pydjinni.generator.objc.objc.type as objc_t
    import pydjinni.generator.cppcli.cppcli.type as cli_t
    res = []
    for c in payload['cases']:
        out = {}
        try:
            if c['k'] == 'filter':
                g = gens[c['gen']]
                out = {'v': g._jinja_env.filters['comment'](c['text']), 'start': g.comment_start_string, 'end': g.comment_end_string,
                       'prefix': g.comment_line_prefix}
            elif c['k'] == 'deprecated':
                decl = SimpleNamespace(deprecated=c['text'])
                if c['gen'] == 'cpp':
                    out = {'v': cpp_t.deprecated(decl)}
                elif c['gen'] == 'objc':
                    out = {'v': objc_t.ObjcBaseCommentModel.deprecated.fget(SimpleNamespace(decl=decl))}
                elif c['gen'] == 'cppcli':
                    m = SimpleNamespace(decl=decl)
                    f = cli_t.CppCliBaseCommentModel.deprecated
                    out = {'v': (f.fget if isinstance(f, property) else f.func)(m)}
        except Exception as e:  # noqa
            out = {'err': type(e).__name__, 'msg': str(e)[:200]}
        res.append(out)
    emit({'results': res})

if __name__ == '__main__':
    main()
