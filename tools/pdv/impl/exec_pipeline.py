"""Drive the real packaging pipeline (build* -> package -> publish) with os.system / shutil.which replaced by an
outcome oracle that also simulates the files a successful tool leaves behind.  Everything else is the real code."""
import os, sys, shutil, tempfile, re, shlex
from pathlib import Path
sys.path.insert(0, os.path.dirname(__file__))
from _util import *


def run_case(case):
    # pydjinni.packaging.target.execute's default working_dir is evaluated at import time: the one scratch
    # directory is created and entered before the first import and reused (emptied) for every case
    root = BASE[0]
    cwd0 = os.getcwd()
    for ch in os.listdir(root):
        q = os.path.join(root, ch)
        shutil.rmtree(q, ignore_errors=True) if os.path.isdir(q) and not os.path.islink(q) else os.unlink(q)
    os.chdir(root)
    import pydjinni.packaging.target as pt
    from pydjinni import API
    from pydjinni.exceptions import ApplicationException
    plan = list(case['plan'])        # outcomes per os.system/which consultation: 'zero' | 'nonzero' | 'missing'
    calls = []
    tname = case['name']
    version = case.get('version', '1.2.3')
    real_which, real_system = shutil.which, os.system

    def nxt():
        return plan[len(calls)] if len(calls) < len(plan) else 'zero'

    def which(cmd, *a, **k):
        if nxt() == 'missing':
            calls.append({'cmd': os.path.basename(str(cmd)), 'cwd': relpath(os.getcwd(), root), 'outcome': 'missing'})
            return None
        return str(cmd)

    def system(full):
        o = nxt()
        words = full.split()
        cmd = os.path.basename(words[0])
        calls.append({'cmd': cmd, 'arg': words[1] if len(words) > 1 else '', 'cwd': relpath(os.getcwd(), root), 'outcome': o})
        if o != 'zero':
            return 256
        # simulate the effect of the successful tool
        if cmd == 'conan':
            out = Path(words[words.index('--output-folder') + 1]) / 'dist'
            (out / tname).mkdir(parents=True, exist_ok=True)
            (out / tname / 'Gen.java').write_text('class Gen {}')
            (out / ('lib%s.so' % tname)).write_text('so')
            (out / ('%s.dll' % tname)).write_text('dll')
            fw = out / ('%s.framework' % tname)
            fw.mkdir(exist_ok=True)
            (fw / tname).write_text('bin')
        elif cmd == 'gradlew' and 'assembleRelease' in full:
            p = Path('build/outputs/aar')
            p.mkdir(parents=True, exist_ok=True)
            (p / ('%s-release.aar' % tname)).write_text('aar')
        elif cmd == 'nuget' and words[1] == 'pack':
            out = Path(words[words.index('-OutputDirectory') + 1])
            out.mkdir(parents=True, exist_ok=True)
            (out / ('%s.%s.nupkg' % (tname, version))).write_text('nupkg')
        elif cmd == 'git' and words[1] == 'clone':
            dst = Path(words[-1])
            dst.mkdir(parents=True, exist_ok=True)
            (dst / 'Package.swift').write_text('old')
        return 0

    shutil.which = which
    os.system = system
    out = {'steps': []}
    try:
        set_root(root)
        cfg = {'package': {'target': tname, 'version': version, 'out': 'dist',
                           'aar': {'publish': {'group_id': 'g', 'artifact_id': 'a',
                                               **({'maven_registry': 'https://maven.example.org/r', 'username': 'u', 'password': 'p'} if case.get('remote') else {})},
                                   'platforms': {'android': case.get('archs', {}).get('android', ['x86_64'])}},
                           'nuget': {'publish': ({'source': 'https://nuget.example.org/v3/index.json', 'username': 'u', 'password': 'p'} if case.get('remote') else {'source': str(Path(root) / 'local_feed')}),
                                     'platforms': {'windows': case.get('archs', {}).get('windows', ['x86_64'])}},
                           'swiftpackage': {'publish': ({'repository': 'https://git.example.org/foo/bar.git', 'username': 'u', 'password': 'p'} if case.get('remote') else {'repository': str(Path(root) / 'local_repo')}),
                                            'platforms': {'macos': case.get('archs', {}).get('macos', ['armv8']),
                                                          'ios': ['armv8'], 'ios_simulator': ['armv8']}}},
               'build': {'conan': {}}}
        ctx = API().configure(options=cfg)
        target = case['target']
        pkg_out = Path(root) / 'dist' / 'Release' / 'package' / target
        for op in case['ops']:
            before = os.getcwd()
            st = {'op': op}
            try:
                if op[0] == 'build':
                    pc = out.get('_pc') or ctx.package(target)
                    out['_pc'] = pc
                    pc.build(op[1], architectures=set(op[2]) if op[2] else None, clean=False)
                elif op[0] == 'package':
                    pc = out.get('_pc') or ctx.package(target)
                    out['_pc'] = pc
                    pc.write_package(clean=op[1])
                elif op[0] == 'publish':
                    ctx.publish(target)
                elif op[0] == 'seed_artifact':
                    pkg_out.mkdir(parents=True, exist_ok=True)
                    (pkg_out / 'stale.artifact').write_text('old')
                st['result'] = 'ok'
            except ApplicationException as e:
                st['result'] = 'app'
                st['code'] = getattr(e, 'code', None)
                st['cls'] = type(e).__name__
            except Exception as e:  # noqa
                st['result'] = 'internal'
                st['cls'] = type(e).__name__
                st['msg'] = str(e)[:200]
            st['cwd_restored'] = os.getcwd() == before
            st['cwd'] = relpath(os.getcwd(), root)
            st['calls'] = len(calls)
            st['artifacts'] = sorted(str(p.relative_to(pkg_out)) for p in pkg_out.rglob('*') if p.is_file()) if pkg_out.exists() else []
            out['steps'].append(st)
            os.chdir(before)
            if st['result'] != 'ok':
                break
        out.pop('_pc', None)
        out['calls'] = calls
        return out
    finally:
        shutil.which, os.system = real_which, real_system
        os.chdir(cwd0)


BASE = [None]

if __name__ == '__main__':
    payload = read_payload()
    BASE[0] = tempfile.mkdtemp(prefix='pdv-exec-')
    os.chdir(BASE[0])
    res = []
    for c in payload['cases']:
        try:
            res.append(run_case(c))
        except BaseException as e:
            if isinstance(e, (KeyboardInterrupt, SystemExit)):
                raise
            import traceback
            res.append({'harness_error': traceback.format_exc()[-1500:]})
    os.chdir('/')
    shutil.rmtree(BASE[0], ignore_errors=True)
    emit({'results': res})
