"""Render a sliced fragment of a real template with Jinja itself on the real marshalling objects, and dump the values of
the attribute paths the fragment reads (the model's environment)."""
import os, sys, json, shutil, tempfile, enum
from pathlib import Path
sys.path.insert(0, os.path.dirname(__file__))
from _util import *
from jinja2 import nodes as N


def find_for(node, attr):
    for n in node.iter_child_nodes():
        if isinstance(n, N.For) and isinstance(n.iter, N.Getattr) and isinstance(n.iter.node, N.Name) and n.iter.node.name == 'type_def' and n.iter.attr == attr:
            return n
        r = find_for(n, attr)
        if r is not None:
            return r
    return None


def find_fors(node, attr):
    out = []
    for n in node.iter_child_nodes():
        if isinstance(n, N.For) and isinstance(n.iter, N.Getattr) and isinstance(n.iter.node, N.Name) and n.iter.node.name == 'type_def' and n.iter.attr == attr:
            out.append(n)
        else:
            out += find_fors(n, attr)
    return out


def tests_deriving(e, tag):
    if isinstance(e, N.Compare) and len(e.ops) == 1 and e.ops[0].op == 'in' and isinstance(e.expr, N.Const) and e.expr.value == tag:
        t = e.ops[0].expr
        return isinstance(t, N.Getattr) and isinstance(t.node, N.Name) and t.node.name == 'type_def' and t.attr == 'deriving'
    if isinstance(e, (N.And, N.Or)):
        return tests_deriving(e.left, tag) or tests_deriving(e.right, tag)
    return False


def find_ifs(node, tag):
    out = []
    for n in node.iter_child_nodes():
        if isinstance(n, N.If) and tests_deriving(n.test, tag):
            out.append(n)
        else:
            out += find_ifs(n, tag)
    return out


MACROS = {}      # name -> jinja2 Macro node of the template (and of its base template) currently sliced


def paths(node, env, out):
    """collect attribute paths; env maps variable names to path prefixes"""
    call = node.call if isinstance(node, N.CallBlock) else node if isinstance(node, N.Call) else None
    if call is not None and isinstance(call.node, N.Name) and call.node.name in MACROS and not getattr(call, '_pdv_seen', False):
        m = MACROS[call.node.name]
        env2 = dict(env)
        for i, a in enumerate(m.args):
            arg = call.args[i] if i < len(call.args) else next((k.value for k in call.kwargs if k.key == a.name), None)
            c = chain(arg, env) if arg is not None else None
            if c is not None:
                env2[a.name] = c
            elif a.name in env2:
                del env2[a.name]
        call._pdv_seen = True
        try:
            for b in m.body:
                paths(b, env2, out)
        finally:
            call._pdv_seen = False
    if isinstance(node, N.Assign) and isinstance(node.target, N.Name):
        paths(node.node, env, out)
        c = chain(node.node, env)
        if c is not None:
            env[node.target.name] = c          # {% set error_domain = error_domain_ref.type_def %}: later siblings read through the alias
        elif node.target.name in env:
            del env[node.target.name]
        return
    if isinstance(node, N.For):
        paths(node.iter, env, out)
        base = chain(node.iter, env)
        env2 = dict(env)
        if base is not None and isinstance(node.target, N.Name):
            env2[node.target.name] = base + ['[]']
        if node.test is not None:
            paths(node.test, env2, out)
        for b in node.body:
            paths(b, env2, out)
        return
    c = chain(node, env)
    if c is not None:
        out.add(tuple(c))
        return
    for n in node.iter_child_nodes():
        paths(n, env, out)


def const_call(n):
    return not n.dyn_args and not n.dyn_kwargs and all(isinstance(a, N.Const) for a in n.args) and all(isinstance(k.value, N.Const) for k in n.kwargs)


def const_repr(v):
    return repr(v) if not isinstance(v, str) else "'%s'" % v


def call_key(n):
    return '%s(%s)' % (n.node.attr, ','.join([const_repr(a.value) for a in n.args] + ['%s=%s' % (k.key, const_repr(k.value.value)) for k in n.kwargs]))


def get(obj, name):
    """attribute, or the result of a method call spelled name(args) with constant arguments"""
    if '(' in name:
        import ast as _ast
        fn, rest = name.split('(', 1)
        call = _ast.parse('f(%s' % rest, mode='eval').body
        args = [_ast.literal_eval(a) for a in call.args]
        kwargs = {k.arg: _ast.literal_eval(k.value) for k in call.keywords}
        return getattr(obj, fn)(*args, **kwargs)
    return getattr(obj, name)


def chain(node, env):
    if isinstance(node, N.Name):
        return list(env[node.name]) if node.name in env else None
    if isinstance(node, N.Getattr):
        b = chain(node.node, env)
        return None if b is None else b + [node.attr]
    if isinstance(node, N.Call) and isinstance(node.node, N.Getattr) and const_call(node):
        b = chain(node.node.node, env)
        return None if b is None else b + [call_key(node)]
    if isinstance(node, N.Getitem) and not (isinstance(node.arg, N.Const) and isinstance(node.arg.value, str)):
        b = chain(node.node, env)          # list[i]: dump the whole list, the interpreter indexes it
        return None if b is None else b + ['[]']
    return None


def value(obj, path):
    """follow path on real objects; '[]' maps over a list"""
    if not path:
        if isinstance(obj, bool) or obj is None:
            return obj
        if isinstance(obj, enum.Enum):
            return obj.value
        if isinstance(obj, int):
            return obj
        if isinstance(obj, (list, tuple, set, frozenset)):
            return [value(x, []) for x in (sorted(obj, key=str) if isinstance(obj, (set, frozenset)) else obj)]
        return str(obj)
    if path[0] == '[]':
        if obj is None:
            return None
        return [value(x, path[1:]) for x in obj]
    try:
        return value(get(obj, path[0]), path[1:])
    except AttributeError:
        return {'__undef__': True}


def merge(tree, path, obj_root):
    pass


def build(obj, plist):
    """nested dict/list with exactly the requested paths"""
    plist = [p for p in plist if p] or []
    if not plist:
        return value(obj, [])
    if obj is None:
        return None          # attributes of None are undefined in Jinja and None itself is false: keep it None
    if all(p[0] == '[]' for p in plist):
        if obj is None:
            return None          # e.g. method.throwing: the template guards the loop with `if method.throwing`
        return [build(x, [p[1:] for p in plist]) for x in obj]
    out = {}
    heads = {}
    for p in plist:
        heads.setdefault(p[0], []).append(p[1:])
    for h, rest in heads.items():
        try:
            sub = get(obj, h)
        except AttributeError:
            out[h] = {'__undef__': True}
            continue
        except Exception as e:  # noqa
            out[h] = {'__error__': type(e).__name__}
            continue
        out[h] = build(sub, rest)
    return out


def run_case(case, api_cache={}):
    from pydjinni import API
    from jinja2 import Template
    root = tempfile.mkdtemp(prefix='pdv-jf-')
    cwd = os.getcwd()
    try:
        for rel, text in case['files'].items():
            p = Path(root) / rel
            p.parent.mkdir(parents=True, exist_ok=True)
            p.write_text(text)
        os.chdir(root)
        api = API()
        ctx = api.configure(options=case['options'])
        g = ctx.parse(case['root'])
        gens = {gi.key: gi for t in api.generation_targets.values() for gi in t.generator_instances}
        out = []
        for fr in case['fragments']:
            gen = gens[fr['gen']]
            src = gen.template_preprocessing(fr['template'])
            ast = gen._jinja_env.parse(src)
            MACROS.clear()
            macro_nodes = []
            try:
                base_ast = gen._jinja_env.parse(gen.template_preprocessing('base.jinja2'))
                macro_nodes += [n for n in base_ast.body if isinstance(n, N.Macro)]
            except Exception:  # noqa
                pass
            macro_nodes += [n for n in ast.body if isinstance(n, N.Macro)]
            for n in macro_nodes:
                MACROS[n.name] = n
            if 'if_tag' in fr:
                f = find_ifs(ast, fr['if_tag'])[0]
            else:
                f = find_fors(ast, fr['attr'])[fr['index']] if 'index' in fr else find_for(ast, fr['attr'])
            res = []
            for d in g.defs:
                if type(d).__name__ != fr['decl_class']:
                    continue
                pre = []
                if fr.get('counter'):
                    pre = [N.Assign(N.Name('counter', 'store'), N.Call(N.Name('namespace', 'load'), [], [N.Keyword('value', N.Const(fr.get('counter_init', 0)))], None, None))]
                tmpl_ast = N.Template(pre + (macro_nodes if fr.get('macros') else []) + [f])
                tmpl_ast.set_environment(gen._jinja_env)
                for n_ in tmpl_ast.find_all(N.Node):
                    if getattr(n_, 'lineno', None) is None:
                        n_.lineno = 1
                code = gen._jinja_env.compile(tmpl_ast)
                t = Template.from_code(gen._jinja_env, code, gen._jinja_env.make_globals(None))
                entry = {'decl': str(d.name)}
                try:
                    entry['text'] = t.render(type_def=d, config=gen.config, is_header=True, metadata=gen.metadata)
                except Exception as e:  # noqa
                    entry['error'] = '%s: %s' % (type(e).__name__, str(e)[:200])
                ps = set()
                paths(f, {'type_def': ['type_def'], 'config': ['config']}, ps)
                plist = [list(p) for p in ps]
                env = {}
                roots = {'type_def': d, 'config': gen.config}
                for rname, robj in roots.items():
                    sub = [p[1:] for p in plist if p[0] == rname]
                    if sub:
                        env[rname] = build(robj, sub)
                entry['env'] = env
                res.append(entry)
            out.append({'fragment': fr, 'found': f is not None, 'renders': res,
                        'comment': {'start': gen.comment_start_string, 'end': gen.comment_end_string, 'prefix': gen.comment_line_prefix}})
        return {'outcome': 'ok', 'fragments': out}
    except BaseException as e:  # noqa
        if isinstance(e, (KeyboardInterrupt, SystemExit)):
            raise
        import traceback
        tb = traceback.format_exc()
        return {'outcome': 'error', 'msg': '%s: %s\n%s' % (type(e).__name__, str(e)[:300], tb[:1200])}
    finally:
        os.chdir(cwd)
        shutil.rmtree(root, ignore_errors=True)


CLASS_OF = {'enum': 'Enum', 'flags': 'Flags', 'record': 'Record', 'interface': 'Interface', 'function': 'Function', 'error_domain': 'ErrorDomain'}
ATTRS = {'Enum': ['items'], 'Flags': ['flags'], 'Record': ['fields'], 'Interface': ['methods', 'properties'], 'Function': ['parameters'],
         'ErrorDomain': ['error_codes']}
SUPPORTED_FILTERS = {'comment', 'indent', 'sort', 'any', 'all', 'map', 'concat', 'join', 'length', 'list', 'replace'}


def const_or_chain_args(n):
    return not n.dyn_args and not n.dyn_kwargs


def unsupported(f, known_macros=(), uses_macros=None):
    """constructs of a loop subtree that the TIR interpreter does not evaluate (exotic loop attributes, unknown filters, ...)"""
    why = set()
    uses_macros = uses_macros if uses_macros is not None else set()
    for n in f.find_all(N.Node):
        if isinstance(n, N.Call) and isinstance(n.node, N.Getattr) and const_call(n):
            continue
        if isinstance(n, N.Call) and isinstance(n.node, N.Name) and n.node.name in known_macros and const_or_chain_args(n):
            uses_macros.add(n.node.name)
            continue
        if isinstance(n, N.CallBlock):
            continue            # its call is judged as a Call node
        if isinstance(n, (N.Call, N.Macro, N.Include, N.Import, N.FromImport)):
            why.add(type(n).__name__)
        if isinstance(n, N.Filter) and n.name not in SUPPORTED_FILTERS:
            why.add('filter:' + n.name)
        if isinstance(n, N.Getattr) and isinstance(n.node, N.Name) and n.node.name == 'loop' and n.attr not in ('index', 'index0', 'first', 'last'):
            why.add('loop.' + n.attr)
        if isinstance(n, N.Test):
            why.add('test:' + n.name)
    return sorted(why)


def list_loops():
    from pydjinni import API
    api = API()
    out = []
    for t in api.generation_targets.values():
        for g in t.generator_instances:
            tdir = g._generator_directory / 'templates'
            if not tdir.exists():
                continue
            for p in sorted(tdir.rglob('*')):
                if not p.is_file():
                    continue
                rel = str(p.relative_to(tdir))
                stem = p.name.split('.')[0]
                cls = CLASS_OF.get(stem)
                if cls is None:
                    continue
                ast = g._jinja_env.parse(g.template_preprocessing(rel))
                known = {n.name for n in ast.body if isinstance(n, N.Macro)}
                try:
                    known |= {n.name for n in g._jinja_env.parse(g.template_preprocessing('base.jinja2')).body if isinstance(n, N.Macro)}
                except Exception:  # noqa
                    pass
                for attr in ATTRS[cls]:
                    for k, f in enumerate(find_fors(ast, attr)):
                        used = set()
                        out.append({'gen': g.key, 'template': rel, 'attr': attr, 'index': k, 'decl_class': cls,
                                    'unsupported': unsupported(f, known, used), 'macros': sorted(used)})
    return out


if __name__ == '__main__':
    payload = read_payload()
    if payload.get('list_loops'):
        emit({'loops': list_loops()})
        sys.exit(0)
    emit({'results': [run_case(c) for c in payload['cases']]})
