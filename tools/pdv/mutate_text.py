"""Token-level and character-level mutations of IDL text (for the malformed-input streams)."""
import re

TOKEN_RE = re.compile(r'#[^\n]*|"[^"\n]*"|->|[A-Za-z_.][A-Za-z0-9_.]*|[+-][a-z]+|\S')
POOL = ['{', '}', '(', ')', '<', '>', ';', ':', ',', '=', '?', '->', 'enum', 'flags', 'record', 'interface', 'function', 'error',
        'namespace', 'deriving', 'throws', 'static', 'const', 'async', 'main', 'property', '+cpp', '-java', '@import', '@extern',
        '"x.pydjinni"', 'foo', 'a.b', '.T', 'i32', 'list', 'map', '#c', '@', '$', '"', "'", '\\', '0', '9x', 'é']


def tokens(text):
    return TOKEN_RE.findall(text)


def untok(ts):
    out = []
    for t in ts:
        out.append(t)
        out.append('\n' if t.startswith('#') else ' ')
    return ''.join(out)


def mutate(r, text):
    ts = tokens(text)
    kind = r.choice(['delete', 'delete', 'dup', 'swap', 'truncate', 'insert', 'insert', 'replace', 'replace', 'noise', 'nest', 'multi'])
    if not ts:
        kind = 'noise'
    if kind == 'delete':
        i = r.randrange(len(ts)); del ts[i]
    elif kind == 'dup':
        i = r.randrange(len(ts)); ts.insert(i, ts[i])
    elif kind == 'swap' and len(ts) > 1:
        i = r.randrange(len(ts) - 1); ts[i], ts[i + 1] = ts[i + 1], ts[i]
    elif kind == 'truncate':
        ts = ts[:r.randrange(len(ts))]
    elif kind == 'insert':
        ts.insert(r.randrange(len(ts) + 1), r.choice(POOL))
    elif kind == 'replace':
        ts[r.randrange(len(ts))] = r.choice(POOL)
    elif kind == 'noise':
        n = r.randint(0, 40)
        return kind, ''.join(r.choice('abc{}();:=<>?,.#"+-@ \n\t\r\\$é0_') for _ in range(n))
    elif kind == 'nest':
        which = r.choice(['type', 'ns', 'fn'])
        d = r.randint(3, 14) if which == 'fn' else r.randint(5, 40)
        if which == 'type':
            ts += ['deep', '=', 'record', '{', 'f', ':'] + ['list', '<'] * d + ['i32'] + ['>'] * (d if r.random() < 0.7 else d - 1) + [';', '}']
        elif which == 'ns':
            ts += ['namespace', 'n', '{'] * d + ['e', '=', 'enum', '{', '}'] + ['}'] * (d if r.random() < 0.7 else d - 2)
        else:
            ts += ['deepf', '=', 'record', '{', 'f', ':'] + ['(', 'a', ':'] * d + ['i32'] + [')'] * d + [';', '}']
    elif kind == 'multi':
        for _ in range(r.randint(2, 5)):
            if ts:
                i = r.randrange(len(ts))
                x = r.random()
                if x < 0.4:
                    del ts[i]
                elif x < 0.7:
                    ts.insert(i, r.choice(POOL))
                else:
                    ts[i] = r.choice(POOL)
    return kind, untok(ts)
