"""Translator: /repo/src/pydjinni/parser/grammar/Idl.g4 -> coq/Gen/Grammar.v (lexer rules with fragments inlined, parser rules as EBNF
terms).  Fail closed: anything outside the subset of ANTLR notation that Idl.g4 uses raises.  usage: translate_grammar.py <GenDir>"""
import sys, os, re
sys.path.insert(0, os.path.join(os.path.dirname(__file__), '..'))
from pdv.emit import *

G4 = '/repo/src/pydjinni/parser/grammar/Idl.g4'
HEADER = '(* GENERATED from /repo/src/pydjinni/parser/grammar/Idl.g4 by tools/pdv/translate_grammar.py on every run - do not edit, not committed *)\n' \
         'From Coq Require Import List String Ascii Bool.\nFrom PDV Require Import Idl.GrammarDefs.\nImport ListNotations.\nOpen Scope string_scope.\n\n'


class Unsupported(Exception):
    pass


def tokenize(src):
    src = re.sub(r'//[^\n]*', '', src)
    src = re.sub(r'/\*.*?\*/', '', src, flags=re.S)
    toks, i, n = [], 0, len(src)
    while i < n:
        c = src[i]
        if c.isspace():
            i += 1
        elif c == "'":
            j = i + 1; s = ''
            while src[j] != "'":
                if src[j] == '\\':
                    s += {'n': '\n', 't': '\t', 'r': '\r', '\\': '\\', "'": "'", 'f': '\f', 'v': '\v'}.get(src[j + 1]) or _bad('escape ' + src[j:j + 2]); j += 2
                else:
                    s += src[j]; j += 1
            toks.append(('lit', s)); i = j + 1
        elif c == '[':
            j = i + 1; items = []
            while src[j] != ']':
                if src[j] == '\\':
                    ch = {'n': '\n', 't': '\t', 'r': '\r', '\\': '\\', ']': ']', '-': '-', 'f': '\f', 'v': '\v'}.get(src[j + 1]) or _bad('set escape ' + src[j:j + 2]); j += 2
                else:
                    ch = src[j]; j += 1
                if src[j] == '-' and src[j + 1] != ']':
                    hi = src[j + 1]; j += 2
                    items.append((ord(ch), ord(hi)))
                else:
                    items.append((ord(ch), ord(ch)))
            toks.append(('set', items)); i = j + 1
        elif c.isalpha() or c == '_':
            j = i
            while j < n and (src[j].isalnum() or src[j] == '_'):
                j += 1
            toks.append(('id', src[i:j])); i = j
        elif src.startswith('->', i):
            toks.append(('sym', '->')); i += 2
        elif src.startswith('*?', i) or src.startswith('+?', i) or src.startswith('??', i):
            toks.append(('sym', src[i:i + 2])); i += 2
        elif c in ':;|()*+?~.':
            toks.append(('sym', c)); i += 1
        else:
            _bad('character %r' % c)
    return toks


def _bad(what):
    raise Unsupported(what)


class P:
    def __init__(self, toks):
        self.t, self.i = toks, 0

    def peek(self):
        return self.t[self.i] if self.i < len(self.t) else ('eof', '')

    def eat(self, kind=None, val=None):
        k, v = self.peek()
        if (kind and k != kind) or (val is not None and v != val):
            _bad('expected %s %s, got %s %s' % (kind, val, k, v))
        self.i += 1
        return v

    def alt(self):
        alts = [self.seq()]
        while self.peek() == ('sym', '|'):
            self.eat(); alts.append(self.seq())
        return alts[0] if len(alts) == 1 else ('alt', alts)

    def seq(self):
        items = []
        while self.peek() not in (('sym', '|'), ('sym', ')'), ('sym', ';'), ('sym', '->'), ('eof', '')):
            items.append(self.postfix())
        if not items:
            _bad('empty alternative')
        return items[0] if len(items) == 1 else ('seq', items)

    def postfix(self):
        a = self.atom()
        while self.peek()[0] == 'sym' and self.peek()[1] in ('*', '+', '?', '*?', '+?', '??'):
            op = self.eat()
            a = {'*': ('star', a), '+': ('plus', a), '?': ('opt', a), '*?': ('lazystar', a)}.get(op) or _bad('operator ' + op)
        return a

    def atom(self):
        k, v = self.peek()
        if k == 'lit':
            self.eat(); return ('lit', v)
        if k == 'set':
            self.eat(); return ('set', False, v)
        if k == 'id':
            self.eat(); return ('ref', v)
        if (k, v) == ('sym', '('):
            self.eat(); a = self.alt(); self.eat('sym', ')'); return a
        if (k, v) == ('sym', '~'):
            self.eat(); k2, v2 = self.peek()
            if k2 != 'set':
                _bad('~ before a non-set')
            self.eat(); return ('set', True, v2)
        if (k, v) == ('sym', '.'):
            self.eat(); return ('any',)
        _bad('atom %s %s' % (k, v))


def parse_g4(src):
    toks = tokenize(src)
    p = P(toks)
    p.eat('id', 'grammar'); name = p.eat('id'); p.eat('sym', ';')
    rules = []
    while p.peek()[0] != 'eof':
        frag = False
        if p.peek() == ('id', 'fragment'):
            p.eat(); frag = True
        rn = p.eat('id'); p.eat('sym', ':')
        body = p.alt()
        skip = False
        if p.peek() == ('sym', '->'):
            p.eat(); cmd = p.eat('id')
            if cmd != 'skip':
                _bad('lexer command ' + cmd)
            skip = True
        p.eat('sym', ';')
        rules.append((rn, frag, skip, body))
    return name, rules


def lex_pat(e, lex_rules, depth=0):
    if depth > 20:
        _bad('recursive lexer rule')
    k = e[0]
    if k == 'lit':
        return 'LLit %s' % cstr(e[1])
    if k == 'set':
        return 'LSet %s %s' % (cbool(e[1]), clist(['(%d, %d)' % (lo, hi) for lo, hi in e[2]]))
    if k == 'any':
        return 'LAny'
    if k == 'ref':
        if e[1] not in lex_rules:
            _bad('lexer reference to ' + e[1])
        return '(%s)' % lex_pat(lex_rules[e[1]], lex_rules, depth + 1)
    if k == 'seq':
        return 'LSeq %s' % clist([lex_pat(x, lex_rules, depth) for x in e[1]])
    if k == 'alt':
        return 'LAlt %s' % clist([lex_pat(x, lex_rules, depth) for x in e[1]])
    if k in ('star', 'plus', 'opt'):
        return '%s (%s)' % ({'star': 'LStar', 'plus': 'LPlus', 'opt': 'LOpt'}[k], lex_pat(e[1], lex_rules, depth))
    if k == 'lazystar':
        return 'LStar (%s)' % lex_pat(e[1], lex_rules, depth)
    _bad('lexer construct ' + k)


def has_lazy(e):
    return e[0] == 'lazystar' or any(has_lazy(x) for x in (e[1] if e[0] in ('seq', 'alt') else [e[1]] if e[0] in ('star', 'plus', 'opt') else []))


def gexp(e, lex_names, rule_names):
    k = e[0]
    if k == 'ref':
        if e[1] == 'EOF':
            return 'GTok "EOF"'
        if e[1] in lex_names:
            return 'GTok %s' % cstr(e[1])
        if e[1] in rule_names:
            return 'GRule %s' % cstr(e[1])
        _bad('reference to ' + e[1])
    if k == 'seq':
        return 'GSeq %s' % clist([gexp(x, lex_names, rule_names) for x in e[1]])
    if k == 'alt':
        return 'GAlt %s' % clist([gexp(x, lex_names, rule_names) for x in e[1]])
    if k in ('star', 'plus', 'opt'):
        return '%s (%s)' % ({'star': 'GStar', 'plus': 'GPlus', 'opt': 'GOpt'}[k], gexp(e[1], lex_names, rule_names))
    _bad('parser construct ' + k)


def main(gen_dir):
    name, rules = parse_g4(open(G4).read())
    lex = [(n, f, s, b) for n, f, s, b in rules if n[0].isupper()]
    par = [(n, b) for n, f, s, b in rules if not n[0].isupper()]
    lex_rules = {n: b for n, f, s, b in lex}
    lex_names = [n for n, f, s, b in lex if not f]
    rule_names = [n for n, b in par]
    lrows = ['(%s, (%s, %s, %s))' % (cstr(n), cbool(s), cbool(has_lazy(b)), lex_pat(b, lex_rules)) for n, f, s, b in lex if not f]
    prows = ['(%s, %s)' % (cstr(n), gexp(b, set(lex_names), set(rule_names))) for n, b in par]
    text = HEADER + 'Definition grammar_name : string := %s.\n\n' % cstr(name) + \
        '(* token rules in grammar order: name, (skip, non-greedy, pattern) *)\nDefinition lexer_rules : list (string * (bool * bool * lpat)) :=\n  %s.\n\n' % clist(lrows) + \
        'Definition parser_rules : list (string * gexp) :=\n  %s.\n\n' % clist(prows) + \
        'Definition start_rule : string := %s.\n' % cstr(par[0][0])
    path = os.path.join(gen_dir, 'Grammar.v')
    if not (os.path.exists(path) and open(path).read() == text):
        open(path, 'w').write(text)


if __name__ == '__main__':
    try:
        main(sys.argv[1])
    except Exception as e:  # noqa  (fail closed: no stale grammar survives a translation failure)
        path = os.path.join(sys.argv[1], 'Grammar.v')
        if os.path.exists(path):
            os.remove(path)
        print('translate_grammar failed: %s: %s' % (type(e).__name__, e))
        sys.exit(1)
