"""Printers from Python values to Coq (Gallina) literals.  Used by translators and cases files."""

def cstr(s: str) -> str:
    """Coq string literal for an arbitrary Python str (ASCII bytes 0..255; others are UTF-8 encoded)."""
    b = s.encode('utf-8')
    parts = []
    run = []
    def flush():
        if run:
            parts.append('"' + ''.join(run) + '"')
            run.clear()
    for c in b:
        if c == 0x22:
            run.append('""')
        elif 0x20 <= c < 0x7f:
            run.append(chr(c))
        else:
            flush()
            parts.append('(String "%03d"%%char "")' % c)
    flush()
    if not parts:
        return '""'
    if len(parts) == 1:
        return parts[0]
    return '(' + ' ++ '.join(parts) + ')%string'

def clist(items, elem=None) -> str:
    items = list(items)
    if elem is not None:
        items = [elem(x) for x in items]
    return '[' + '; '.join(items) + ']'

def cstrs(items) -> str:
    return clist(items, cstr)

def cbool(b) -> str:
    return 'true' if b else 'false'

def cnat(n: int) -> str:
    assert 0 <= n < 5000, n
    return '%d%%nat' % n

def cZ(n: int) -> str:
    return '(%d)%%Z' % n

def copt(x, elem) -> str:
    return 'None' if x is None else '(Some %s)' % elem(x)

def cpair(a, b) -> str:
    return '(%s, %s)' % (a, b)
