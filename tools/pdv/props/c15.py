"""C15 - No generated file is silently overwritten by another declaration."""
import json, random
from .. import gen_idl, coqtool
from ..common import run_impl
from ..emit import *
from .c17 import FULL

TRUSTED = ['pathlib; the write log is taken by wrapping FileReaderWriter._write in the driver process']
ASSUMPTIONS = ['model = Marshal/Files.v + Marshal/Ident.v (file names per generator from namespace, name and configured identifier styles); '
               'tied by comparing the header/source attributes of the real marshalling objects with the model',
               'known findings C15-K1..K3: namespace ignored in jni/objcpp/yaml file names; objc glues namespace and name; style conversion is not injective']

STYLES = {'none': 'SNone', 'camelCase': 'SCamel', 'PascalCase': 'SPascal', 'snake_case': 'SSnake', 'kebab-case': 'SKebab', 'TRAIN_CASE': 'STrain'}


def cstyle(v):
    if isinstance(v, dict):
        return '(%s, %s)' % (STYLES[v['style']], copt(v.get('prefix'), cstr))
    return '(%s, None)' % STYLES[v]

PRE = '''From Coq Require Import List String Ascii Bool Arith.
From PDV Require Import Lib.StrUtil Marshal.Ident Marshal.Files.
Import ListNotations. Open Scope string_scope. Open Scope list_scope.
Fixpoint bad_idx (i : nat) (cs : list (string * string)) : list nat :=
  match cs with [] => [] | c :: t => if String.eqb (fst c) (snd c) then bad_idx (S i) t else i :: bad_idx (S i) t end.
'''


def collide_program(r):
    """same simple name in different namespaces, names equal after style conversion, equal inline functions in two namespaces"""
    base = r.choice(['foo', 'item_kind', 'Node', 'my_t'])
    variants = [base]
    x = r.random()
    if x < 0.3:
        variants.append(base)                      # same name, other namespace
    elif x < 0.55:
        variants.append(base.upper() if r.random() < 0.5 else base.capitalize())     # differs only in case
    elif x < 0.7:
        variants.append(base.replace('_', '') if '_' in base else base + '_')
    kinds = ['enum', 'record', 'record', 'flags', 'interface', 'error']
    one_kind = r.choice(kinds) if r.random() < 0.5 else None
    def mk(name, tag):
        k = one_kind or r.choice(kinds)
        if k == 'enum':
            return {'k': 'enum', 'name': name, 'comment': None, 'items': [{'name': 'v_' + tag, 'comment': None}]}
        if k == 'flags':
            return {'k': 'flags', 'name': name, 'comment': None, 'flags': [{'name': 'f_' + tag, 'comment': None, 'mod': None}]}
        if k == 'record':
            return {'k': 'record', 'name': name, 'comment': None, 'targets': r.choice([[], [], ['+cpp'], ['+cpp', '+java']]), 'deriving': None,
                    'fields': [{'name': 'x_' + tag, 'comment': None, 'type': {'k': 'data', 'name': 'i32', 'params': [], 'opt': False}}]}
        if k == 'error':
            return {'k': 'error', 'name': name, 'comment': None, 'codes': [{'name': 'c_' + tag, 'comment': None, 'params': None}]}
        return {'k': 'interface', 'name': name, 'comment': None, 'main': False, 'targets': ['+cpp'],
                'members': [{'k': 'method', 'name': 'm_' + tag, 'comment': None, 'static': False, 'const': False, 'async': False, 'params': [], 'throws': None, 'ret': None}]}
    nss = r.sample(['a', 'b', 'a.b', 'a_b', 'c.d'], len(variants))
    if len(variants) == 2 and variants[0] == variants[1] and r.random() < 0.35:
        nss = [nss[0], nss[0]]          # the SAME qualified name twice (kinds may differ): refused with a diagnostic, never two writes to one path
        one_kind = None
    items = []
    both_base = r.random() < 0.4
    for i, (v, ns) in enumerate(zip(variants, nss)):
        d = mk(v, str(i))
        if d['k'] == 'record' and both_base:
            d['targets'] = ['+cpp']
        if r.random() < 0.25 and i == 0:
            items.append(d)        # root namespace
        else:
            items.append({'k': 'namespace', 'name': ns, 'comment': None, 'items': [d]})
    if r.random() < 0.3:
        fnt = {'k': 'fn', 'targets': None, 'params': [{'name': 'v', 'type': {'k': 'data', 'name': 'i32', 'params': [], 'opt': False}}], 'throws': None,
               'ret': {'k': 'data', 'name': 'bool', 'params': [], 'opt': False}}
        import copy
        for i, ns in enumerate(['fx', 'fy']):
            f2 = copy.deepcopy(fnt)
            if i == 1 and r.random() < 0.5:
                f2['throws'] = []
            items.append({'k': 'namespace', 'name': ns, 'comment': None, 'items': [
                {'k': 'interface', 'name': 'user%d' % i, 'comment': None, 'main': False, 'targets': ['+cpp'],
                 'members': [{'k': 'method', 'name': 'run', 'comment': None, 'static': False, 'const': False, 'async': False,
                              'params': [{'name': 'cb', 'type': f2}], 'throws': None, 'ret': None}]}]})
    if r.random() < 0.3:
        # two DIFFERENT inline function types inside one namespace (bare `throws` vs none; optional vs not): distinct files expected
        import copy
        f_a = {'k': 'fn', 'targets': None, 'params': [{'name': 'v', 'type': {'k': 'data', 'name': 'i32', 'params': [], 'opt': False}}], 'throws': None,
               'ret': {'k': 'data', 'name': 'bool', 'params': [], 'opt': False}}
        f_b = copy.deepcopy(f_a); f_b['throws'] = []
        items.append({'k': 'namespace', 'name': 'same', 'comment': None, 'items': [
            {'k': 'interface', 'name': 'two_cbs', 'comment': None, 'main': False, 'targets': ['+cpp'],
             'members': [{'k': 'method', 'name': 'run_a', 'comment': None, 'static': False, 'const': False, 'async': False,
                          'params': [{'name': 'cb', 'type': f_a}], 'throws': None, 'ret': None},
                         {'k': 'method', 'name': 'run_b', 'comment': None, 'static': False, 'const': False, 'async': False,
                          'params': [{'name': 'cb', 'type': f_b}], 'throws': None, 'ret': None}]}]})
    if r.random() < 0.35:
        # inline function types with ONE signature but different explicit target lists, in one namespace: distinct declarations
        # (the generated Java / JNI / ObjC glue differs with the targets) that must not share a file
        import copy
        base = {'k': 'fn', 'targets': None, 'params': [{'name': 'value', 'type': {'k': 'data', 'name': 'i32', 'params': [], 'opt': False}}], 'throws': None,
                'ret': {'k': 'data', 'name': 'bool', 'params': [], 'opt': False}}
        tl = r.sample([['+java'], ['+cpp'], ['+objc'], ['+cpp', '+java'], ['+cppcli'], None], r.randint(2, 3))
        ms = []
        for k_, t_ in enumerate(tl):
            f_ = copy.deepcopy(base); f_['targets'] = t_
            ms.append({'k': 'method', 'name': 'use_%d' % k_, 'comment': None, 'static': False, 'const': False, 'async': False,
                       'params': [{'name': 'cb', 'type': f_}], 'throws': None, 'ret': None})
        items.append({'k': 'namespace', 'name': 'fnt', 'comment': None, 'items': [
            {'k': 'interface', 'name': 'target_cbs', 'comment': None, 'main': False, 'targets': ['+cpp'], 'members': ms}]})
    return {'files': {'main.pydjinni': {'loads': [], 'items': items}}, 'root': 'main.pydjinni'}


def options(r):
    gen = {g: dict(v) for g, v in FULL.items()}
    if r.random() < 0.4:
        gen['cpp']['identifier'] = {'file': r.choice(list(STYLES))}
    if r.random() < 0.3:
        gen['jni']['identifier'] = {'file': r.choice(list(STYLES))}
    if r.random() < 0.3:
        gen['java']['identifier'] = {'type': r.choice(['PascalCase', 'none', 'camelCase']), 'package': r.choice(['snake_case', 'none'])}
    if r.random() < 0.3:
        gen['objc']['type_prefix'] = r.choice(['', 'PD'])
    # free-text options away from their defaults (prefixes, extensions): none of them may make two declarations share a file
    if r.random() < 0.4:
        gen['java']['function_prefix'] = r.choice(['Fn', 'Callback', 'F'])
    if r.random() < 0.25:
        gen['cpp']['include_prefix'] = 'libinc'; gen['jni']['include_prefix'] = 'jnipfx'; gen['jni']['include_cpp_prefix'] = 'cpppfx'
    if r.random() < 0.25:
        gen['cpp']['header_extension'] = r.choice(['hxx', 'h']); gen['jni']['header_extension'] = 'hh'
    gen['support_lib_sources'] = False
    return {'generate': gen}


def classify(d1, d2, gen):
    same_name = d1['name'] == d2['name']
    if same_name and d1['ns'] == d2['ns']:
        return 'same-qualified-name'      # two declarations with ONE qualified name must be refused by the front end, whatever their kinds
    if same_name and d1['ns'] != d2['ns']:
        return 'objc-namespace-name-glued' if gen == 'objc' else 'namespace-not-in-filename'
    if d1['name'].lower().replace('_', '') == d2['name'].lower().replace('_', ''):
        return 'style-conversion-not-injective'
    if gen == 'objc':
        return 'objc-namespace-name-glued'
    return 'other'


def run(ctx):
    r = random.Random(ctx.rng.random())
    n = ctx.n(60, 500)
    progs, cases = [], []
    for i in range(n):
        if i % 3 == 0:
            g = gen_idl.Gen(r, max_decls=r.choice([4, 8]), p_comment=0.0, multi_file=0.0, shadowing=0.9, acyclic=True)
            p = g.program()
        else:
            p = collide_program(r)
        opts = options(r)
        files = gen_idl.print_program(p, None, 'canon')
        progs.append(p)
        cases.append({'files': files, 'root': p['root'], 'options': opts, 'want': {'decl': ['header', 'source'], 'members': False}})
    ok, res = run_impl('marshal_dump', {'cases': cases}, timeout=1800)
    if not ok:
        ctx.broken.append({'kind': 'harness', 'name': 'marshal_dump driver', 'detail': str(res)[-1500:]}); return
    gcases = [{'files': c['files'], 'options': c['options'], 'ops': [['parse', c['root']]] + [['generate', t] for t in ['cpp', 'java', 'objc', 'cppcli', 'yaml']],
               'timeout_s': 60} for c in cases]
    ok2, res2 = run_impl('gen_run', {'cases': gcases}, timeout=3000)
    if not ok2:
        ctx.broken.append({'kind': 'harness', 'name': 'gen_run driver', 'detail': str(res2)[-1500:]}); return
    pairs, meta = [], []
    dist = {'programs': n, 'decls': 0, 'collisions_by_generator': {}, 'paths_compared': 0, 'rejected': 0}
    for c, o, go in zip(cases, res['results'], res2['results']):
        if o['outcome'] != 'ok':
            dist['rejected'] += 1
            continue
        cfg = o['config']
        for d in o['decls']:
            if d['anonymous']:
                continue
            base_lang = {'cpp': 'cpp' in d['targets'], 'objc': 'objc' in d['targets'], 'java': 'java' in d['targets'], 'cppcli': 'cppcli' in d['targets']}
            dist['decls'] += 1
            ns, nm = cstrs(d['ns']), cstr(d['name'])
            exp = {}
            if d['k'] == 'Record' and base_lang['cpp']:
                # records extended in C++ are generated as <name>_base, still below the namespace directories
                nb = cstr(d['name'] + '_base')
                exp[('cpp', 'header')] = 'ns_file %s %s %s %s' % (cstyle(cfg['cpp']['identifier']['file']), cstr(cfg['cpp']['header_extension']), ns, nb)
                exp[('cpp', 'source')] = 'ns_file %s %s %s %s' % (cstyle(cfg['cpp']['identifier']['file']), cstr(cfg['cpp']['source_extension']), ns, nb)
            else:
                exp[('cpp', 'header')] = 'ns_file %s %s %s %s' % (cstyle(cfg['cpp']['identifier']['file']), cstr(cfg['cpp']['header_extension']), ns, nm)
                exp[('cpp', 'source')] = 'ns_file %s %s %s %s' % (cstyle(cfg['cpp']['identifier']['file']), cstr(cfg['cpp']['source_extension']), ns, nm)
            exp[('jni', 'header')] = 'flat_file %s %s %s %s' % (cstyle(cfg['jni']['identifier']['file']), cstr(cfg['jni']['header_extension']), ns, nm)
            exp[('jni', 'source')] = 'flat_file %s %s %s %s' % (cstyle(cfg['jni']['identifier']['file']), cstr(cfg['jni']['source_extension']), ns, nm)
            if not (d['k'] == 'Record' and base_lang['java']):
                pkg = cfg['java']['package']
                pkg = pkg.split('.') if isinstance(pkg, str) else pkg
                exp[('java', 'source')] = 'java_file %s %s %s %s %s' % (cstrs(pkg), cstyle(cfg['java']['identifier']['package']), cstyle(cfg['java']['identifier']['type']), ns, nm)
            if not (d['k'] == 'Record' and base_lang['objc']):
                exp[('objc', 'header')] = 'objc_file %s %s %s %s %s' % (cstr(cfg['objc']['type_prefix']), cstyle(cfg['objc']['identifier']['type']), cstr(cfg['objc']['header_extension']), ns, nm)
            exp[('objcpp', 'header')] = 'objcpp_file %s %s %s' % (cstr(cfg['objcpp'].get('header_extension', 'h')), ns, nm)
            if not (d['k'] == 'Record' and base_lang['cppcli']):
                exp[('cppcli', 'header')] = 'ns_file %s "hpp" %s %s' % (cstyle(cfg['cppcli']['identifier']['file']), ns, nm)
            for (gn, a), e in exp.items():
                v = d['attrs'][gn][a]
                if 'v' in v:
                    pairs.append('(%s, %s)' % (e, cstr(v['v'])))
                    meta.append({'files': c['files'], 'decl': [d['ns'], d['name'], d['k']], 'generator': gn, 'attr': a, 'impl': v['v']})
        dist['paths_compared'] = len(pairs)
        # ---- oracle: one path, two contents
        if 'steps' not in go:
            continue
        if any(s['r'] == 'internal' for s in go['steps']):
            continue
        seen = {}
        for s in go['steps']:
            for kind, p, dg in s['writes']:
                if kind == 'write':
                    seen.setdefault(p, set()).add(dg)
        for p, dgs in seen.items():
            if len(dgs) > 1:
                gname = p.split('/')[1] if p.startswith('out/') else '?'
                # which declarations map to this path
                owners = [d for d in o['decls'] for gn in d['attrs'] for a in ('header', 'source')
                          if 'v' in d['attrs'][gn][a] and p.endswith('/' + d['attrs'][gn][a]['v']) and p.startswith('out/%s/' % gn)]
                owners = [d for i, d in enumerate(owners) if all(d is not e for e in owners[:i])]
                cause = 'other'
                if gname == 'yaml':
                    cause = 'namespace-not-in-filename'
                    named = [d for d in o['decls'] if not d['anonymous'] and p.endswith('/%s.yaml' % d['name'])]
                    if len({(tuple(d['ns']), d['name']) for d in named}) < 2:
                        cause = 'other'
                elif len(owners) >= 2:
                    anon = all(d['anonymous'] for d in owners)
                    if anon:
                        cause = 'inline-function-name-ignores-namespace' if owners[0]['ns'] != owners[1]['ns'] else 'other'
                    else:
                        cause = classify(owners[0], owners[1], gname)
                dist['collisions_by_generator'][gname] = dist['collisions_by_generator'].get(gname, 0) + 1
                ctx.add_violation({'kind': 'path-collision', 'generator': gname, 'cause': cause},
                                  'generator %s writes %s %d times with different contents (%s)' % (gname, p, len(dgs), cause),
                                  {'files': c['files'], 'options': c['options'], 'path': p,
                                   'declarations': [[d['ns'], d['name'], d['k']] for d in owners]})
    mism = []
    for s in range(0, len(pairs), 600):
        body = PRE + 'Definition cases := %s.\nEval vm_compute in (bad_idx 0 cases).\n' % clist(pairs[s:s + 600])
        rc, out, err = coqtool.run_cases('c15', body)
        bad = coqtool.parse_nat_list(out) if rc == 0 else None
        if bad is None:
            ctx.broken.append({'kind': 'correspondence', 'name': 'K-files (coqc failed)', 'detail': (err + out)[-1500:]}); return
        mism += [meta[s + i] for i in bad]
    ctx.add_corr('K-files', len(pairs), len({json.dumps(m['decl']) + m['generator'] for m in meta}), mism, meta[:1], dist,
                 'header/source attribute of every named declaration in cpp, jni, java, objc, objcpp, cppcli under random file/type/package '
                 'styles and prefixes vs the model; programs stress same names in different namespaces, names equal after conversion and '
                 'equal inline functions; the write log of a full generation is searched for paths written with two contents')
