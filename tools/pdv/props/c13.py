"""C13 - Exported type YAML re-imports to the same types (extern round trip)."""
import copy, difflib, json, random, subprocess
from .. import coqtool
from ..common import run_impl, VERIF
from ..emit import *
from .c17 import FULL

TRUSTED = ['PyYAML dump/safe_load and pydantic validation are identities on the exported tree (the model starts at the tree)',
           'the metamorphic comparison runs the real pipeline twice (types declared locally vs pulled in with @extern)',
           'jsonschema (tooling venv) for validation against API().external_type_model.model_json_schema()']
ASSUMPTIONS = ['model = Marshal/Yaml.v (export/import of the external-type record); attribute inventories Gen/TypeDefReads.v (AST scan of '
               'generator/**/*.py) and the translated templates are regenerated from /repo on every run',
               'known finding C13-K1: what a dependant needs from an error domain named after `throws` (error codes, jni/objcpp namespace and name, '
               'objc domain name) is not part of the exported model; C13-K2: a record extended in a target exports the header of its base class']

TARGETS = ['cpp', 'java', 'objc', 'cppcli']
LIB = '''namespace lib {
kind = enum { a_b; c; }
# @deprecated use kind
old_kind = enum { z; }
opts = flags { x_1; y; }
# a point
point = record { x: i32; y_z: f64?; } deriving (eq)
cb = function (code: i32, msg: string?) -> bool;
oops = error { bad_thing(code: i16 why: string?); other; }
peer = interface +cpp +java +objc +cppcli { ping(); }
namespace deep { leaf = record { k: lib.kind; } }
}
top_rec = record { v: i8; }
ext_rec = record +cpp { v: i8; }
namespace audio { format = enum { pcm; } }
namespace video { format = enum { h264; } }
namespace toggle { on = enum { a; } null = record { v: i8; } yes = flags { f; } }
'''
FEATURES = {
    'enum-field': 'u = record { k: lib.kind; ok: lib.kind?; }',
    'deprecated-type': 'u = record { k: lib.old_kind; }',
    'flags-field': 'u = record { o: lib.opts; oo: lib.opts?; }',
    'record-field': 'u = record { p: lib.point; t: top_rec; d: lib.deep.leaf; } deriving (eq)',
    'containers': 'u = record { ps: list<lib.point>; m: map<string, lib.kind>; s: set<lib.kind>; o: list<lib.point?>?; }',
    'function-field': 'u = record { f: lib.cb; }',
    'interface-params': 'svc = interface +cpp +java +objc +cppcli { get(p: lib.point, k: lib.kind?) -> lib.peer; put(x: lib.peer?, c: lib.cb); }',
    'interface-results': 'svc = interface +cpp +java +objc +cppcli { a() -> lib.point?; b() -> list<lib.opts>; const c() -> lib.kind; }',
    'async': 'svc = interface +cpp +java +objc +cppcli { async later(x: top_rec) -> lib.point?; async other(k: lib.kind); }',
    'throws-extern-domain': 'svc = interface +cpp +java +objc +cppcli { run(c: i32) throws lib.oops -> i32; async go() throws lib.oops; }',
    'function-uses': 'fn = function (p: lib.point, k: lib.kind) -> lib.opts;',
    'error-params': 'mine = error { failed(p: lib.point k: lib.kind?); }',
    'record-extended-in-cpp': 'u = record { e: ext_rec; es: list<ext_rec>; }',
    'same-name-two-namespaces': 'u = record { a: audio.format; v: video.format; }',
    'yaml-keyword-names': 'u = record { t: toggle.on; n: toggle.null?; y: toggle.yes; }',
    'inline-function': 'svc = interface +cpp +java +objc +cppcli { on(cb: (p: lib.point) -> lib.kind); }',
}


def base_opts(mode, style):
    g = dict(copy.deepcopy(FULL), support_lib_sources=False)
    g['yaml'] = {'out': 'out/yaml'}
    if mode == 'single':
        g['yaml']['out_file'] = 'e.yaml'
    if style == 1:
        g['cpp']['namespace'] = 'my::ns'
        g['java']['package'] = 'org.other.pkg'
        g['objc']['type_prefix'] = 'PD'
        g['cpp']['identifier'] = {'type': 'snake_case'}
    if style == 2:
        # every free-text option of every generator away from its default (include prefixes, extensions, prefixes, namespaces)
        g['cpp'].update(namespace='lib::core', include_prefix='libinc', header_extension='hxx', source_extension='cxx',
                        identifier={'type': {'style': 'PascalCase', 'prefix': 'T'}, 'file': 'snake_case', 'method': 'camelCase'})
        g['java'].update(package='org.rich.pkg', function_prefix='Fn', identifier={'method': 'snake_case'})
        g['jni'].update(namespace='rich::jni', include_prefix='jnipfx', include_cpp_prefix='cpppfx', header_extension='hh')
        g['objc'].update(type_prefix='RX', header_extension='hh', strict_protocols=True)
        g['objcpp'].update(namespace='rich::objcpp', header_extension='hh')
        g['cppcli'].update(namespace='Rich::Cli', include_cpp_prefix='cpppfx', nullability_attributes=False)
    return {'generate': g}


def ctree(v):
    if isinstance(v, bool):
        return 'SBool %s' % cbool(v)
    return 'SStr %s' % cstr(str(v))


def run(ctx):
    r = random.Random(ctx.rng.random())
    combos = [(f, mode, style) for f in FEATURES for mode in ('single', 'per-type') for style in (0, 1, 2)]
    if not ctx.thorough:
        combos = [c for c in combos if c[2] == 0 or c[0] in ('record-field', 'interface-params', 'throws-extern-domain') or (c[2] == 2 and c[1] == 'single' and c[0] in ('interface-results', 'function-uses', 'flags-field'))]
    # exporter runs (one per mode/style)
    exp_cases, keys = [], []
    for mode in ('single', 'per-type'):
        for style in (0, 1, 2):
            exp_cases.append({'files': {'e.pydjinni': LIB}, 'options': base_opts(mode, style), 'ops': [['parse', 'e.pydjinni'], ['generate', 'yaml']],
                              'keep_content': True, 'timeout_s': 60})
            keys.append((mode, style))
    ok, res = run_impl('gen_run', {'cases': exp_cases}, timeout=600)
    if not ok:
        ctx.broken.append({'kind': 'harness', 'name': 'gen_run driver (export)', 'detail': str(res)[-1500:]}); return
    exported = {}
    for k, o in zip(keys, res['results']):
        if any(s['r'] != 'ok' for s in o.get('steps', [{'r': 'x'}])):
            ctx.add_violation({'kind': 'export-fails'}, 'yaml generation of the library failed: %s' % json.dumps(o.get('steps'))[:300], {'lib': LIB, 'mode': k}); continue
        exported[k] = {p: t for p, t in o['tree'].items() if p.startswith('out/yaml/')}
    # ---- K-yaml: exported documents vs the model's export of the live attributes, and schema validation
    import yaml as _yaml
    okd, resd = run_impl('marshal_dump', {'cases': [{'files': {'e.pydjinni': LIB}, 'root': 'e.pydjinni', 'options': base_opts('single', s_), 'ext_fields': True,
                                                     'want': {'decl': ['typename', 'header', 'by_value', 'boxed', 'reference', 'generic', 'translator', 'type_signature',
                                                                       'boxed_type_signature', 'pointer'], 'members': False}} for s_ in (0, 1)]}, timeout=600)
    oks, ress = run_impl('yaml_schema', {}, timeout=120)
    if not okd or not oks:
        ctx.broken.append({'kind': 'harness', 'name': 'marshal_dump / yaml_schema driver', 'detail': (str(resd) + str(ress))[-1200:]}); return
    rows, meta, docs_all = [], [], []
    for style in (0, 1):
        md = resd['results'][style]
        if md['outcome'] != 'ok':
            ctx.broken.append({'kind': 'harness', 'name': 'marshal_dump case', 'detail': json.dumps(md)[:500]}); continue
        extf = md['ext_fields']
        docs = [d for d in _yaml.safe_load_all(exported.get(('single', style), {}).get('out/yaml/e.yaml', '')) if d is not None]
        per = {}
        for p, t in exported.get(('per-type', style), {}).items():
            for d in _yaml.safe_load_all(t):
                if d is not None:
                    per[(tuple(d.get('namespace', [])), d.get('name'))] = d
        by = {(tuple(d.get('namespace', [])), d.get('name')): d for d in docs}
        docs_all += docs
        live = {(tuple(d['ns']), d['name']): d for d in md['decls'] if not d['anonymous']}
        if set(by) != set(live):
            ctx.add_violation({'kind': 'exported-type-set'}, 'exported %s, declared %s' % (sorted(by), sorted(live)), {'lib': LIB, 'style': style})
        for key, d in live.items():
            doc = by.get(key)
            if doc is None:
                continue
            if per.get(key) != doc and ('per-type', style) in exported:
                dup = sum(1 for k2 in live if k2[1] == key[1]) > 1
                ctx.add_violation({'kind': 'export-modes-differ', 'cause': 'same-simple-name' if dup else 'other'},
                                  'per-type file and single file differ for %s' % (key,), {'single': doc, 'per_type': per.get(key)})
            targets = []
            for g in ('cpp', 'cppcli', 'java', 'jni', 'objc', 'objcpp'):
                comp = d['computed'].get(g, {})
                attrs = [(a, x['v']) for a, x in comp.items() if isinstance(x, dict) and x.get('v') is not None]
                missing = [a for a in extf.get(g, []) if a not in comp]
                if missing and False:
                    pass
                targets.append('(%s, %s)' % (cstr(g), clist(['(%s, %s)' % (cstr(a), ctree(v_)) for a, v_ in sorted(attrs)])))
            e = 'mkext %s %s %s %s (%s) %s %s' % (cstr(d['name']), cstrs(d['ns']), cstr({'Enum': 'enum', 'Flags': 'flags', 'Record': 'record', 'Interface': 'interface',
                                                                                         'Function': 'function', 'ErrorDomain': 'error'}[d['k']]), cstrs([]),
                                                  ctree(d['deprecated']), copt(d['comment'], cstr), clist(targets))
            ydoc = []
            for k_ in sorted(doc):
                v_ = doc[k_]
                if isinstance(v_, dict):
                    ydoc.append('(%s, YMap %s)' % (cstr(k_), clist(['(%s, %s)' % (cstr(a), ctree(x)) for a, x in sorted(v_.items())])))
                elif isinstance(v_, list):
                    ydoc.append('(%s, YList %s)' % (cstr(k_), cstrs([str(x) for x in v_])))
                else:
                    ydoc.append('(%s, YScalar (%s))' % (cstr(k_), ctree(v_)))
            rows.append('(%s, %s)' % (e, clist(ydoc)))
            meta.append({'decl': key, 'style': style, 'exported': doc})
    body = ('From Coq Require Import List String Ascii Bool.\nFrom PDV Require Import Lib.StrUtil Marshal.Yaml.\nImport ListNotations. Open Scope string_scope. Open Scope list_scope.\n'
            'Definition sc_eqb (a b : scalar) : bool := match a, b with SStr x, SStr y => String.eqb x y | SBool x, SBool y => Bool.eqb x y | _, _ => false end.\n'
            'Definition kv_eqb (a b : list (string * scalar)) : bool := Nat.eqb (List.length a) (List.length b) && forallb (fun p => existsb (fun q => String.eqb (fst p) (fst q) && sc_eqb (snd p) (snd q)) b) a.\n'
            'Fixpoint strs_eqb (a b : list string) : bool := match a, b with [] , [] => true | x :: r, y :: s => String.eqb x y && strs_eqb r s | _, _ => false end.\n'
            'Definition node_eqb (a b : ynode) : bool := match a, b with YScalar x, YScalar y => sc_eqb x y | YList x, YList y => strs_eqb x y | YMap x, YMap y => kv_eqb x y | _, _ => false end.\n'
            'Definition doc_eqb (a b : ydoc) : bool := Nat.eqb (List.length a) (List.length b) && forallb (fun p => existsb (fun q => String.eqb (fst p) (fst q) && node_eqb (snd p) (snd q)) b) a.\n'
            'Definition ok (c : ext * ydoc) : bool := doc_eqb (export (fst c)) (snd c) && wf (fst c) && match import (snd c) with Some e => doc_eqb (export e) (snd c) | None => false end.\n'
            'Fixpoint bad_idx (i : nat) (cs : list (ext * ydoc)) : list nat := match cs with [] => [] | c :: t => if ok c then bad_idx (S i) t else i :: bad_idx (S i) t end.\n'
            'Definition cases := %s.\nEval vm_compute in (bad_idx 0 cases).\n' % clist(rows))
    rc, out, err = coqtool.run_cases('kyaml_c13', body)
    bad = coqtool.parse_nat_list(out) if rc == 0 else None
    if bad is None:
        ctx.broken.append({'kind': 'correspondence', 'name': 'K-yaml (coqc failed)', 'detail': (err + out)[-1500:]})
    else:
        for i in bad[:3]:
            ctx.log.append('K-yaml mismatch: %s | model input: %s' % (json.dumps(meta[i])[:700], rows[i][:900]))
        ctx.add_corr('K-yaml', len(rows), len(rows), [meta[i] for i in bad], meta[:1], {'declarations': len(rows), 'naming_configurations': 2},
                     'the document exported for every declaration of the library (both naming configurations) vs Marshal/Yaml.export applied to the '
                     'name/namespace/kind/deprecation/comment and the per-generator external-model fields read off the live marshalling objects; '
                     'import of the document must export the same document again')
    p = subprocess.run(['python3-vt', str(VERIF / 'tools/pdv/schema_check.py')], input=json.dumps({'schema': ress['schema'], 'docs': docs_all}),
                       capture_output=True, text=True, timeout=300)
    try:
        verrs = json.loads(p.stdout)
        for d, e in zip(docs_all, verrs):
            if e:
                ctx.add_violation({'kind': 'schema-violation'}, 'exported document of %s violates the published schema: %s' % (d.get('name'), e[0]), {'doc': d, 'errors': e})
        ctx.extra_cov['schema_validated_documents'] = len(docs_all)
    except Exception:  # noqa
        ctx.broken.append({'kind': 'harness', 'name': 'schema validation', 'detail': (p.stderr or p.stdout)[-800:]})
    # ---- metamorphic: local declaration vs @extern
    cases, info = [], []
    for f, mode, style in combos:
        if (mode, style) not in exported:
            continue
        opts = base_opts(mode, style)
        dep = FEATURES[f] + '\n'
        local = {'files': {'l.pydjinni': LIB + dep}, 'options': opts, 'ops': [['parse', 'l.pydjinni']] + [['generate', t] for t in TARGETS],
                 'keep_content': True, 'timeout_s': 90}
        ytree = exported[(mode, style)]
        externs = ''.join('@extern "%s"\n' % p for p in sorted(ytree))
        # the dependant is parsed twice on one configured context (a build script with several IDL files, the language server): the second
        # parse must see the external types exactly like the first
        ext = {'files': dict({'d.pydjinni': externs + dep}, **ytree), 'options': opts, 'ops': [['parse', 'd.pydjinni'], ['parse', 'd.pydjinni']] + [['generate', t] for t in TARGETS],
               'keep_content': True, 'timeout_s': 90}
        cases += [local, ext]
        info.append((f, mode, style))
    ok, res = run_impl('gen_run', {'cases': cases}, timeout=3000)
    if not ok:
        ctx.broken.append({'kind': 'harness', 'name': 'gen_run driver (round trip)', 'detail': str(res)[-1500:]}); return
    compared = 0
    for i, (f, mode, style) in enumerate(info):
        lo, ex = res['results'][2 * i], res['results'][2 * i + 1]
        rep = {'feature': f, 'mode': mode, 'style': style, 'dependant': FEATURES[f], 'library': LIB}
        lbad = [s for s in lo.get('steps', [{'r': 'x'}]) if s['r'] != 'ok']
        xbad = [s for s in ex.get('steps', [{'r': 'x'}]) if s['r'] != 'ok']
        if lbad:
            ctx.broken.append({'kind': 'harness', 'name': 'C13 local run rejected', 'detail': json.dumps(lbad)[:600]}); continue
        if xbad:
            ctx.add_violation({'kind': 'extern-rejected', 'feature': f, 'mode': mode}, 'the dependant with @extern fails: %s' % json.dumps(xbad[0].get('items') or xbad[0].get('exc'))[:300],
                              dict(rep, steps=xbad)); continue
        for p, t in sorted(ex['tree'].items()):
            if not p.startswith('out/') or p.startswith('out/yaml/'):
                continue
            compared += 1
            lt = lo['tree'].get(p)
            if lt is None:
                ctx.add_violation({'kind': 'extern-writes-other-file', 'feature': f}, 'with @extern the dependant writes %s, not written locally' % p, dict(rep, path=p)); continue
            if lt != t:
                diff = list(difflib.unified_diff(lt.splitlines(), t.splitlines(), lineterm='', n=0))[:14]
                gen = p.split('/')[1]
                ctx.add_violation({'kind': 'extern-differs', 'feature': f, 'generator': gen},
                                  "feature '%s': %s differs between local declaration and @extern: %s" % (f, p, ' | '.join(diff[2:6])[:300]),
                                  dict(rep, path=p, diff=diff))
    ctx.add_corr('M-extern', len(info), len({i_[0] for i_ in info}), [], [{'feature': info[0][0], 'mode': info[0][1]}] if info else [],
                 {'features': len(FEATURES), 'combinations': len(info), 'files_compared': compared},
                 'each dependant feature (%d) x export mode (single out_file | one file per type) x naming configuration: the dependant generated with '
                 'the library declared locally vs pulled in with @extern; every file of the dependant compared byte for byte' % len(FEATURES))
