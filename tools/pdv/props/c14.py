"""C14 - Files land where configured and the processed-files report is exact."""
import copy, json, os, random
from .. import gen_idl, coqtool
from ..common import run_impl
from ..emit import *
from .c17 import FULL

TRUSTED = ['pathlib / the file system; PyYAML, json, tomli_w serialisers of the report; pydantic model_dump of the report model',
           'writes are observed by wrapping FileReaderWriter._write/_copy inside the driver process, with a file-tree diff as backstop']
ASSUMPTIONS = ['model = Sys/Writer.v (FileReaderWriter as a state machine over an abstract file system); tied by op-sequence correspondence '
               'on the real class; the pipeline (which ops each generator issues, with which paths) is judged by the oracle on real runs']

KEYS = ['cpp', 'jni', 'objc']


def gen_ops(r):
    ops = []
    for _ in range(r.randint(1, 14)):
        k = r.choice(KEYS)
        x = r.random()
        name = r.choice(['a', 'b', 'sub/c', 'd'])
        if x < 0.12:
            ops.append(['ReadIdl', r.choice(['main.idl', 'lib/x.idl', 'y.idl'])])
        elif x < 0.2:
            ops.append(['ReadExt', r.choice(['t.yaml', 'ext/u.yaml'])])
        elif x < 0.3:
            ops.append(['SetupInc', k, 'out/%s/include' % k])
        elif x < 0.4:
            ops.append(['SetupSrc', k, 'out/%s/src' % k])
        elif x < 0.65:
            ops.append(['WriteHeader', k, 'out/%s/include/%s.h' % (k, name), r.choice(['1', '2', 'xyz'])])
        elif x < 0.9:
            ops.append(['WriteSource', k, 'out/%s/src/%s.c' % (k, name), r.choice(['1', '2', 'xyz'])])
        elif x < 0.95:
            ops.append(['CopyHeader', k, 'out/%s/include/support_%d.h' % (k, r.randint(0, 2))])
        else:
            ops.append(['CopySource', k, 'out/%s/src/support_%d.c' % (k, r.randint(0, 2))])
    return ops


def c_op(op):
    return '%s %s' % (op[0], ' '.join(cstr(x) for x in op[1:]))


PRE = '''From Coq Require Import List String Bool Arith.
From PDV Require Import Sys.Writer.
Import ListNotations. Open Scope string_scope. Open Scope list_scope.
Fixpoint strs_eqb (a b : list string) := match a, b with [], [] => true | x :: a', y :: b' => String.eqb x y && strs_eqb a' b' | _, _ => false end.
Definition krep_ok (e : string * (string * list string * string * list string)) (g : list (string * krep)) : bool :=
  match get_key (fst e) g with
  | Some r => let '(inc, hs, src, ss) := snd e in
              String.eqb (k_inc r) inc && strs_eqb (k_headers r) hs && String.eqb (k_src r) src && strs_eqb (k_sources r) ss
  | None => false
  end.
Fixpoint fs_eqb (a b : list (string * string)) := match a, b with [], [] => true | (p, c) :: a', (q, d) :: b' => String.eqb p q && String.eqb c d && fs_eqb a' b' | _, _ => false end.
Definition case_ok (c : list wop * (list string * list string * list (string * (string * list string * string * list string)))) : bool :=
  let '(ops, (idl, ext, gen)) := c in
  let '(midl, mext, mgen) := report (run ops (init ["cpp"; "jni"; "objc"])) in
  strs_eqb midl idl && strs_eqb mext ext && Nat.eqb (List.length mgen) (List.length gen) && forallb (fun e => krep_ok e mgen) gen.
Fixpoint bad_idx {A} (f : A -> bool) (i : nat) (cs : list A) : list nat :=
  match cs with [] => [] | c :: t => if f c then bad_idx f (S i) t else i :: bad_idx f (S i) t end.
'''

EXT_IDL = 'ext_t = record { a: i32; }\n'


def features_program(r):
    """imports, an extern type, async interfaces in both directions (loader / schedule / completion files), records"""
    lib = 'lib_e = enum { a; b; }\nlib_r = record { x: lib_e; }\n'
    main = ''
    loads = []
    use_import = r.random() < 0.7
    use_extern = r.random() < 0.6
    if use_import:
        loads.append('@import "%s"' % r.choice(['lib.pydjinni', 'sub/lib.pydjinni']))
    if use_extern:
        loads.append('@extern "ext/ext_t.yaml"')
    body = ['foo = enum { a; b; }']
    has_rec = r.random() < 0.7
    if has_rec:
        body.append('rec = record { e: foo; %s} deriving(eq)' % ('l: lib_r; ' if use_import else ''))
    if r.random() < 0.7:
        body.append('cpp_itf = %sinterface +cpp { %sget(x: %s) -> foo; }' % ('main ' if r.random() < 0.5 else '', 'async ' if r.random() < 0.6 else '', 'rec' if has_rec else 'i32'))
    if r.random() < 0.6:
        body.append('cb = interface -cpp { %son_evt(v: i32)%s; }' % ('async ' if r.random() < 0.6 else '', ' -> bool' if r.random() < 0.5 else ''))
    if use_extern:
        body.append('user = record { t: ext_t; }')
    if r.random() < 0.4:
        body.append('namespace n.m { inner = flags { a; b; all_ = all; } }')
    if r.random() < 0.4:
        body.append('err = error { bad(code: i32); }\nthrower = interface +cpp { run() throws err; }')
    files = {'main.pydjinni': '\n'.join(loads + body) + '\n'}
    imports = []
    for l in loads:
        if l.startswith('@import'):
            p = l.split('"')[1]
            files[p] = lib; imports.append(p)
    return files, imports, use_extern


def run(ctx):
    r = random.Random(ctx.rng.random())
    # ---- K-writer-unit
    n = ctx.n(300, 3000)
    cases = [gen_ops(r) for _ in range(n)]
    ok, res = run_impl('writer_ops', {'cases': [{'keys': KEYS, 'ops': c} for c in cases]}, timeout=900)
    if not ok:
        ctx.broken.append({'kind': 'harness', 'name': 'writer_ops driver', 'detail': str(res)[-1500:]}); return
    items, mism = [], []
    for c, o in zip(cases, res['results']):
        if 'harness_error' in o:
            mism.append({'ops': c, 'impl': o}); items.append(None); continue
        rep = o['report']
        # oracle on the implementation itself: the report lists exactly what was written per key, keys that wrote nothing are absent
        for k in KEYS:
            hs = [op[2] for op in c if op[0] in ('WriteHeader', 'CopyHeader') and op[1] == k]
            ss = [op[2] for op in c if op[0] in ('WriteSource', 'CopySource') and op[1] == k]
            sec = rep['generated'].get(k)
            if (sec is None) != (not hs and not ss):
                ctx.add_violation({'kind': 'report-section-presence', 'level': 'writer', 'header_only': bool(hs) and not ss},
                                  'generator %s wrote %d headers/%d sources but its report section is %s' % (k, len(hs), len(ss), 'missing' if sec is None else 'present'),
                                  {'writer_ops': c, 'report': rep})
            elif sec is not None and (sec.get('header') != hs or sec.get('source') != ss):
                ctx.add_violation({'kind': 'report-files-differ', 'level': 'writer'}, 'section %s lists %s / %s, written %s / %s' % (k, sec.get('header'), sec.get('source'), hs, ss),
                                  {'writer_ops': c, 'report': rep})
        gen = ['(%s, (%s, %s, %s, %s))' % (cstr(k), cstr(v.get('include_dir', '')), cstrs(v.get('header', [])), cstr(v.get('source_dir', '')), cstrs(v.get('source', [])))
               for k, v in rep['generated'].items()]
        items.append('(%s, (%s, %s, %s))' % (clist([c_op(op) for op in c]), cstrs(rep['parsed']['idl']), cstrs(rep['parsed']['external_types']), clist(gen)))
    idxs = [i for i, x in enumerate(items) if x is not None]
    for s in range(0, len(idxs), 400):
        chunk = idxs[s:s + 400]
        body = PRE + 'Definition cases := %s.\nEval vm_compute in (bad_idx case_ok 0 cases).\n' % clist([items[i] for i in chunk])
        rc, out, err = coqtool.run_cases('c14_unit', body)
        bad = coqtool.parse_nat_list(out) if rc == 0 else None
        if bad is None:
            ctx.broken.append({'kind': 'correspondence', 'name': 'K-writer-unit (coqc failed)', 'detail': (err + out)[-1500:]}); return
        mism += [{'ops': cases[chunk[i]], 'impl_report': res['results'][chunk[i]]['report']} for i in bad]
    ctx.add_corr('K-writer-unit', n, len({json.dumps(c) for c in cases if len(c) > 2}), mism, [{'ops': cases[0]}],
                 {'ops': sum(len(c) for c in cases)},
                 'random sequences of read/setup/write/copy operations on the real FileReaderWriter over 3 generator keys; the '
                 'report it writes is compared with the model; non-trivial = more than two operations')
    # ---- pipeline oracle
    ok, res = run_impl('gen_run', {'cases': [{'files': {'e.pydjinni': EXT_IDL}, 'ops': [['parse', 'e.pydjinni'], ['generate', 'yaml']],
                                              'options': {'generate': dict(FULL)}, 'keep_content': True}]})
    ext_yaml = None
    if ok and 'tree' in res['results'][0]:
        ext_yaml = res['results'][0]['tree'].get('out/yaml/ext_t.yaml')
    if not ext_yaml:
        ctx.broken.append({'kind': 'harness', 'name': 'extern fixture', 'detail': str(res)[-800:]}); return
    n = ctx.n(24, 200)
    pcases, pmeta = [], []
    GENS = {'cpp': 'cpp', 'java': 'java', 'jni': 'java', 'objc': 'objc', 'objcpp': 'objc', 'cppcli': 'cppcli', 'yaml': 'yaml'}
    for i in range(n):
        files, imports, use_extern = features_program(r)
        files['ext/ext_t.yaml'] = ext_yaml
        layouts = {}
        for style in ('relative', 'absolute', 'split', 'nested', 'cwd'):
            gen = {}
            for g, base in FULL.items():
                o = dict(base)
                if style == 'absolute':
                    o['out'] = '@ROOT@/abs_out/' + g
                elif style == 'split' and g in ('cpp', 'jni', 'objc', 'objcpp', 'cppcli'):
                    o['out'] = {'header': 'gen/%s/include' % g, 'source': 'gen/%s/src' % g}
                elif style == 'nested' and g in ('cpp', 'jni', 'objc', 'objcpp', 'cppcli'):
                    o['out'] = {'header': 'gen/%s/include' % g, 'source': 'gen/%s' % g}      # header directory inside the source directory
                elif style == 'cwd':
                    o['out'] = '../out/' + g
                gen[g] = o
            fmt = r.choice(['json', 'yaml', 'yml', 'toml'])
            rep = ('../' if style == 'cwd' else '') + 'report/files.' + fmt
            gen['list_processed_files'] = rep
            gen['support_lib_sources'] = r.random() < 0.25
            if r.random() < 0.4:
                # all types in one YAML file whose configured name may have a directory part: it lands at <yaml.out>/<out_file>
                gen['yaml'] = dict(gen['yaml'], out_file=r.choice(['types.yaml', 'exported/demo/types.yaml', 'sub/all.yml']))
            if r.random() < 0.5:
                gen['jni'] = dict(gen['jni'], loader=True) if 'loader' not in gen['jni'] else gen['jni']
            targets = r.sample(['cpp', 'java', 'objc', 'cppcli', 'yaml'], r.randint(1, 5))
            clean = r.random() < 0.4
            pre = ['keep/me.txt', 'report/old.txt']
            for g, cfg in gen.items():
                if isinstance(cfg, dict) and 'out' in cfg:
                    out = cfg['out']
                    for d in ([out['header'], out['source']] if isinstance(out, dict) else [out]):
                        d = d.replace('@ROOT@/', '')
                        d = os.path.normpath(os.path.join('work', d)) if style == 'cwd' else d
                        pre.append(d + '/stale_pre.txt')
            case = {'files': files, 'cwd': 'work' if style == 'cwd' else '.', 'options': {'generate': gen},
                    'ops': [['parse', ('../' if style == 'cwd' else '') + 'main.pydjinni']] + [['generate', t, clean] for t in targets] + [['report']],
                    'report_file': 'report/files.' + fmt, 'preexisting': pre, 'include_support': True, 'keep_content': False}
            if style == 'cwd':
                case['files'] = dict(files); case['files']['work/.keep'] = ''
            pcases.append(case)
            pmeta.append({'style': style, 'targets': targets, 'clean': clean, 'imports': imports, 'extern': use_extern, 'gen': gen, 'group': i})
    ok, res = run_impl('gen_run', {'cases': pcases}, timeout=3000)
    if not ok:
        ctx.broken.append({'kind': 'harness', 'name': 'gen_run driver', 'detail': str(res)[-1500:]}); return
    dist = {'runs': len(pcases), 'styles': {}, 'with_imports': 0, 'with_extern': 0, 'clean': 0, 'ok_runs': 0, 'formats': {}}
    rel_names = {}
    for c, m, o in zip(pcases, pmeta, res['results']):
        dist['styles'][m['style']] = dist['styles'].get(m['style'], 0) + 1
        dist['with_imports'] += bool(m['imports']); dist['with_extern'] += m['extern']; dist['clean'] += m['clean']
        rep0 = {'files': {k: v for k, v in c['files'].items() if k != 'ext/ext_t.yaml'}, 'options': c['options'], 'ops': c['ops'], 'cwd': c['cwd']}
        if 'harness_error' in o or 'timeout' in o:
            ctx.broken.append({'kind': 'harness', 'name': 'gen_run case', 'detail': str(o)[-600:]}); continue
        bad = next((s for s in o['steps'] if s['r'] != 'ok'), None)
        if bad:
            if bad['r'] == 'internal':
                ctx.add_violation({'kind': 'internal-error', 'exc': bad['exc'].get('cls'), 'frame': bad['exc'].get('frame')}, 'pipeline raised %s' % bad['exc'], rep0)
            continue
        dist['ok_runs'] += 1
        dist['formats'][c['report_file'].rsplit('.', 1)[1]] = dist['formats'].get(c['report_file'].rsplit('.', 1)[1], 0) + 1
        root = o['root']
        def absdir(d):
            d = d.replace('@ROOT@', root)
            base = os.path.join(root, c['cwd'])
            return os.path.normpath(d if os.path.isabs(d) else os.path.join(base, d))
        dirs = {}
        for g, cfg in m['gen'].items():
            if isinstance(cfg, dict) and 'out' in cfg:
                out = cfg['out']
                dirs[g] = (absdir(out['header']), absdir(out['source'])) if isinstance(out, dict) else (absdir(out), absdir(out))
        used = {g for g in dirs if GENS[g] in m['targets']}
        writes = [w for s in o['steps'] for w in s['writes']]
        report_path = os.path.normpath(os.path.join(root, c['report_file']))
        per_gen = {g: {'h': [], 's': []} for g in dirs}
        for kind, p, dg in writes:
            ap = os.path.normpath(os.path.join(root, p)) if not os.path.isabs(p) else os.path.normpath(p)
            if ap == report_path:
                continue
            owner = [(g, which) for g, (h, s) in dirs.items() for which, d in (('h', h), ('s', s)) if ap.startswith(d + os.sep)]
            if not owner:
                ctx.add_violation({'kind': 'write-outside-output-dirs', 'style': m['style']},
                                  'file %s written outside every configured output directory' % p, rep0)
                break
            # split layouts: header and source dir differ, so the owner is unique; otherwise pick the used generator
            owner = [x for x in owner if x[0] in used] or owner
            g = owner[0][0]
            rel = os.path.relpath(ap, dirs[g][0 if owner[0][1] == 'h' else 1])
            if rel.startswith('out' + os.sep) or rel.startswith('gen' + os.sep) or rel.startswith('abs_out'):
                ctx.add_violation({'kind': 'output-dir-joined-twice', 'generator': g}, '%s: relative name %s repeats the output directory' % (g, rel), rep0)
            rel_names.setdefault((m['group'], tuple(sorted(m['targets'])) if False else None, g), {}).setdefault(m['style'], set())
        # report exactness
        rp = o.get('report')
        if rp is None:
            ctx.add_violation({'kind': 'report-missing-or-unreadable'}, 'report %s missing/unreadable: %s' % (c['report_file'], o.get('report_error')), rep0)
            continue
        def absr(p):
            base = os.path.join(root, c['cwd'])
            return os.path.normpath(p if os.path.isabs(p) else os.path.join(base, p))
        logged = {}
        for kind, p, dg in writes:
            ap = os.path.normpath(os.path.join(root, p))
            if ap != report_path:
                logged[ap] = logged.get(ap, 0) + 1
        listed = []
        for g, sec in rp.get('generated', {}).items():
            listed += [absr(x) for x in sec.get('header', [])] + [absr(x) for x in sec.get('source', [])]
            if g in dirs:
                if 'include_dir' in sec and absr(sec['include_dir']) != dirs[g][0]:
                    ctx.add_violation({'kind': 'report-dir-wrong', 'generator': g}, 'include_dir %s, configured %s' % (sec['include_dir'], dirs[g][0]), rep0)
                if 'source_dir' in sec and absr(sec['source_dir']) != dirs[g][1]:
                    ctx.add_violation({'kind': 'report-dir-wrong', 'generator': g}, 'source_dir %s, configured %s' % (sec['source_dir'], dirs[g][1]), rep0)
        if sorted(listed) != sorted(x for x, k in logged.items() for _ in range(k)):
            miss = sorted(set(logged) - set(listed)); extra = sorted(set(listed) - set(logged))
            ctx.add_violation({'kind': 'report-files-differ', 'missing': bool(miss), 'extra': bool(extra)},
                              'report lists %d files, %d were written; not listed: %s; listed but not written: %s' %
                              (len(listed), sum(logged.values()), [os.path.relpath(x, root) for x in miss[:4]], [os.path.relpath(x, root) for x in extra[:4]]), rep0)
        yo = m['gen'].get('yaml', {})
        if 'yaml' in m['targets'] and yo.get('out_file'):
            want_y = os.path.relpath(os.path.join(dirs['yaml'][0], yo['out_file']), root)
            if want_y not in o['tree']:
                ctx.add_violation({'kind': 'file-not-at-configured-name', 'generator': 'yaml'},
                                  'generate.yaml.out_file=%s: expected %s, the yaml files written are %s' %
                                  (yo['out_file'], want_y, sorted(p_ for p_ in o['tree'] if p_.endswith(('.yaml', '.yml')) and not p_.startswith('ext/'))[:4]), rep0)
        # every listed file exists when the run is over (support-library copies included: a copy that is recorded but not made is a lie)
        gone = sorted(x for x in set(listed) if os.path.relpath(x, root) not in o['tree'])
        if gone:
            ctx.add_violation({'kind': 'report-lists-file-that-does-not-exist', 'support_lib': any('pydjinni' in os.path.relpath(x, root).split(os.sep) for x in gone)},
                              'the report lists %d files that do not exist after the run: %s' % (len(gone), [os.path.relpath(x, root) for x in gone[:4]]), rep0)
        unused_listed = set(rp.get('generated', {})) - used
        if unused_listed:
            ctx.add_violation({'kind': 'report-lists-unused-generator'}, 'sections %s although only %s were generated' % (sorted(unused_listed), sorted(used)), rep0)
        want_idl = sorted([absr(c['ops'][0][1])] + [os.path.normpath(os.path.join(root, p)) for p in m['imports']])
        got_idl = sorted(absr(x) for x in rp['parsed']['idl'])
        if want_idl != got_idl:
            ctx.add_violation({'kind': 'report-parsed-idl'}, 'parsed.idl %s, expected %s' % ([os.path.relpath(x, root) for x in got_idl], [os.path.relpath(x, root) for x in want_idl]), rep0)
        want_ext = [os.path.normpath(os.path.join(root, 'ext/ext_t.yaml'))] if m['extern'] else []
        got_ext = sorted(absr(x) for x in rp['parsed']['external_types'])
        if want_ext != got_ext:
            ctx.add_violation({'kind': 'report-parsed-externs'}, 'parsed.external_types %s, expected %s' % (got_ext, want_ext), rep0)
        # confinement / clean
        tree = o['tree']
        if 'keep/me.txt' not in tree:
            ctx.add_violation({'kind': 'file-outside-outputs-deleted'}, 'keep/me.txt disappeared', rep0)
        for g, (hd, sd) in dirs.items():
            for d in {hd, sd}:
                sp = os.path.relpath(os.path.join(d, 'stale_pre.txt'), root)
                cleaned = m['clean'] and GENS[g] in m['targets']
                # a directory nested in another generator's cleaned directory goes with it
                swept = any(m['clean'] and GENS[g2] in m['targets'] and (d + os.sep).startswith(x + os.sep) for g2, pair in dirs.items() for x in pair)
                if cleaned and sp in tree:
                    ctx.add_violation({'kind': 'clean-left-stale-file', 'nested': m['style'] == 'nested'}, '%s survived clean of generator %s' % (sp, g), rep0)
                if not cleaned and not swept and sp not in tree:
                    ctx.add_violation({'kind': 'stale-file-deleted-without-clean'}, '%s removed although %s was not cleaned' % (sp, g), rep0)
        allowed = [d for pair in dirs.values() for d in pair] + [os.path.dirname(report_path)]
        for p in tree:
            ap = os.path.normpath(os.path.join(root, p))
            if p in c['files'] or p in c['preexisting'] or p.startswith('work/'):
                continue
            if not any(ap.startswith(d + os.sep) for d in allowed):
                ctx.add_violation({'kind': 'file-created-outside-output-dirs'}, 'unexpected file %s' % p, rep0)
                break
    ctx.add_corr('M-pipeline-files', len(pcases), dist['ok_runs'], [], [{'ops': pcases[0]['ops'], 'options': pcases[0]['options']}], dist,
                 'feature programs (imports, @extern, async interfaces in both directions, main/loader, namespaces, errors) x output '
                 'spellings (relative, absolute, split header/source, different working directory) x random target subsets x report '
                 'formats x clean with pre-existing files; write log, report and file tree judged against the configuration')
