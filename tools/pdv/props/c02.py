"""C02 - Generated C++/Java/ObjC/C# API declares exactly what the IDL declares; type mapping is compositional."""
import copy, json, os, random, re, shutil, subprocess, tempfile
from concurrent.futures import ThreadPoolExecutor
from pathlib import Path
from .. import coqtool, gen_idl, jvm_judge, kjinja
from ..common import run_impl
from ..emit import *
from .c17 import FULL

TRUSTED = ['javac 17 + javap (Java declarations), g++ 12 -std=c++20 -fsyntax-only with static_assert(std::is_same_v<decltype(..)>) (C++ declarations) as judges',
           'the reference mapping IDL type -> JVM descriptor / C++ type in this file (independent of the generators: written from docs/types.md)',
           'Jinja2 parser/runtime for the K-jinja correspondence']
ASSUMPTIONS = ['model = Marshal/TypeStr.v (cpp _type_specifier, java compute_data_type, objc type_decl, cppcli typename, C++ method specifiers) on '
               'attributes read off the real marshalling objects; Marshal/Ident.v for identifier styles (K-ident is part of C15); render lemmas '
               'Jinja/FragDecl.v for the record member lists of the C++ and Java templates',
               'Objective-C and C++/CLI declaration lists are tied only through their type/name strings (K-marshal); no ObjC/.NET compiler in the sandbox',
               'Java nullable/nonnull annotations and cpp.not_null are left at their defaults in the judges']

ATOMS = ['bool', 'i8', 'i16', 'i32', 'i64', 'f32', 'f64', 'string', 'binary', 'date', 'kind', 'opts', 'point', 'peer', 'cb']
MPRE = 'kind = enum { a_b; c; }\nopts = flags { x_1; y; all_of = all; }\npoint = record { x: i32; y_z: f64?; tags: list<string>; o: opts; k: kind?; cb_f: cb; }\n' \
       'cb = function (code: i32, msg: string?) -> bool;\noops = error { bad_thing(code: i16 why: string?); other; }\npeer = interface +cpp +java +objc +cppcli { ping(); }\n'


def type_exprs(r, depth2):
    out = []
    for a in ATOMS:
        out += [a, a + '?']
    l1 = []
    for a in ATOMS:
        for o in ('', '?'):
            for c in ('list', 'set'):
                if c == 'set' and (a in ('f32', 'f64', 'point', 'peer', 'cb', 'binary', 'opts', 'date') or o):
                    continue      # no std::hash for these element types: the C++ does not compile (C01)
                l1.append('%s<%s%s>' % (c, a, o))
    keys = ['i32', 'string', 'i64', 'kind', 'bool']
    for k in keys:
        for a in r.sample(ATOMS, 5):
            l1.append('map<%s, %s%s>' % (k, a, r.choice(['', '?'])))
    out += l1 + [x + '?' for x in r.sample(l1, 12)]
    for _ in range(depth2):
        inner = r.choice(l1)
        c = r.choice(['list', 'list', 'map'])
        out.append(('list<%s%s>' % (inner, r.choice(['', '?']))) if c == 'list' else 'map<%s, %s>' % (r.choice(keys), inner))
        out[-1] += r.choice(['', '?'])
    return out


def matrix_program(r, depth2, tag):
    exprs = type_exprs(r, depth2)
    methods, fields = [], []
    for i, t in enumerate(exprs):
        other = r.choice(exprs)
        mods = r.choice(['', 'const ', 'async ', '', ''])
        methods.append('%sm_%d(p_a: %s, q: %s)%s -> %s;' % (mods, i, t, other, r.choice(['', ' throws oops', ' throws']), t))
        if 'peer' not in t:
            fields.append('f_%d: %s;' % (i, t))
    idl = MPRE + 'big_%s = interface +cpp +java +objc +cppcli { %s }\n' % (tag, ' '.join(methods))
    idl += 'vec3d_point_%s = record { offset_2nd: i32; x2y: string; mode_4k: bool; }\n' % tag
    idl += 'fn_a_%s = function (a: i32) throws -> string;\nfn_b_%s = function (a: string?, b: peer) throws oops;\nfn_c_%s = function () -> i32;\n' % (tag, tag, tag)
    idl += 'use_%s = interface +cpp +java +objc +cppcli { get_x2y(cb_1: (v: i32) throws -> bool, cb_2: (s: string)) -> vec3d_point_%s; }\n' % (tag, tag)
    idl += 'st_%s = interface +cpp { static make(a: i32) -> peer; static nothing(); const get_it() -> string; plain(x: point) throws oops; }\n' % tag
    idl += 'rec_%s = record { %s }\n' % (tag, ' '.join(fields[:60]))
    return idl


# ------------------------------------------------------------------ K-marshal (types)
def c_tinfo(t):
    kind = {'interface': 'KInterface', 'function': 'KFunction'}.get(t['prim'], 'KOther')
    def b(x):
        return cbool(bool(x))
    return 'mktinfo %s %s %s %s %s %s %s %s %s %s' % (kind, cstr(t['cpp']['typename'] or ''), b(t['cpp']['by_value']), cstr(t['java']['typename'] or ''),
                                                    cstr(t['java']['boxed'] or ''), cstr(t['objc']['typename'] or ''), cstr(t['objc']['boxed'] or ''),
                                                    b(t['objc']['pointer']), cstr(t['cppcli']['typename'] or ''), b(t['cppcli']['reference']))


def c_tr(t):
    return 'TR %s (%s) %s' % (cbool(t['opt']), c_tinfo(t['target']), clist([c_tr(p) for p in t['params']]))


def complete(t):
    return t is None or (t['target'] is not None and all(complete(p) for p in t['params']))


PRE = '''From Coq Require Import List String Ascii Bool.
From PDV Require Import Lib.StrUtil Marshal.TypeStr.
Import ListNotations. Open Scope string_scope. Open Scope list_scope.
Definition role_strings (role : nat) (async : bool) (r : option tr) : list string :=
  match role, r with
  | 0, Some x => [cpp_spec None false false r; java_type false x; objc_decl false false x; cli_type x]
  | 1, Some x => [cpp_spec None true true r; java_type false x; objc_decl true false x; cli_type x]
  | _, _ =>
      [(if async then ("pydjinni::coroutine::task<" ++ cpp_spec None false false r ++ ">")%string else cpp_spec None false true r);
       (let out := match r with Some x => java_type async x | None => if async then "Void" else "void" end in
        if async then ("java.util.concurrent.CompletableFuture<" ++ out ++ ">")%string else out);
       match r with Some x => objc_decl false false x | None => "" end;
       cli_typename_of r async]
  end.
Fixpoint strs_eqb (a b : list string) : bool := match a, b with [] , [] => true | x :: r, y :: s => String.eqb x y && strs_eqb r s | _, _ => false end.
Definition tcase (role : nat) (async : bool) (r : option tr) (exp : list string) : bool := strs_eqb (role_strings role async r) exp.
Definition fcase (ret : option tr) (params : list tr) (noexcept : bool) (exp : string) : bool := String.eqb (objc_block_typename ret params noexcept) exp.
Definition scase (has_ret const noexcept static : bool) (pre post : string) : bool :=
  String.eqb (prefix_specifiers has_ret const static false) pre && String.eqb (postfix_specifiers const noexcept static false) post.
Fixpoint bad_idx (i : nat) (cs : list bool) : list nat := match cs with [] => [] | true :: t => bad_idx (S i) t | false :: t => i :: bad_idx (S i) t end.
'''


def v(a):
    return a.get('v') if isinstance(a, dict) else None


def kmarshal(ctx, mcases, res):
    rows, meta, kinds = [], [], {}
    def add(role, asyn, t, attrs, where, c):
        if not complete(t):
            return
        exp = [v(attrs['cpp'].get('type_spec')), v(attrs['java'].get('data_type' if role < 2 else 'return_type')),
               v(attrs['objc'].get('type_decl')) if (t is not None) else '', v(attrs['cppcli'].get('typename'))]
        if any(e is None for e in exp):
            meta_e = {'where': where, 'attrs': {g: attrs[g] for g in ('cpp', 'java', 'objc', 'cppcli')}}
            ctx.broken.append({'kind': 'harness', 'name': 'K-marshal attribute missing', 'detail': json.dumps(meta_e)[:600]}); return
        rows.append('tcase %d %s %s %s' % (role, cbool(asyn), copt(t, lambda x: '(%s)' % c_tr(x)), cstrs(exp)))
        meta.append({'where': where, 'role': ['field', 'parameter', 'result'][role], 'async': asyn, 'impl': dict(zip(['cpp', 'java', 'objc', 'cppcli'], exp)),
                     'files': c['files']})
        depth = 0
        def dp(x):
            return 0 if x is None or not x['params'] else 1 + max(dp(p) for p in x['params'])
        key = '%s:depth%d%s' % (['field', 'param', 'result'][role], dp(t), ':opt' if t and t['opt'] else '')
        kinds[key] = kinds.get(key, 0) + 1
    for c, o in zip(mcases, res['results']):
        if o['outcome'] != 'ok':
            continue
        for d in o['decls']:
            if d['k'] == 'Function' and complete(d.get('ret')) and all(complete(m['type']) for m in d.get('members', [])):
                tn = v(d['attrs']['objc'].get('typename'))
                if tn is not None:
                    rows.append('fcase %s %s %s %s' % (copt(d.get('ret'), lambda x: '(%s)' % c_tr(x)), clist([c_tr(m['type']) for m in d.get('members', [])]),
                                                      cbool(d.get('throws') is None), cstr(tn)))
                    meta.append({'where': '%s objc block type' % d['name'], 'impl': tn, 'throws': d.get('throws'), 'files': c['files']})
                    if ('NSError* _Nullable * _Nonnull)' in tn) != (d.get('throws') is not None):
                        ctx.add_violation({'kind': 'throws-not-reflected', 'lang': 'objc', 'what': 'function block type'},
                                          "function %s (%s) has the Objective-C block type %s" % (d['name'], 'throws' if d.get('throws') is not None else 'does not throw', tn),
                                          {'decl': d['name'], 'throws': d.get('throws'), 'objc_typename': tn, 'files': c['files']})
                    key = 'function-block:%s' % ('noexcept' if d.get('throws') is None else 'bare-throws' if not d.get('throws') else 'throws-domain')
                    kinds[key] = kinds.get(key, 0) + 1
            for m in d.get('members', []):
                if m['kind'] == 'field':
                    add(0, False, m['type'], m['attrs'], '%s.%s' % (d['name'], m['name']), c)
                elif m['kind'] == 'method':
                    add(2, m['asyn'], m['ret'], m['attrs'], '%s.%s()' % (d['name'], m['name']), c)
                    for p_ in m['params']:
                        add(1, False, p_['type'], p_['attrs'], '%s.%s(%s)' % (d['name'], m['name'], p_['name']), c)
                    pre, post = v(m['attrs']['cpp'].get('prefix_specifiers')), v(m['attrs']['cpp'].get('postfix_specifiers'))
                    if pre is not None and post is not None:
                        rows.append('scase %s %s %s %s %s %s' % (cbool(m['ret'] is not None), cbool(m['const']), cbool(m['throws'] is None), cbool(m['static']),
                                                               cstr(pre), cstr(post)))
                        meta.append({'where': '%s.%s specifiers' % (d['name'], m['name']), 'impl': [pre, post], 'files': c['files']})
                        kinds['specifiers'] = kinds.get('specifiers', 0) + 1
    mism = []
    shard = 150
    for s in range(0, len(rows), shard):
        body = PRE + 'Definition cases : list bool := %s.\nEval vm_compute in (bad_idx 0 cases).\n' % clist(rows[s:s + shard])
        rc, out, err = coqtool.run_cases('kmarshal_c02', body)
        bad = coqtool.parse_nat_list(out) if rc == 0 else None
        if bad is None:
            ctx.broken.append({'kind': 'correspondence', 'name': 'K-marshal/types (coqc failed)', 'detail': (err + out)[-1500:]}); return
        mism += [meta[s + i] for i in bad]
    ctx.add_corr('K-marshal/types', len(rows), len(kinds), mism, meta[:1], {'cases_by_kind': kinds},
                 'cpp type_spec / java data_type+return_type / objc type_decl / cppcli typename of every field, parameter and result, and the C++ '
                 'prefix/postfix specifiers of every method, of systematic programs (every atom x optional, every list/set of an atom, sampled maps, '
                 'depth-2 nestings) and random programs vs Marshal/TypeStr.v on the attributes of the referenced type definitions')


# ------------------------------------------------------------------ reference mapping (independent of the generators)
JPRIM = {'bool': ('Z', 'Ljava/lang/Boolean;'), 'i8': ('B', 'Ljava/lang/Byte;'), 'i16': ('S', 'Ljava/lang/Short;'), 'i32': ('I', 'Ljava/lang/Integer;'),
         'i64': ('J', 'Ljava/lang/Long;'), 'f32': ('F', 'Ljava/lang/Float;'), 'f64': ('D', 'Ljava/lang/Double;'), 'string': ('Ljava/lang/String;',) * 2,
         'binary': ('[B', '[B'), 'date': ('Ljava/time/Instant;',) * 2, 'list': ('Ljava/util/ArrayList;',) * 2, 'set': ('Ljava/util/HashSet;',) * 2,
         'map': ('Ljava/util/HashMap;',) * 2}
CPRIM = {'bool': 'bool', 'i8': 'int8_t', 'i16': 'int16_t', 'i32': 'int32_t', 'i64': 'int64_t', 'f32': 'float', 'f64': 'double', 'string': 'std::string',
         'binary': 'std::vector<uint8_t>', 'date': 'std::chrono::system_clock::time_point', 'list': 'std::vector', 'set': 'std::unordered_set',
         'map': 'std::unordered_map'}
BY_VALUE = {'bool', 'i8', 'i16', 'i32', 'i64', 'f32', 'f64'}


def pascal(s):
    return ''.join(p[:1].upper() + p[1:].lower() for p in s.split('_'))


def camel(s):
    ps = s.split('_')
    return ps[0].lower() + ''.join(p[:1].upper() + p[1:].lower() for p in ps[1:])


def jdesc(t, pkg='com/ex'):
    """t = dumped tref (name/opt/params/target{name,ns,prim})"""
    tg = t['target']
    if tg['builtin']:
        d = JPRIM[tg['name']]
        return d[1] if t['opt'] else d[0]
    if tg['prim'] == 'flags':
        return 'Ljava/util/EnumSet;'
    if tg.get('anonymous'):
        return 'L*;'          # inline function types: the generated name is judged by C15/C03
    return 'L%s/%s;' % ('/'.join([pkg] + [n.lower() for n in tg['ns']]), pascal(tg['name']))


def ctype(t, top=True):
    tg = t['target']
    if tg['builtin']:
        out = CPRIM[tg['name']]
        if t['params']:
            inner = [ctype(p, False) for p in t['params']]
            if any(x is None for x in inner):
                return None
            out += '<' + ', '.join(inner) + '>'
    else:
        out = tg['cpp']['typename']     # qualified names of declared types are taken from the generator (names are judged by K-ident / C15)
    if tg['prim'] == 'interface':
        return 'std::shared_ptr<%s>' % out
    if tg['prim'] == 'function':
        return None      # std::function<...>: judged through K-marshal only
    return 'std::optional<%s>' % out if t['opt'] else out


def by_value(t):
    tg = t['target']
    return (tg['builtin'] and tg['name'] in BY_VALUE) or tg['prim'] in ('enum', 'flags')


# ------------------------------------------------------------------ judges
def text_inventory(o, tree, stats):
    """Objective-C headers and C++/CLI headers (no compiler for either here): the declarations are read back from the generated text with
    regular expressions and compared, in order, with the marshalled names / type strings of the IDL members (which K-marshal ties to the model)."""
    issues = []
    def strip_comments(t):
        t = re.sub(r'/\*.*?\*/', '', t, flags=re.S)
        return '\n'.join(l for l in t.split('\n') if not l.strip().startswith('//'))
    for d in o['decls']:
        if d['anonymous'] or d['k'] not in ('Record', 'Interface', 'Enum'):
            continue
        oa, ca = d['attrs'].get('objc') or {}, d['attrs'].get('cppcli') or {}
        oh, ch = v(oa.get('header')), v(ca.get('header'))
        otext = tree.get('out/objc/' + oh) if oh else None
        ctext = tree.get('out/cppcli/' + ch) if ch else None
        if d['k'] == 'Enum':
            names = [m['name'] for m in d['members']]
            if otext is not None:
                m_ = re.search(r'typedef NS_ENUM\(NSUInteger, (\w+)\) \{(.*?)\n\}', strip_comments(otext), re.S)
                got = [x.strip().rstrip(',') for x in m_.group(2).split('\n') if x.strip()] if m_ else None
                want = [v(oa.get('name')) + v(m['attrs']['objc'].get('name')) for m in d['members']] if all(v(m['attrs']['objc'].get('name')) for m in d['members']) else None
                stats['objc_members'] += len(names)
                if want is not None and got != want:
                    issues.append({'kind': 'objc-enum-items', 'decl': d['name'], 'declared': names, 'expected': want, 'generated': got})
            if ctext is not None:
                m_ = re.search(r'public enum class (\w+) \{(.*?)\n\};', strip_comments(ctext), re.S)
                got = [x.strip().rstrip(',') for x in m_.group(2).split('\n') if x.strip() and not x.strip().startswith('[')] if m_ else None
                want = [v(m['attrs']['cppcli'].get('name')) for m in d['members']]
                stats['cppcli_members'] += len(names)
                if all(want) and got != want:
                    issues.append({'kind': 'cppcli-enum-items', 'decl': d['name'], 'declared': names, 'expected': want, 'generated': got})
        elif d['k'] == 'Record':
            fields = [m for m in d['members']]
            if otext is not None and 'objc' not in d['targets']:
                got = []
                for ln in strip_comments(otext).split('\n'):
                    m_ = re.match(r'@property \(([^)]*)\) (.*?)\s*(\w+);?\s*$', ln)
                    if m_:
                        got.append((m_.group(2).strip(), m_.group(3)))
                want = [(v(m['attrs']['objc'].get('type_decl')), v(m['attrs']['objc'].get('name'))) for m in fields]
                stats['objc_members'] += len(want)
                if all(a and b for a, b in want) and got != [(a.strip(), b) for a, b in want]:
                    issues.append({'kind': 'objc-record-properties', 'decl': d['name'], 'declared': [m['name'] for m in fields], 'expected': want, 'generated': got})
                # both initialisers: one  [label]:(type)name  part per field, in order
                for ln in strip_comments(otext).split('\n'):
                    if re.match(r'[-+] \(nonnull instancetype\)', ln) and fields:
                        parts = re.findall(r'\)(\w+)(?= \w+:|;|$)', ln)
                        if parts != [b for a, b in want]:
                            issues.append({'kind': 'objc-record-initialiser', 'decl': d['name'], 'expected': [b for a, b in want], 'generated': parts, 'line': ln[:200]})
            if ctext is not None and 'cppcli' not in d['targets']:
                body = strip_comments(ctext)
                got = re.findall(r'^\s*property (.*?) (\w+)\s*$', body, re.M)
                want = [(v(m['attrs']['cppcli'].get('typename')), v(m['attrs']['cppcli'].get('property'))) for m in fields]
                stats['cppcli_members'] += len(want)
                if all(a and b for a, b in want) and [(a.strip(), b) for a, b in got] != [(a.strip(), b) for a, b in want]:
                    issues.append({'kind': 'cppcli-record-properties', 'decl': d['name'], 'declared': [m['name'] for m in fields], 'expected': want, 'generated': got})
                priv = re.findall(r'^\s*(\S.*?) _(\w+);\s*$', body.split('private:')[-1], re.M) if 'private:' in body else []
                wantp = [(v(m['attrs']['cppcli'].get('typename')), v(m['attrs']['cppcli'].get('name'))) for m in fields]
                if all(a and b for a, b in wantp) and [(a.strip(), b) for a, b in priv] != [(a.strip(), b) for a, b in wantp]:
                    issues.append({'kind': 'cppcli-record-backing-fields', 'decl': d['name'], 'expected': wantp, 'generated': priv})
        elif d['k'] == 'Interface':
            meths = [m for m in d['members'] if m['kind'] == 'method']
            if otext is not None:
                got = []
                for ln in strip_comments(otext).split('\n'):
                    m_ = re.match(r'([-+]) \((.*?)\)(\w+)(:|;|\s|$)', ln)
                    if m_:
                        got.append((m_.group(1), m_.group(3)))
                want = [('+' if m['static'] else '-', v(m['attrs']['objc'].get('name'))) for m in meths]
                stats['objc_members'] += len(want)
                if all(b for a, b in want) and got != want:
                    issues.append({'kind': 'objc-interface-methods', 'decl': d['name'], 'declared': [m['name'] for m in meths], 'expected': want, 'generated': got})
            if ctext is not None:
                body = strip_comments(ctext).split('internal:')[0]
                got = re.findall(r'^\s*(static|virtual) (.*?) (\w+)\((.*?)\)( abstract)?;\s*$', body, re.M)
                want = [('static' if m['static'] else 'virtual', v(m['attrs']['cppcli'].get('typename')), v(m['attrs']['cppcli'].get('name')), len(m['params'])) for m in meths]
                def nparams(p_):
                    depth, n_ = 0, (1 if p_.strip() else 0)
                    for ch in p_:
                        depth += ch in '<(['; depth -= ch in '>)]'
                        n_ += (ch == ',' and depth == 0)
                    return n_
                gotn = [(a, b.strip(), c, nparams(p_), bool(ab)) for a, b, c, p_, ab in got]
                stats['cppcli_members'] += len(want)
                if all(b and c for a, b, c, n in want):
                    if [(a, b, c, n) for a, b, c, n, ab in gotn] != [(a, b.strip(), c, n) for a, b, c, n in want] or any((a == 'virtual') != ab for a, b, c, n, ab in gotn):
                        issues.append({'kind': 'cppcli-interface-methods', 'decl': d['name'], 'declared': [m['name'] for m in meths], 'expected': want, 'generated': gotn})
    return issues


def judge_program(args):
    c, o, tree = args
    issues = []
    stats = {'java_members': 0, 'cpp_asserts': 0, 'cpp_unjudgeable_decls': 0, 'objc_members': 0, 'cppcli_members': 0}
    issues += text_inventory(o, tree, stats)
    ok, err, work = jvm_judge.compile_java(tree)
    try:
        if not ok:
            return issues + [{'kind': 'java-does-not-compile', 'detail': err[-600:]}], stats
        jp = jvm_judge.javap(work)
    finally:
        shutil.rmtree(work, ignore_errors=True)
    asserts = ['#include <type_traits>', '#include <memory>', '#include <string>', '#include <vector>', '#include <optional>', '#include <chrono>',
               '#include <unordered_map>', '#include <unordered_set>', '#include <cstdint>']
    # C++ has no std::hash for time_point / vector / records: a declaration that (transitively) mentions set<X> / map<X, _> with such
    # an X does not compile at all (recorded under C01); it is left out of the C++ judge so that the others are still judged
    HASHABLE = {'bool', 'i8', 'i16', 'i32', 'i64', 'f32', 'f64', 'string'}
    def bad_key(t):
        if t is None or t['target'] is None:
            return False
        tg = t['target']
        if tg['builtin'] and tg['name'] in ('set', 'map') and t['params']:
            k = t['params'][0]
            kt = k['target']
            if kt is None or k['opt'] or not ((kt['builtin'] and kt['name'] in HASHABLE) or kt['prim'] == 'enum'):
                return True
        return any(bad_key(p) for p in t['params'])
    def trefs_of(d):
        out = []
        for m in d.get('members', []):
            if m.get('type'):
                out.append(m['type'])
            if m.get('ret'):
                out.append(m['ret'])
            for p in m.get('params', []) or []:
                out.append(p['type'])
        if d.get('ret'):
            out.append(d['ret'])
        return out
    def names_in(t, acc):
        if t is None or t['target'] is None:
            return
        if not t['target']['builtin']:
            acc.add(('.'.join(t['target']['ns'] + [t['target']['name']])))
        for p in t['params']:
            names_in(p, acc)
    # a record with the cpp target is generated as <name>_base and completed by a user-written header: nothing to judge without it
    unj = {'.'.join(d['ns'] + [d['name']]) for d in o['decls'] if any(bad_key(t) for t in trefs_of(d)) or (d['k'] == 'Record' and 'cpp' in d['targets'])}
    changed = True
    while changed:
        changed = False
        for d in o['decls']:
            key_ = '.'.join(d['ns'] + [d['name']])
            if key_ in unj:
                continue
            acc = set()
            for t in trefs_of(d):
                names_in(t, acc)
            if acc & unj:
                unj.add(key_); changed = True
    stats['cpp_unjudgeable_decls'] = len(unj)
    cpp_ok = lambda d: '.'.join(d['ns'] + [d['name']]) not in unj
    for d in o['decls']:
        hv = d['attrs']['cpp'].get('header', {}).get('v') if isinstance(d['attrs'].get('cpp'), dict) else None
        if hv and cpp_ok(d) and ('out/cpp/' + hv) in tree:
            asserts.append('#include "%s"' % hv)
    for d in o['decls']:
        if d['anonymous']:
            continue
        jcls = '/'.join(['com/ex'] + [n.lower() for n in d['ns']] + [pascal(d['name'])])
        cname = v(d['attrs']['cpp'].get('typename')) or ('::' + '::'.join(d['ns'] + [pascal(d['name'])]))
        if d['k'] == 'Record' and not d['targets']:
            cj = jp.get(jcls)
            if cj is None:
                issues.append({'kind': 'java-class-missing', 'decl': d['name'], 'expected': jcls}); continue
            want = [(camel(m['name']), jdesc(m['type'])) for m in d['members'] if m['type']['target'] is not None]
            got = [(n, re.sub(r'L[\w/]*/Function_\w*;', 'L*;', dsc)) for n, (dsc, fl) in cj['fields'].items() if 'static' not in fl]
            stats['java_members'] += len(want)
            if got != want:
                issues.append({'kind': 'java-record-fields', 'decl': d['name'], 'declared': [m['name'] for m in d['members']], 'expected': want, 'generated': got})
            ctor = ('<init>', '(%s)V' % ''.join(x[1] for x in want))
            if ctor[1] not in [re.sub(r'L[\w/]*/Function_\w*;', 'L*;', k[1]) for k in cj['methods'] if k[0] == '<init>']:
                issues.append({'kind': 'java-record-constructor', 'decl': d['name'], 'expected': ctor[1],
                               'generated': [k[1] for k in cj['methods'] if k[0] == '<init>']})
            ctys = [ctype(m['type']) for m in d['members']]
            if all(x is not None for x in ctys) and cpp_ok(d):
                for m, ct in zip(d['members'], ctys):
                    asserts.append('static_assert(std::is_same_v<decltype(%s::%s), const %s>, "%s.%s");' % (cname, m['name'], ct, d['name'], m['name']))
                asserts.append('static_assert(std::is_constructible_v<%s%s>, "%s ctor");' % (cname, ''.join(', ' + x for x in ctys), d['name']))
                # declaration order: aggregate layout offsets increase with the declaration order
                stats['cpp_asserts'] += len(ctys) + 1
        elif d['k'] == 'Interface':
            cj = jp.get(jcls)
            if cj is None:
                issues.append({'kind': 'java-class-missing', 'decl': d['name'], 'expected': jcls}); continue
            want = []
            for m in d['members']:
                if m['kind'] != 'method' or not all(p['type']['target'] for p in m['params']) or (m['ret'] and not m['ret']['target']):
                    continue
                ret = 'Ljava/util/concurrent/CompletableFuture;' if m['asyn'] else (jdesc(m['ret']) if m['ret'] else 'V')
                want.append((camel(m['name']), '(%s)%s' % (''.join(jdesc(p['type']) for p in m['params']), ret), m['static']))
            got = [(n, re.sub(r'L[\w/]*/Function_\w*;', 'L*;', dsc), 'static' in fl) for (n, dsc), fl in cj['methods'].items() if n != '<init>' and 'private' not in fl]
            stats['java_members'] += len(want)
            if got != want:
                issues.append({'kind': 'java-interface-methods', 'decl': d['name'], 'expected': want, 'generated': got})
            for m in d['members']:
                if m['kind'] != 'method' or m['asyn'] or not cpp_ok(d):
                    continue
                ptys = [ctype(p['type']) for p in m['params']]
                rty = ctype(m['ret']) if m['ret'] else 'void'
                if rty is None or any(x is None for x in ptys):
                    continue
                ps = ', '.join(x if by_value(p['type']) else 'const %s &' % x for x, p in zip(ptys, m['params']))
                ne = ' noexcept' if m['throws'] is None else ''
                if m['static']:
                    asserts.append('static_assert(std::is_same_v<decltype(&%s::%s), %s (*)(%s)%s>, "%s.%s");' % (cname, m['name'], rty, ps, ne, d['name'], m['name']))
                else:
                    asserts.append('static_assert(std::is_same_v<decltype(&%s::%s), %s (%s::*)(%s)%s%s>, "%s.%s");' %
                                   (cname, m['name'], rty, cname, ps, ' const' if m['const'] else '', ne, d['name'], m['name']))
                stats['cpp_asserts'] += 1
            if cpp_ok(d):
              asserts.append('static_assert(std::is_abstract_v<%s> == %s, "%s abstract");' %
                           (cname, 'true' if any(m['kind'] == 'method' and not m['static'] for m in d['members']) else 'false', d['name']))
        elif d['k'] in ('Enum', 'Flags'):
            cj = jp.get(jcls)
            if cj is None:
                issues.append({'kind': 'java-class-missing', 'decl': d['name'], 'expected': jcls}); continue
            consts = [n for n, (dsc, fl) in cj['fields'].items() if 'static' in fl and dsc == 'L%s;' % jcls]
            want = [m['name'].upper() for m in d['members'] if not (m.get('none') or m.get('all'))]
            stats['java_members'] += len(want)
            if consts != want:
                issues.append({'kind': 'java-enum-constants', 'decl': d['name'], 'expected': want, 'generated': consts})
            for i, m in enumerate(d['members'] if cpp_ok(d) else []):
                asserts.append('static_assert(std::is_enum_v<%s>, "%s"); constexpr auto v_%s_%d = %s::%s;' %
                               (cname, d['name'], re.sub(r'\W', '_', cname), i, cname, m['name'].upper()))
                stats['cpp_asserts'] += 1
        elif d['k'] == 'ErrorDomain':
            for m in d['members']:
                cc = jp.get(jcls + '$' + pascal(m['name']))
                stats['java_members'] += 1
                if cc is None:
                    issues.append({'kind': 'java-error-code-missing', 'decl': d['name'], 'code': m['name']}); continue
                if not all(p['type']['target'] for p in m.get('params', [])):
                    continue
                sig = '(%s)V' % ''.join(jdesc(p['type']) for p in m.get('params', []))
                if ('<init>', sig) not in cc['methods']:
                    issues.append({'kind': 'java-error-code-constructor', 'decl': d['name'], 'code': m['name'], 'expected': sig,
                                   'generated': [k[1] for k in cc['methods'] if k[0] == '<init>']})
    # C++ judge
    work = Path(tempfile.mkdtemp(prefix='pdv-c02-'))
    try:
        for rel, text in tree.items():
            if rel.startswith('out/cpp/'):
                p = work / rel
                p.parent.mkdir(parents=True, exist_ok=True)
                p.write_text(text)
        (work / 'out/cpp/judge.cpp').write_text('\n'.join(asserts) + '\nint main() { return 0; }\n')
        p = subprocess.run(['g++', '-std=c++20', '-fsyntax-only', '-w', '-I', str(work / 'out/cpp'), str(work / 'out/cpp/judge.cpp')],
                           capture_output=True, text=True, timeout=600)
        if p.returncode != 0:
            errs = [l for l in p.stderr.splitlines() if 'error' in l]
            sa = [l for l in errs if 'static assertion failed' in l and 'judge.cpp' in l]
            if sa:
                issues.append({'kind': 'cpp-declaration-differs', 'detail': sa[:5], 'first': sa[0][-200:]})
            else:
                issues.append({'kind': 'cpp-judge-does-not-compile', 'detail': errs[:6]})
    finally:
        shutil.rmtree(work, ignore_errors=True)
    return issues, stats


STY = {'none': 'SNone', 'camelCase': 'SCamel', 'PascalCase': 'SPascal', 'snake_case': 'SSnake', 'kebab-case': 'SKebab', 'TRAIN_CASE': 'STrain'}
WORDS = ['foo', 'Bar', 'vec3d', '2nd', 'x2y', '4k', 'URL', 'a', 'http2Server', 'i18n', 'X', 'my', 'item9', 'ID3v2']


def kident(ctx, r):
    names = list(WORDS)
    for _ in range(ctx.n(150, 1500)):
        names.append('_'.join(r.choice(WORDS) for _ in range(r.randint(1, 4))) + r.choice(['', '', '_', '__x']))
    cases = []
    for nm in names:
        for st in STY:
            cases.append([nm, st, r.choice([None, None, 'PD', 'k_'])])
    ok, res = run_impl('ident_ops', {'cases': cases}, timeout=600)
    if not ok:
        ctx.broken.append({'kind': 'harness', 'name': 'ident_ops driver', 'detail': str(res)[-1000:]}); return
    rows = ['(convert %s %s %s, %s)' % (STY[c[1]], copt(c[2], cstr), cstr(c[0]), cstr(o.get('v', '<error>'))) for c, o in zip(cases, res['results'])]
    body = ('From Coq Require Import List String Ascii Bool.\nFrom PDV Require Import Lib.StrUtil Marshal.Ident.\nImport ListNotations. Open Scope string_scope.\n'
            'Fixpoint bad_idx (i : nat) (cs : list (string * string)) : list nat := match cs with [] => [] | c :: t => if String.eqb (fst c) (snd c) then bad_idx (S i) t else i :: bad_idx (S i) t end.\n')
    mism = []
    for s_ in range(0, len(rows), 1500):
        rc, out, err = coqtool.run_cases('kident_c02', body + 'Definition cases := %s.\nEval vm_compute in (bad_idx 0 cases).\n' % clist(rows[s_:s_ + 1500]))
        bad = coqtool.parse_nat_list(out) if rc == 0 else None
        if bad is None:
            ctx.broken.append({'kind': 'correspondence', 'name': 'K-ident (coqc failed)', 'detail': (err + out)[-1200:]}); return
        mism += [{'name': cases[s_ + i][0], 'style': cases[s_ + i][1], 'prefix': cases[s_ + i][2], 'impl': res['results'][s_ + i]} for i in bad]
    # absolute expectations (docs/idl.md naming examples): guard against model and implementation drifting together
    expect = {('vec3d_point', 'PascalCase'): 'Vec3dPoint', ('offset_2nd', 'camelCase'): 'offset2nd', ('get_x2y', 'camelCase'): 'getX2y',
              ('my_URL', 'PascalCase'): 'MyUrl', ('foo_bar', 'TRAIN_CASE'): 'FOO_BAR', ('Foo_Bar', 'snake_case'): 'foo_bar', ('foo_bar', 'kebab-case'): 'foo-bar',
              ('foo_bar', 'none'): 'foo_bar'}
    ok2, res2 = run_impl('ident_ops', {'cases': [[k[0], k[1], None] for k in expect]}, timeout=100)
    for (k, want_), o in zip(expect.items(), res2['results'] if ok2 else []):
        if o.get('v') != want_:
            ctx.add_violation({'kind': 'identifier-style', 'style': k[1]}, "convert('%s', %s) = %r, the style requires %r" % (k[0], k[1], o.get('v'), want_),
                              {'name': k[0], 'style': k[1], 'got': o, 'expected': want_})
    ctx.add_corr('K-ident', len(rows), len(names), mism, [{'case': cases[0], 'impl': res['results'][0]}], {'names': len(names), 'styles': 6},
                 'IdentifierType.convert on names built from words with digits/upper-case runs/empty segments x 6 styles x optional prefix vs Marshal/Ident.v')


def run(ctx):
    r = random.Random(ctx.rng.random())
    kident(ctx, r)
    want = {'decl': ['name', 'typename', 'header'], 'field': ['name', 'type_spec', 'data_type', 'type_decl', 'typename', 'property'],
            'param': ['name', 'type_spec', 'data_type', 'type_decl', 'typename'],
            'method': ['name', 'type_spec', 'return_type', 'type_decl', 'typename', 'prefix_specifiers', 'postfix_specifiers'],
            'item': ['name'], 'flag': ['name'], 'code': ['name']}
    opts = {'generate': dict(copy.deepcopy(FULL), support_lib_sources=True)}
    opts['generate']['cpp']['string_serialization'] = False
    progs = []
    for k in range(ctx.n(1, 4)):
        progs.append({'m.pydjinni': matrix_program(r, ctx.n(15, 40), 'k%d' % k)})
    for i in range(ctx.n(25, 250)):
        g = gen_idl.Gen(r, max_decls=r.choice([4, 8]), p_comment=0.05, multi_file=0.0, shadowing=0.0, acyclic=True)
        g.deriving_choices = [None, [], ['eq']]
        p = g.program()
        for dd, _ns in gen_idl.walk_items(p['files'][p['root']]['items']):
            if dd['k'] == 'flags':      # `all` flags are finding C08-K1 (the C++ enumeration may not compile): keep them out of this judge
                for fl_ in dd['flags']:
                    if fl_['mod'] == 'all':
                        fl_['mod'] = None
        files = gen_idl.print_program(p, None, 'canon')
        progs.append({'main.pydjinni' if 'main.pydjinni' in files else list(files)[0]: files[p['root']]} if len(files) == 1 else files)
    mcases = [{'files': f, 'root': list(f)[0], 'options': opts, 'want': want} for f in progs]
    ok, res = run_impl('marshal_dump', {'cases': mcases}, timeout=1800)
    if not ok:
        ctx.broken.append({'kind': 'harness', 'name': 'marshal_dump driver', 'detail': str(res)[-1500:]}); return
    kmarshal(ctx, mcases, res)
    # K-jinja on the record member loops
    frags = [{'gen': 'cpp', 'template': 'header/record.jinja2.hpp', 'attr': 'fields', 'index': i, 'decl_class': 'Record'} for i in range(3)] + \
            [{'gen': 'java', 'template': 'record.jinja2.java', 'attr': 'fields', 'index': i, 'decl_class': 'Record'} for i in range(4)] + \
            [{'gen': 'cpp', 'template': 'header/interface.jinja2.hpp', 'attr': 'methods', 'index': 0, 'decl_class': 'Interface'},
             {'gen': 'java', 'template': 'interface.jinja2.java', 'attr': 'methods', 'index': 0, 'decl_class': 'Interface', 'macros': ['parameters']}] + \
            [{'gen': 'objc', 'template': 'header/record.jinja2.h', 'attr': 'fields', 'index': i, 'decl_class': 'Record'} for i in range(3)] + \
            [{'gen': 'cppcli', 'template': 'header/record.jinja2.hpp', 'attr': 'fields', 'index': i, 'decl_class': 'Record'} for i in range(3)] + \
            [{'gen': 'objc', 'template': 'header/interface.jinja2.h', 'attr': 'methods', 'index': 0, 'decl_class': 'Interface'},
             {'gen': 'cppcli', 'template': 'header/interface.jinja2.hpp', 'attr': 'methods', 'index': 0, 'decl_class': 'Interface'},
             {'gen': 'java', 'template': 'enum.jinja2.java', 'attr': 'items', 'index': 0, 'decl_class': 'Enum'},
             {'gen': 'objc', 'template': 'header/enum.jinja2.h', 'attr': 'items', 'index': 0, 'decl_class': 'Enum'},
             {'gen': 'cppcli', 'template': 'header/enum.jinja2.hpp', 'attr': 'items', 'index': 0, 'decl_class': 'Enum'}]
    jc = [{'files': f, 'root': list(f)[0], 'options': opts, 'fragments': frags} for f in progs[:ctx.n(12, 60)]]
    mism, flat = kjinja.run(ctx, 'c02', jc)
    if flat is not None:
        ctx.add_corr('K-jinja/record-decl', len(flat), len({f['decl'] for f in flat}), [{'fragment': m['fragment'], 'decl': m['decl'], 'impl_text': m['text']} for m in (mism or [])],
                     [{'fragment': flat[0]['fragment'], 'text': flat[0]['text']}] if flat else [], {'renders': len(flat)},
                     'member / constructor / initialiser / getter loops of the C++ and Java record templates rendered by Jinja on the real objects vs the TIR interpreter')
    # judges
    gcases = [{'files': f, 'options': opts, 'ops': [['parse', list(f)[0]], ['generate', 'cpp'], ['generate', 'java'], ['generate', 'objc'], ['generate', 'cppcli']], 'keep_content': True,
               'include_support': True, 'timeout_s': 120} for f in progs]
    ok2, res2 = run_impl('gen_run', {'cases': gcases}, timeout=3000)
    if not ok2:
        ctx.broken.append({'kind': 'harness', 'name': 'gen_run driver', 'detail': str(res2)[-1500:]}); return
    todo = []
    stats = {'programs': len(progs), 'rejected_or_failed': 0, 'path_collision': 0, 'java_does_not_compile': 0, 'cpp_judge_does_not_compile': 0, 'judged': 0,
             'java_members': 0, 'cpp_asserts': 0, 'objc_members': 0, 'cppcli_members': 0}
    for c, mo, go in zip(mcases, res['results'], res2['results']):
        if mo['outcome'] != 'ok' or 'steps' not in go or any(s['r'] != 'ok' for s in go['steps']):
            stats['rejected_or_failed'] += 1; continue
        writes = {}
        for s_ in go['steps']:
            for w in s_.get('writes', []):
                if w[0] == 'write':
                    writes.setdefault(w[1], set()).add(w[2])
        if any(len(x) > 1 for x in writes.values()):
            stats['path_collision'] += 1; continue
        todo.append((c, mo, go['tree']))
    with ThreadPoolExecutor(max_workers=12) as ex:
        judged = list(ex.map(judge_program, todo))
    for (c, mo, tree), (issues, st) in zip(todo, judged):
        skip = False
        for i in issues:
            if i['kind'] == 'java-does-not-compile':
                stats['java_does_not_compile'] += 1; skip = True
                stats.setdefault('javac_example', i['detail'][-300:])
            elif i['kind'] == 'cpp-judge-does-not-compile':
                stats['cpp_judge_does_not_compile'] += 1
                stats.setdefault('cpp_example', i['detail'][:3])
                stats.setdefault('cpp_example_files', c['files'])
                key_ = re.sub(r'^\S+?:\d+:\d+: ', '', i['detail'][0])[:70] if i['detail'] else '?'
                stats.setdefault('cpp_errors', {})
                stats['cpp_errors'][key_] = stats['cpp_errors'].get(key_, 0) + 1
        if skip:
            continue
        stats['judged'] += 1
        stats['java_members'] += st['java_members']; stats['cpp_asserts'] += st['cpp_asserts']
        stats['objc_members'] += st.get('objc_members', 0); stats['cppcli_members'] += st.get('cppcli_members', 0)
        for i in issues:
            if i['kind'] in ('cpp-judge-does-not-compile',):
                continue
            ctx.add_violation({'kind': i['kind']}, json.dumps(i)[:500], {'issue': i, 'files': c['files']})
    ctx.extra_cov['declaration_judges'] = stats
    ctx.log.append('declaration judges: %s' % json.dumps(stats)[:900])
    if stats['judged'] < 0.5 * len(progs):
        ctx.broken.append({'kind': 'harness', 'name': 'C02 judges', 'detail': 'only %d of %d programs judged: %s' % (stats['judged'], len(progs), json.dumps(stats)[:800])})
