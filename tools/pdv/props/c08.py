"""C08 - Enum and flag constants have the same numeric value in every target language."""
import itertools, json, random, re
from .. import kjinja
from .c17 import FULL

TRUSTED = ['Jinja2 lexer/parser (the translator uses the generator\'s own environment) and runtime (the fragment is rendered by Jinja itself on the real objects)',
           'C/C++/Objective-C/C++-CLI give an enumerator with initialiser e the value of e and see only earlier enumerators; Java ordinals follow declaration order',
           'JniFlags::flags/create in the support library convert by 1u << ordinal: modelled in Lang/JniFlags.v, exercised by J-runtime (the generated glue and the '
           'shipped support library are built with g++ / javac and every constant is sent across the boundary in both directions in a JVM)']
ASSUMPTIONS = ['model = TIR interpreter (Jinja/Interp.v) on coq/Gen/Templates.v regenerated from /repo each run; render lemmas in Jinja/Frag*.v; '
               'meaning of the printed enumerators in Lang/EnumBody.v',
               'known finding C08-K1: an `all` flag before an ordinary flag (or with no ordinary flag at all) gives a body that does not compile']

FRAGS = [{'gen': 'cpp', 'template': 'header/flags.jinja2.hpp', 'attr': 'flags', 'decl_class': 'Flags', 'counter': True},
         {'gen': 'objc', 'template': 'header/flags.jinja2.h', 'attr': 'flags', 'decl_class': 'Flags', 'counter': True},
         {'gen': 'cppcli', 'template': 'header/flags.jinja2.hpp', 'attr': 'flags', 'decl_class': 'Flags', 'counter': True},
         {'gen': 'java', 'template': 'flags.jinja2.java', 'attr': 'flags', 'decl_class': 'Flags'},
         {'gen': 'cpp', 'template': 'header/enum.jinja2.hpp', 'attr': 'items', 'decl_class': 'Enum'},
         {'gen': 'java', 'template': 'enum.jinja2.java', 'attr': 'items', 'decl_class': 'Enum'},
         {'gen': 'objc', 'template': 'header/enum.jinja2.h', 'attr': 'items', 'decl_class': 'Enum'},
         {'gen': 'cppcli', 'template': 'header/enum.jinja2.hpp', 'attr': 'items', 'decl_class': 'Enum'}]
NAMES = ['a', 'b', 'c', 'd', 'first', 'second', 'x_y', 'value', 'count', 'is_ok', 'k1', 'm2', 'long_name_here', 'q', 'r', 's', 't', 'u', 'v', 'w']


def strip_comments(text):
    text = re.sub(r'/\*.*?\*/', '', text, flags=re.S)
    return '\n'.join(l for l in text.split('\n') if not l.strip().startswith('//') and not l.strip().startswith('@') and not l.strip().startswith('['))


def eval_enumerators(text):
    """[(name, value or None)] with C scoping; value None = not a constant expression in scope"""
    body = strip_comments(text)
    out, env, prev = [], {}, -1
    for part in body.replace(';', ',').split(','):
        part = re.sub(r'\[\[.*?\]\]|DEPRECATED\w*(\(".*?"\))?', '', part.strip()).strip()
        if not part:
            continue
        if '=' in part:
            name, expr = [x.strip() for x in part.split('=', 1)]
            try:
                val = 0
                for term in expr.split('|'):
                    term = term.strip()
                    m = re.fullmatch(r'1u\s*<<\s*(\d+)', term)
                    if m:
                        val |= 1 << int(m.group(1))
                    elif re.fullmatch(r'\d+', term):
                        val |= int(term)
                    elif term in env and env[term] is not None:
                        val |= env[term]
                    else:
                        raise KeyError(term)
            except KeyError:
                val = None
        else:
            name, val = part, prev + 1
        env[name] = val
        prev = val if val is not None else prev
        out.append((name, val))
    return out


def flags_idl(name, flags):
    return '%s = flags { %s }' % (name, ' '.join((('# doc %d\n ' % i) if cm else '') + (('# @deprecated use x\n ') if dep else '') + n +
                                                 (' = none' if k == 'none' else ' = all' if k == 'all' else '') + ';'
                                                 for i, (n, k, cm, dep) in enumerate(flags)))


def run(ctx):
    r = random.Random(ctx.rng.random())
    decls = []
    # every none/all pattern up to length 3 (quick) / 5 (thorough), then random longer lists
    maxn = 5 if ctx.thorough else 3
    for n in range(0, maxn + 1):
        for pat in itertools.product(['ord', 'none', 'all'], repeat=n):
            decls.append(('flags', [(NAMES[i], k, False, False) for i, k in enumerate(pat)]))
    for _ in range(ctx.n(40, 400)):
        n = r.randint(1, 18)
        decls.append(('flags', [(nm, r.choice(['ord', 'ord', 'ord', 'none', 'all']), r.random() < 0.2, r.random() < 0.15) for nm in r.sample(NAMES, n)]))
    for _ in range(ctx.n(20, 200)):
        n = r.randint(0, 15)
        decls.append(('enum', [(nm, r.random() < 0.2, r.random() < 0.15) for nm in r.sample(NAMES, n)]))
    cases, per = [], 12
    for s in range(0, len(decls), per):
        lines = []
        for i, (k, d) in enumerate(decls[s:s + per]):
            if k == 'flags':
                lines.append(flags_idl('t%d' % i, d))
            else:
                lines.append('t%d = enum { %s }' % (i, ' '.join((('# doc\n ') if cm else '') + (('# @deprecated\n ') if dep else '') + n + ';' for n, cm, dep in d)))
        cases.append({'files': {'a.djinni': '\n'.join(lines) + '\n'}, 'root': 'a.djinni', 'options': {'generate': dict(FULL)}, 'fragments': FRAGS})
    mism, flat = kjinja.run(ctx, 'c08', cases)
    if flat is None:
        return
    # group the renders per declaration
    by = {}
    for f in flat:
        by.setdefault((json.dumps(f['files']), f['decl']), {})[(f['fragment']['gen'], f['fragment']['attr'])] = f
    dist = {'declarations': len(decls), 'renders': len(flat), 'flag_lists_with_all_before_ordinary': 0, 'max_flags': max((len(d) for k, d in decls if k == 'flags'), default=0)}
    idx = 0
    for ci, c in enumerate(cases):
        for i, (k, d) in enumerate(decls[ci * per:(ci + 1) * per]):
            rs = by.get((json.dumps(c['files']), 't%d' % i), {})
            rep = {'declaration': [k, d], 'idl': c['files']['a.djinni'].split('\n')[i] if False else None}
            for key, f in rs.items():
                if f.get('error'):
                    ctx.add_violation({'kind': 'render-error', 'generator': key[0], 'exc': f['error'].split(':')[0]}, 'template failed: %s' % f['error'], {'decl': [k, d]})
            if k == 'flags':
                ordn = [n for n, kk, _, _ in d if kk == 'ord']
                bad_order = any(kk == 'all' and any(k2 == 'ord' for _, k2, _, _ in d[j + 1:]) for j, (_, kk, _, _) in enumerate(d))
                dist['flag_lists_with_all_before_ordinary'] += bad_order
                vals = {}
                for g in ('cpp', 'objc', 'cppcli'):
                    f = rs.get((g, 'flags'))
                    if not f or f.get('text') is None:
                        continue
                    ev = eval_enumerators(f['text'])
                    vals[g] = [v for _, v in ev]
                    if len(ev) != len(d):
                        ctx.add_violation({'kind': 'enumerator-count', 'generator': g}, '%d enumerators for %d flags' % (len(ev), len(d)), {'flags': d, 'text': f['text']}); continue
                    oi = 0
                    for (n, kk, _, _), (en, v) in zip(d, ev):
                        if v is None:
                            all_no_ord = kk == 'all' and not ordn
                            ctx.add_violation({'kind': 'all-flag-not-constant', 'cause': 'no-ordinary-flag' if all_no_ord else 'all-before-ordinary'},
                                              "%s: value of '%s' uses an enumerator that is not declared yet (or nothing at all): does not compile" % (g, n),
                                              {'flags': d, 'text': f['text'], 'generator': g})
                            continue
                        want = (1 << oi) if kk == 'ord' else 0 if kk == 'none' else None
                        if kk == 'ord':
                            oi += 1
                        if kk == 'all':
                            want = sum(1 << j for j in range(len(ordn)))
                        if v != want:
                            ctx.add_violation({'kind': 'wrong-flag-value', 'generator': g, 'flag_kind': kk},
                                              "%s: flag '%s' (%s) has value %s, expected %s" % (g, n, kk, v, want), {'flags': d, 'text': f['text']})
                if len({json.dumps(v) for v in vals.values()}) > 1:
                    ctx.add_violation({'kind': 'targets-disagree'}, 'cpp/objc/cppcli number the flags differently: %s' % vals, {'flags': d})
                f = rs.get(('java', 'flags'))
                if f and f.get('text') is not None:
                    jn = [n for n, _ in eval_enumerators(f['text'])]
                    if [x.upper() for x in ordn] != [x.upper() for x in jn]:
                        ctx.add_violation({'kind': 'java-ordinals', 'what': 'flags'}, 'Java enum lists %s, ordinary flags are %s' % (jn, ordn), {'flags': d, 'text': f['text']})
            else:
                names = [n for n, _, _ in d]
                for g in ('cpp', 'java', 'objc', 'cppcli'):
                    f = rs.get((g, 'items'))
                    if f and f.get('text') is not None:
                        ev = eval_enumerators(f['text'])
                        if [v for _, v in ev] != list(range(len(names))) or len(ev) != len(names):
                            ctx.add_violation({'kind': 'enum-ordinals', 'generator': g}, '%s: enum items %s for %s' % (g, ev, names), {'items': d, 'text': f['text']})
    # ---- the files the real pipeline writes (several flags types per run: the numbering of one type must not depend on the types rendered before it)
    from ..common import run_impl
    gcases = [{'files': c['files'], 'options': {'generate': dict(FULL, support_lib_sources=False)}, 'keep_content': True, 'timeout_s': 120,
               'ops': [['parse', 'a.djinni'], ['generate', 'cpp'], ['generate', 'objc'], ['generate', 'cppcli']]} for c in cases[:ctx.n(6, 40)]]
    ok, gres = run_impl('gen_run', {'cases': gcases}, timeout=3000)
    if not ok:
        ctx.broken.append({'kind': 'harness', 'name': 'gen_run driver', 'detail': str(gres)[-1200:]}); return
    dist['generated_flag_enumerations'] = 0
    for gc, go in zip(gcases, gres['results']):
        if 'steps' not in go:
            ctx.broken.append({'kind': 'harness', 'name': 'gen_run case', 'detail': json.dumps(go)[:600]}); continue
        for path, text in sorted(go['tree'].items()):
            gen_ = path.split('/')[1] if path.startswith('out/') else None
            if gen_ not in ('cpp', 'objc', 'cppcli') or not re.search(r'1u\s*<<', text):
                continue
            for m_ in re.finditer(r'(?:enum class \w+[^{;]*|NS_OPTIONS\(\w+, \w+\)\s*)\{(.*?)\n\}', text, re.S):
                shifts = [int(x) for x in re.findall(r'1u\s*<<\s*(\d+)', m_.group(1))]
                if not shifts:
                    continue
                dist['generated_flag_enumerations'] += 1
                if shifts != list(range(len(shifts))):
                    ctx.add_violation({'kind': 'flag-bits-in-generated-file', 'generator': gen_},
                                      '%s: the ordinary flags of one type are numbered %s in the file the pipeline wrote (must be 0, 1, 2, ... per type)' % (path, shifts),
                                      {'files': gc['files'], 'path': path, 'text': text[:1500]})
    # ---- J-runtime: every constant crosses the C++ <-> Java boundary at run time (generated glue + the shipped JNI support library, built and run)
    from .. import jni_runtime
    specs = [['ord'], ['ord', 'none', 'ord', 'ord', 'all'], ['ord'] * 31, ['ord'] * 32, ['none', 'ord', 'ord', 'all']]
    sizes = [1, 3, 17]
    if ctx.thorough:
        for _ in range(6):
            k = r.randint(1, 30)
            sp = ['ord'] * k
            if r.random() < 0.5:
                sp.insert(r.randrange(len(sp) + 1), 'none')
            if r.random() < 0.5:
                sp.append('all')
            specs.append(sp)
        sizes += [r.randint(2, 60) for _ in range(3)]
    idl, rt_enums, rt_flags = jni_runtime.program(sizes, specs)
    ok, rres = run_impl('gen_run', {'cases': [{'files': {'a.djinni': idl}, 'options': jni_runtime.OPTIONS, 'keep_content': True, 'include_support': True, 'timeout_s': 120,
                                               'ops': [['parse', 'a.djinni'], ['generate', 'cpp'], ['generate', 'java']]}]}, timeout=900)
    rt = {'enum_sizes': sizes, 'flag_specs': [''.join(x[0] for x in sp) for sp in specs], 'mismatches': None}
    if not ok or 'steps' not in rres['results'][0] or any(s_['r'] != 'ok' for s_ in rres['results'][0]['steps']):
        ctx.broken.append({'kind': 'harness', 'name': 'J-runtime generation', 'detail': json.dumps(rres)[:1200] if ok else str(rres)[-1200:]})
    else:
        try:
            mis = jni_runtime.build_and_run(rres['results'][0]['tree'], rt_enums, rt_flags)
            rt['mismatches'] = len(mis)
            if mis:
                ctx.add_violation({'kind': 'value-changes-crossing-the-language-boundary', 'direction': 'C++->Java' if 'C++->Java' in mis[0] else 'Java->C++'},
                                  'built and run (generated C++/Java/JNI + support library): %d constants change their value crossing the boundary, e.g. %s' % (len(mis), mis[:3]),
                                  {'idl': idl, 'mismatches': mis[:40], 'how': 'tools/pdv/jni_runtime.py: g++ -shared, javac, java'})
        except jni_runtime.JudgeProblem as e:
            ctx.broken.append({'kind': 'harness', 'name': 'J-runtime build', 'detail': str(e)[-1500:]})
    ctx.extra_cov['jni_runtime'] = rt
    mm = [{'fragment': m['fragment'], 'decl': m['decl'], 'impl_text': m['text'], 'files': m['files']} for m in (mism or [])]
    ctx.add_corr('K-jinja/enums', len(flat), len({(f['decl'], json.dumps(f['files'])) for f in flat}), mm,
                 [{'fragment': flat[0]['fragment'], 'text': flat[0]['text']}] if flat else [], dist,
                 'flags declarations with EVERY none/all/ordinary pattern up to length %d (exhaustive) plus random lists up to 18 flags with comments and '
                 'deprecations, and random enums; the loop of each of the 8 enum/flags templates rendered by Jinja on the real objects vs the TIR '
                 'interpreter on the regenerated template; the rendered enumerators are evaluated numerically and compared across targets' % maxn)
    ctx.extra_cov['exhaustive_patterns_up_to'] = maxn
