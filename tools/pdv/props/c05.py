"""C05 - Documented semantic restrictions are enforced everywhere, and all are reported."""
import json, random
from .. import gen_idl, kfront
from .c17 import FULL

TRUSTED = ['ANTLR recognition; pydantic', 'ground truth of injected violations comes from the mutator in this file']
ASSUMPTIONS = ['model = Idl/Visitor.v (visit-time checks) + Idl/Front.v (deferred resolution, generic arity, post-resolution checks); K-front '
               'compares the multiset of diagnostics (class, code, file, line, column) of model and implementation',
               'oracle: every injected violation is reported with its rule at its file and line, nothing else is; message wording is '
               'only used to name the rule']

RULES = [
    ('error-field', 'Cannot assign an error as record field type'),
    ('interface-field', 'Cannot assign an interface as record field type'),
    ('function-field', 'functions are not allowed as record field type'),
    ('ord-collection', "Cannot compare collections in 'ord' deriving"),
    ('error-return', 'Cannot return an error from a method'),
    ('error-return-fn', 'Cannot return an error type from a function'),
    ('throws-non-error', 'Only errors can be thrown'),
    ('error-param', 'Cannot pass an error type to a method'),
    ('error-param-fn', 'Cannot pass an error type to a function'),
    ('main-not-cpp', "a 'main' interface can only be implemented in C++"),
    ('static-not-cpp', 'methods are only allowed to be static on'),
    ('static-and-const', 'method cannot be both static and const'),
    ('bad-deriving', 'is not a valid record extension'),
    ('bad-flag-modifier', "expected 'all' or 'none'"),
    ('unknown-target', 'Unknown interface target'),
    ('no-generics', 'does not accept generic parameters'),
    ('generic-arity', 'Invalid number of generic parameters'),
    ('unknown-type', 'Unknown type'),
]


def rule_of(desc):
    for tag, frag in RULES:
        if frag in desc:
            return tag
    return 'other:' + desc[:40]


def data(name, params=(), opt=False):
    return {'k': 'data', 'name': name, 'params': list(params), 'opt': opt}


def all_decls(prog):
    out = []
    for p, f in prog['files'].items():
        for d, ns in gen_idl.walk_items(f['items']):
            out.append((p, d, ns))
    return out


def new_decl(r, prog, kind):
    """append a fresh declaration of that kind somewhere (root file, random namespace depth)"""
    n = 'inj_%s_%d' % (kind, r.randint(0, 9999))
    d = {'k': kind, 'name': n, 'comment': None}
    if kind == 'record':
        d.update(fields=[{'name': 'f0', 'comment': None, 'type': data('i32')}, {'name': 'f1', 'comment': None, 'type': data('string')}],
                 deriving=None, targets=[])
    elif kind == 'interface':
        d.update(main=False, targets=['+cpp'], members=[
            {'k': 'method', 'name': 'm%d' % i, 'comment': None, 'static': False, 'const': False, 'async': False,
             'params': [{'name': 'p', 'type': data('i32')}], 'throws': None, 'ret': None} for i in range(r.randint(1, 4))])
    elif kind == 'function':
        d.update(fn={'k': 'fn', 'targets': [], 'params': [{'name': 'p', 'type': data('i32')}], 'throws': None, 'ret': None})
    elif kind == 'flags':
        d.update(flags=[{'name': 'a', 'comment': None, 'mod': None}, {'name': 'b', 'comment': None, 'mod': None}])
    item = d
    f = r.choice(list(prog['files']))
    depth = r.randint(0, 3)
    for _ in range(depth):
        item = {'k': 'namespace', 'name': r.choice(gen_idl.NS_POOL), 'comment': None, 'items': [item]}
    prog['files'][f]['items'].append(item)
    d['_touched'] = True
    return f, d


def pick(r, prog, kind, pred=lambda d: True):
    # a declaration is broken at most once: two injections into the same declaration overwrite each other's targets / modifiers
    # (the expected list would then name a violation the printed program no longer contains)
    c = [(f, d) for f, d, ns in all_decls(prog) if d['k'] == kind and pred(d) and not d.get('_touched')]
    if c and r.random() < 0.6:
        f, d = r.choice(c)
    else:
        f, d = new_decl(r, prog, kind)
    d['_touched'] = True
    return f, d


def inject(r, prog):
    """break one rule at one site; returns (tag, file, decl) of the expected diagnostic(s)"""
    helpers = prog['files'][prog['root']]['items']
    names = {d['name'] for _, d, ns in all_decls(prog) if not ns}
    if 'zz_itf' not in names:
        helpers.insert(0, {'k': 'interface', 'name': 'zz_itf', 'comment': None, 'main': False, 'targets': [], 'members': []})
        helpers.insert(0, {'k': 'error', 'name': 'zz_err', 'comment': None, 'codes': []})
        helpers.insert(0, {'k': 'record', 'name': 'zz_rec', 'comment': None, 'fields': [], 'deriving': None, 'targets': []})
    # imported files are parsed before the root registers its helpers: violations that need a helper go to the root file
    def root_only(f_d):
        f, d = f_d
        return (f, d) if f == prog['root'] else new_decl_root(d['k'])
    def new_decl_root(kind):
        f, d = new_decl(r, prog, kind)
        if f != prog['root']:
            # move it
            for it in list(prog['files'][f]['items']):
                if any(x is d for x, _ in gen_idl.walk_items([it])):
                    prog['files'][f]['items'].remove(it)
                    prog['files'][prog['root']]['items'].append(it)
        return prog['root'], d
    rule = r.choice(['error-field', 'interface-field', 'function-field', 'ord-collection', 'error-return', 'error-return-fn',
                     'throws-non-error', 'throws-non-error-fn', 'error-param', 'error-param-fn', 'main-not-cpp', 'static-not-cpp',
                     'static-and-const', 'bad-deriving', 'bad-flag-modifier', 'unknown-target', 'no-generics', 'generic-arity', 'unknown-type',
                     'inline-fn', 'inline-fn-twice', 'main-with-static'])
    if rule in ('error-field', 'interface-field', 'function-field', 'ord-collection'):
        f, d = pick(r, prog, 'record')
        if rule != 'function-field' and rule != 'ord-collection':
            f, d = root_only((f, d))
        fld = {'name': 'vio%d' % r.randint(0, 999), 'comment': None}
        if rule == 'error-field':
            fld['type'] = data('.zz_err')
        elif rule == 'interface-field':
            fld['type'] = data('.zz_itf', opt=r.random() < 0.3)
        elif rule == 'function-field':
            fld['type'] = {'k': 'fn', 'targets': None, 'params': [], 'throws': None, 'ret': None}
        else:
            fld['type'] = data(r.choice(['list', 'set']), [data('i32')]) if r.random() < 0.7 else data('map', [data('string'), data('i32')])
            d['deriving'] = list(d['deriving'] or []) + ['ord']
        d['fields'].insert(r.randint(0, len(d['fields'])), fld)
        return [(rule, f, d)]
    if rule in ('error-return', 'error-param', 'throws-non-error', 'static-and-const', 'static-not-cpp'):
        f, d = pick(r, prog, 'interface', lambda d: any(m['k'] == 'method' for m in d['members']))
        if rule in ('error-return', 'error-param', 'throws-non-error'):
            f, d = root_only((f, d))
        ms = [m for m in d['members'] if m['k'] == 'method']
        m = r.choice(ms)
        if rule == 'error-return':
            m['ret'] = data('.zz_err')
        elif rule == 'error-param':
            m['params'].insert(r.randint(0, len(m['params'])), {'name': 'vio', 'type': data('.zz_err')})
        elif rule == 'throws-non-error':
            m['throws'] = list(m['throws'] or []) + [data(r.choice(['.zz_rec', 'i32', '.zz_itf']))]
        elif rule == 'static-and-const':
            already_bad = d['targets'] != ['+cpp']
            m['static'] = True; m['const'] = True
            return [(rule, f, d)] + ([('static-not-cpp', f, d)] if already_bad else [])
        elif rule == 'static-not-cpp':
            d['targets'] = r.choice([[], ['+java'], ['+cpp', '+java'], ['-cpp'], ['+any']])
            d['main'] = False
            m['static'] = True
            m['const'] = False          # static together with const is a second violation (static-and-const)
            extra = [('static-not-cpp', f, d)] * 0
            # every static method of this interface is now a violation
            return [(rule, f, d)]
        return [(rule, f, d)]
    if rule in ('error-return-fn', 'error-param-fn', 'throws-non-error-fn'):
        f, d = root_only(pick(r, prog, 'function'))
        fn = d['fn']
        if rule == 'error-return-fn':
            fn['ret'] = data('.zz_err')
        elif rule == 'error-param-fn':
            fn['params'].append({'name': 'vio', 'type': data('.zz_err')})
        else:
            fn['throws'] = list(fn['throws'] or []) + [data('.zz_rec')]
            return [('throws-non-error', f, d)]
        return [(rule, f, d)]
    if rule in ('inline-fn', 'inline-fn-twice'):
        # a rule broken inside an inline function type used as a method parameter; the same text possibly at two sites
        kind = r.choice(['param', 'ret', 'throws'])
        fn = {'k': 'fn', 'targets': None, 'params': [{'name': 'x', 'type': data('.zz_err' if kind == 'param' else 'i32')}],
              'throws': [data('.zz_rec')] if kind == 'throws' else None, 'ret': data('.zz_err') if kind == 'ret' else data('bool')}
        tag = {'param': 'error-param-fn', 'ret': 'error-return-fn', 'throws': 'throws-non-error'}[kind]
        out = []
        for _ in range(2 if rule == 'inline-fn-twice' else 1):
            f, d = new_decl_root('interface')
            ms = [m for m in d['members'] if m['k'] == 'method']
            import copy
            r.choice(ms)['params'].append({'name': 'cb%d' % r.randint(0, 99), 'type': copy.deepcopy(fn)})
            out.append((tag, f, d))
        return out
    if rule == 'main-with-static':
        f, d = new_decl(r, prog, 'interface')
        d['main'] = True
        d['targets'] = r.choice([[], ['+java'], ['+cpp', '+java'], ['-cpp']])
        for m in r.sample(d['members'], r.randint(1, len(d['members']))):
            m['static'] = True
        return [('main-not-cpp', f, d), ('static-not-cpp', f, d)]
    if rule == 'main-not-cpp':
        f, d = pick(r, prog, 'interface')
        d['main'] = True
        d['targets'] = r.choice([[], ['+java'], ['+cpp', '+java'], ['-cpp']])
        out = [(rule, f, d)]
        if any(m['k'] == 'method' and m['static'] for m in d['members']):
            out.append(('static-not-cpp', f, d))
        return out
    if rule == 'bad-deriving':
        f, d = pick(r, prog, 'record')
        d['deriving'] = list(d['deriving'] or []) + [r.choice(['str', 'hash', 'EQ', 'parcelable'])]
        return [(rule, f, d)]
    if rule == 'bad-flag-modifier':
        f, d = pick(r, prog, 'flags', lambda d: len(d['flags']) > 0)
        r.choice(d['flags'])['mod'] = r.choice(['every', 'zero', 'All'])
        return [(rule, f, d)]
    if rule == 'unknown-target':
        f, d = pick(r, prog, r.choice(['interface', 'record']))
        d['targets'] = list(d['targets']) + ['+' + r.choice(['swift', 'kotlin', 'js'])]
        if d['k'] == 'interface':
            d['main'] = False
            out = [(rule, f, d)]
            if any(m['k'] == 'method' and m['static'] for m in d['members']):
                out.append(('static-not-cpp', f, d))
            return out
        return [(rule, f, d)]
    if rule in ('no-generics', 'generic-arity', 'unknown-type'):
        # a collection-typed field under `ord` deriving is a second violation (ord-collection): use records that do not derive ord
        f, d = pick(r, prog, 'record', lambda d: 'ord' not in (d.get('deriving') or []))
        t = {'no-generics': lambda: data(r.choice(['i32', 'string']), [data('i32')]),
             'generic-arity': lambda: r.choice([data('list', [data('i32'), data('i32')]), data('map', [data('string')])]),
             'unknown-type': lambda: r.choice([data('does_not_exist'), data('nope', [data('i32')]), data('list', [data('missing_t')])])}[rule]()
        d['fields'].insert(r.randint(0, len(d['fields'])), {'name': 'vio%d' % r.randint(0, 999), 'comment': None, 'type': t})
        return [(rule, f, d)]
    return []


TWIN_BODIES = [
    # (rule tag, lines with {p} = per-file name prefix of equal length, 0-based index of the line the diagnostic is reported at)
    ('error-field', ['{p}_err = error {{ oops; }}', '{p}_rec = record {{', '    a: i32;', '    bad: {p}_err;', '}}'], 3),
    ('interface-field', ['{p}_ifc = interface +cpp {{ m(); }}', '{p}_rec = record {{', '    bad: {p}_ifc;', '}}'], 2),
    ('ord-collection', ['{p}_rec = record {{', '    a: i32;', '    bad: list<i32>;', '}} deriving(ord)'], 2),
    ('error-return', ['{p}_err = error {{ oops; }}', '{p}_ifc = interface +cpp {{', '    good();', '    bad() -> {p}_err;', '}}'], 3),
    ('error-param', ['{p}_err = error {{ oops; }}', '{p}_ifc = interface +cpp {{', '    bad(e: {p}_err);', '}}'], 2),
    ('throws-non-error', ['{p}_rec = record {{ a: i32; }}', '{p}_ifc = interface +cpp {{', '    bad() throws {p}_rec;', '}}'], 2),
    ('static-and-const', ['{p}_ifc = interface +cpp {{', '    ok();', '    static const bad();', '}}'], 2),
    ('bad-deriving', ['{p}_rec = record {{', '    a: i32;', '}} deriving(nonsense)'], 2),
]


def twin_case(r):
    """The same violation at the SAME line and column range in two (or three) files of one program: root imports twin(s); every file must get
    its own positioned diagnostic.  The texts differ only in the (equally long) names and in the first line."""
    k = r.choice([1, 1, 2])
    bodies = r.sample(TWIN_BODIES, r.randint(1, 3))
    names = ['aa', 'bb', 'cc'][:k + 1]
    files, exp = {}, []
    for fi, pfx in enumerate(names):
        fname = 'root.djinni' if fi == 0 else 'twin%d.djinni' % fi
        # line 1 of the root holds the imports, line 1 of a twin holds a doc comment for its first declaration
        lines = [' '.join('@import "twin%d.djinni"' % j for j in range(1, k + 1))] if fi == 0 else ['# twin file %d' % fi]
        for tag, body, at in bodies:
            exp.append((tag, fname, {'_line': len(lines) + at + 1}))
            lines += [ln.format(p='%s%d%s' % (pfx, bodies.index((tag, body, at)), tag.replace('-', '_')[:5])) for ln in body]
        files[fname] = '\n'.join(lines) + '\n'
    return files, exp


SHADOW_VARIANTS = [
    # (outer declaration in the library, LEGAL use of it inside the namespace in the library, closer declaration of ANOTHER kind in the importer,
    #  line that breaks a rule with the closer one, rule tag)
    ('thing = record { a: i32; }', 'user = record { t: thing; }', 'thing = interface +cpp { m(); }', 'holder = record { bad: thing; }', 'interface-field'),
    ('thing = record { a: i32; }', 'user = record { t: thing; }', 'thing = error { oops; }', 'holder = record { bad: thing; }', 'error-field'),
    ('thing = error { oops; }', 'user = interface +cpp { m() throws thing; }', 'thing = record { a: i32; }', 'svc = interface +cpp { bad() throws thing; }', 'throws-non-error'),
    ('thing = record { a: i32; }', 'user = record { t: thing; }', 'thing = error { oops; }', 'svc = interface +cpp { bad(e: thing); }', 'error-param'),
    ('thing = enum { a; }', 'user = record { t: thing; }', 'thing = error { oops; }', 'svc = interface +cpp { bad() -> thing; }', 'error-return'),
]


def shadow_case(r):
    """An imported file and the importing file contribute to ONE namespace; the imported file looks a name up from inside that namespace and finds
    the outer declaration; the importer then declares a closer type of another kind with that name and breaks a rule with it.  The rule
    checks must judge the closer declaration."""
    outer, legal_use, closer, bad, tag = r.choice(SHADOW_VARIANTS)
    ns = r.choice(['app', 'app.core', 'v1'])
    lib = '%s\nnamespace %s {\n    %s\n}\n' % (outer, ns, legal_use)
    root_lines = ['@import "lib.djinni"', 'namespace %s {' % ns, '    ' + closer, '    ' + bad, '}']
    if r.random() < 0.5:
        root_lines.insert(2, '    ok_rec = record { n: i32; }')
    files = {'root.djinni': '\n'.join(root_lines) + '\n', 'lib.djinni': lib}
    line = next(i for i, l in enumerate(root_lines) if l.strip() == bad) + 1
    return files, [(tag, 'root.djinni', {'_line': line})]


def run(ctx):
    r = random.Random(ctx.rng.random())
    n = ctx.n(80, 700)
    cases, meta = [], []
    for i in range(ctx.n(8, 60)):
        files, exp = shadow_case(r)
        cases.append({'files': files, 'root': 'root.djinni', 'options': {'generate': dict(FULL)}})
        meta.append(({'root': 'root.djinni'}, exp))
    for i in range(ctx.n(12, 80)):
        files, exp = twin_case(r)
        cases.append({'files': files, 'root': 'root.djinni', 'options': {'generate': dict(FULL)}})
        meta.append(({'root': 'root.djinni'}, exp))
    for i in range(n):
        g = gen_idl.Gen(r, max_decls=r.choice([3, 6, 9]), p_comment=0.0, multi_file=0.35)
        p = g.program()
        k = 0 if i % 8 == 0 else r.choice([1, 1, 1, 2, 3])
        exp = []
        for _ in range(k):
            exp += inject(r, p)
        files = gen_idl.print_program(p, None, 'canon')
        cases.append({'files': files, 'root': p['root'], 'options': {'generate': dict(FULL)}})
        meta.append((p, exp))
    mism, obs = kfront.run(ctx, 'c05', cases, parts=('errors',))
    if obs is None:
        return
    dist = {'accepted': 0, 'rejected': 0, 'injected': {}, 'multi_violation': 0, 'in_imported_file': 0,
            'same_position_in_several_files': sum(1 for p, _ in meta if set(p) == {'root'})}
    for (p, exp), c, o in zip(meta, cases, obs):
        want = {(tag, f, d.get('_line')) for tag, f, d in exp}
        for tag, f, d in exp:
            dist['injected'][tag] = dist['injected'].get(tag, 0) + 1
            dist['in_imported_file'] += f != p['root']
        dist['multi_violation'] += len(want) > 1
        rep = {'files': c['files'], 'root': c['root'], 'injected': sorted(map(list, want), key=str)}
        if o['outcome'] == 'internal':
            ctx.add_violation({'kind': 'internal-error', 'exc': o['exc'].get('cls'), 'frame': o['exc'].get('frame')},
                              'front end raised %s' % o['exc'], rep)
            continue
        if o['outcome'] == 'app':
            ctx.add_violation({'kind': 'single-exception', 'cls': o['exc']['item']['cls']}, 'a bare %s instead of the error list' % o['exc']['item']['cls'], rep)
            continue
        items = o['exc']['items'] if o['outcome'] == 'list' else []
        got = {(rule_of(i['desc']), (i['pos'] or {}).get('file'), ((i['pos'] or {}).get('start') or [None])[0]) for i in items}
        dist['accepted' if o['outcome'] == 'ok' else 'rejected'] += 1
        if (o['outcome'] == 'ok') != (not want):
            ctx.add_violation({'kind': 'acceptance', 'accepted': o['outcome'] == 'ok'},
                              'program with violations %s was %s' % (sorted(want, key=str), o['outcome']), dict(rep, reported=sorted(map(list, got), key=str)))
        elif got != want:
            missing = sorted(want - got, key=str); extra = sorted(got - want, key=str)
            ctx.add_violation({'kind': 'diagnostics-differ', 'missing': bool(missing), 'extra': bool(extra),
                               'rule': (missing or extra)[0][0]},
                              'missing diagnostics %s, unexpected diagnostics %s' % (missing, extra), dict(rep, reported=sorted(map(list, got), key=str)))
    mm = [{'files': cases[i]['files'], 'bad_parts': parts, 'impl_outcome': o['outcome']} for i, parts, o in (mism or [])]
    ctx.add_corr('K-front/diagnostics', len(cases), sum(1 for _, e in meta if e), mm, [{'files': cases[1]['files'], 'injected': [[t, f] for t, f, d in meta[1][1]]}], dist,
                 'well-typed programs with 0-3 injected rule violations (18 rules: field/param/return/throws kinds, static/main/const, ord '
                 'collections, deriving names, flag modifiers, targets, generic arity, unknown types) at a random member index of a random '
                 'existing or new declaration at namespace depth 0-3, in the root or an imported file; plus twin programs: the same violation at the same '
                 'line/column range in the root and in one or two imported files; non-trivial = at least one violation')
