"""C18 - Language server answers always reflect the current text of each document."""
import itertools, json, random
from .. import coqtool
from ..common import run_impl
from ..emit import *

TRUSTED = ['pygls (transport, workspace text synchronisation), lsprotocol types; handlers are called in-process without the JSON-RPC layer',
           'front_of(text) is observed on a fresh server instance that only ever sees that text']
ASSUMPTIONS = ['model = Sys/Lsp.v: validate() and the handlers as a state machine over per-document caches; refinement to docs : uri -> text',
               'known finding C18-K1: when the front end fails internally on a text (C06-K1: visitor on error-recovered trees) nothing is published and the caches keep the previous text']

LIB = '# a library type\nlibt = enum { a; b; }\n# @deprecated use libt\noldt = enum { x; }\n'
TEXTS = [
    ('valid1', 'foo = enum { a; b; }\nrec = record { x: foo; y: i32; }\n'),
    ('valid2', 'bar = flags { r; g; all_ = all; }\nnamespace n { itf = interface +cpp { get() -> bar; } }\n'),
    ('syntax', 'foo = record { a: i8; }\nbar = record { b: foo }\n'),
    ('unknown', 'rec = record { x: nope; y: i32; }\n'),
    ('rule', 'itf = interface { m(); }\nrec = record { i: itf; }\n'),
    ('duplicate', 'foo = enum { a; }\nfoo = enum { b; }\n'),
    ('deprecated_use', '# @deprecated old\nfoo = enum { a; }\nrec = record { x: foo; }\n'),
    ('imports', '@import "lib.pydjinni"\nuser = record { a: libt; b: oldt; }\n'),
    ('imports_with_error', '@import "lib.pydjinni"\nuser = record { a: libt; b: nope; }\n'),
    ('import_missing', '@import "nowhere.pydjinni"\nfoo = enum { a; }\n'),
    ('crash_field', 'foo = record { a: ; }\n'),
    ('crash_decl', 'foo = ;\nbar = enum { a; }\n'),
    ('generic', '# doc of foo\nfoo = enum { a; }\nrec = record { x: list<foo>; y: i32; }\n'),
    ('generic2', 'foo = enum { a; }\nbar = record { k: i8; }\nr2 = record { m: map<foo, bar>; n: list<list<bar>>; }\n'),
    ('empty', ''),
    ('noise', '}}} = ( ;\n'),
]
# absolute expectations on single texts (the fresh-server table only exposes history dependence)
EXPECT_DEF = {'imports': [((0, 12), 'lib.pydjinni'), ((1, 20), 'lib.pydjinni')],
              'imports_with_error': [((0, 12), 'lib.pydjinni'), ((1, 20), 'lib.pydjinni')],
              'valid1': [((1, 18), 'a.pydjinni'), ((0, 0), None)],
              'deprecated_use': [((2, 18), 'a.pydjinni')]}
# generic arguments: the answer must be about the ARGUMENT under the cursor (file and 0-based line of its declaration), not about the container
EXPECT_DEF_AT = {'generic': [((2, 23), ['a.pydjinni', 0]), ((2, 18), None), ((2, 20), None)],   # the declaration starts at its doc comment (line 0)
                 'generic2': [((2, 23), ['a.pydjinni', 0]), ((2, 26), ['a.pydjinni', 1]), ((2, 18), None)]}
EXPECT_HOVER = {'generic': [((2, 23), 'doc of foo'), ((2, 9), None)]}
EXPECT_DIAGS = {'valid1': [], 'valid2': [], 'imports': [2], 'syntax': [1], 'unknown': [1], 'rule': [1], 'duplicate': [1], 'deprecated_use': [2],
                'imports_with_error': [1], 'import_missing': [1], 'empty': [], 'generic': [], 'generic2': []}
ROWS = [0, 1, 2]
COLS = [0, 4, 9, 12, 14, 16, 18, 20, 23, 26, 30]

PRE = '''From Coq Require Import List String Bool Arith.
From PDV Require Import Sys.Lsp.
Import ListNotations. Open Scope string_scope. Open Scope list_scope.
Definition tbl : list (nat * fout) := TABLE.
Definition front (t : nat) : fout := (fix go (l : list (nat * fout)) := match l with [] => FCrash | (k, v) :: r => if Nat.eqb k t then v else go r end) tbl.
Definition diag_eqb (a b : nat * nat * nat) := let '(x1, y1, z1) := a in let '(x2, y2, z2) := b in Nat.eqb x1 x2 && Nat.eqb y1 y2 && Nat.eqb z1 z2.
Fixpoint list_eqb {A} (f : A -> A -> bool) (a b : list A) := match a, b with [], [] => true | x :: a', y :: b' => f x y && list_eqb f a' b' | _, _ => false end.
Definition ans_eqb (a b : option (string * nat)) := match a, b with None, None => true | Some (f, l), Some (g, m) => String.eqb f g && Nat.eqb l m | _, _ => false end.
Definition out_eqb (a b : out) : bool :=
  match a, b with
  | OPublished x, OPublished y => list_eqb diag_eqb x y
  | OFailed, OFailed => true | ONone, ONone => true
  | OAnswer x, OAnswer y => ans_eqb x y
  | OSymbols None, OSymbols None => true
  | OSymbols (Some x), OSymbols (Some y) => list_eqb String.eqb x y
  | _, _ => false
  end.
Definition case_ok (c : list (ev nat) * list out) : bool := list_eqb out_eqb (snd (run nat front (init nat) (fst c))) (snd c).
Fixpoint bad_idx (i : nat) (cs : list (list (ev nat) * list out)) : list nat :=
  match cs with [] => [] | c :: t => if case_ok c then bad_idx (S i) t else i :: bad_idx (S i) t end.
'''


def c_out(o, doc=None):
    if o.get('answer') and o['answer'][0] == doc:
        o = dict(o, answer=['<self>', o['answer'][1]])     # a reference into the document itself
    if 'published' in o:
        return 'OPublished %s' % clist(['(%d, %d, %d)' % tuple(d) for d in o['published']['diags']])
    if 'error_log' in o or 'raised' in o:
        return 'OFailed'
    if 'answer' in o:
        return 'OAnswer %s' % ('None' if o['answer'] is None else '(Some (%s, %d))' % (cstr(o['answer'][0]), o['answer'][1]))
    if 'symbols' in o:
        return 'OSymbols %s' % ('None' if o['symbols'] is None else '(Some %s)' % cstrs(o['symbols']))
    return 'ONone'


def run(ctx):
    r = random.Random(ctx.rng.random())
    # ---- front_of: each text alone on a fresh server (as document a.pydjinni), all probe positions
    probes = [(row, col) for row in ROWS for col in COLS]
    fresh = []
    for name, text in TEXTS:
        ev = [['open', 'a.pydjinni', text], ['symbols', 'a.pydjinni']] + [['definition', 'a.pydjinni', row, col] for row, col in probes] + \
             [['hover', 'a.pydjinni', row, col] for (row, col), _ in EXPECT_HOVER.get(name, [])]
        fresh.append({'disk': {'lib.pydjinni': LIB}, 'events': ev})
    ok, res = run_impl('lsp_run', {'cases': fresh}, timeout=900)
    if not ok:
        ctx.broken.append({'kind': 'harness', 'name': 'lsp_run driver', 'detail': str(res)[-1500:]}); return
    table, crash = [], set()
    for i, ((name, text), o) in enumerate(zip(TEXTS, res['results'])):
        if 'harness_error' in o:
            ctx.broken.append({'kind': 'harness', 'name': 'lsp_run case', 'detail': o['harness_error'][-800:]}); return
        outs = o['outs']
        if 'published' not in outs[0]:
            crash.add(i)
            table.append('(%d, FCrash)' % i)
            continue
        if name in EXPECT_DIAGS and sorted(d[0] for d in outs[0]['published']['diags']) != EXPECT_DIAGS[name]:
            ctx.add_violation({'kind': 'wrong-diagnostics', 'text': name}, 'text %r alone: published severities %s, expected %s (%s)' %
                              (name, sorted(d[0] for d in outs[0]['published']['diags']), EXPECT_DIAGS[name], outs[0]['published']['messages']), {'text': text})
        for (row, col), want in EXPECT_DEF.get(name, []):
            got = outs[2 + probes.index((row, col))].get('answer')
            if (got[0] if got else None) != want:
                ctx.add_violation({'kind': 'wrong-definition-answer', 'text': name}, 'text %r alone: go-to-definition at (%d, %d) answers %s, expected file %s' % (name, row, col, got, want),
                                  {'text': text, 'position': [row, col]})
        for (row, col), want in EXPECT_DEF_AT.get(name, []):
            got = outs[2 + probes.index((row, col))].get('answer')
            if got != want:
                ctx.add_violation({'kind': 'wrong-definition-answer', 'text': name, 'generic_argument': True},
                                  'text %r alone: go-to-definition at (%d, %d) answers %s, expected %s' % (name, row, col, got, want), {'text': text, 'position': [row, col]})
        for k, ((row, col), want) in enumerate(EXPECT_HOVER.get(name, [])):
            got = outs[2 + len(probes) + k].get('hover')
            if got != want:
                ctx.add_violation({'kind': 'wrong-hover-answer', 'text': name}, 'text %r alone: hover at (%d, %d) answers %r, expected %r' % (name, row, col, got, want),
                                  {'text': text, 'position': [row, col]})
        outs = outs[:2 + len(probes)]
        diags = clist(['(%d, %d, %d)' % tuple(d) for d in outs[0]['published']['diags']])
        syms = cstrs(outs[1]['symbols'] or [])
        defs = clist(['(%d, %d, %s)' % (row, col, 'None' if a.get('answer') is None else '(Some (%s, %d))' % (cstr('<self>' if a['answer'][0] == 'a.pydjinni' else a['answer'][0]), a['answer'][1]))
                      for (row, col), a in zip(probes, outs[2:])])
        table.append('(%d, FView (mkview %s %s %s))' % (i, diags, syms, defs))
    # ---- event sequences over two documents
    docs = ['a.pydjinni', 'b(v2).pydjinni']     # the second URI is spelled as editors spell it: parentheses not percent-encoded
    seqs = []
    if ctx.thorough:
        # exhaustive to depth 3 over {open, change, close, symbols} x 2 docs x 5 texts
        small = [0, 2, 5, 6, 9]
        evs = [('open', d, t) for d in docs for t in small] + [('change', d, t) for d in docs for t in small] + \
              [('close', d, None) for d in docs] + [('symbols', d, None) for d in docs]
        def conforming(combo):
            # the LSP client contract: didChange / didClose only for documents it has opened (pygls itself raises KeyError otherwise,
            # before any pydjinni handler runs)
            opened = set()
            for k, d, _ in combo:
                if k == 'open':
                    opened.add(d)
                elif k in ('change', 'close'):
                    if d not in opened:
                        return False
                    if k == 'close':
                        opened.discard(d)
            return True
        for combo in itertools.product(evs, repeat=3):
            if conforming(combo):
                seqs.append(list(combo))
        seqs = r.sample(seqs, min(3000, len(seqs)))
    n = ctx.n(150, 1500)
    for _ in range(n):
        s, opened = [], set()
        for _ in range(r.randint(3, 14)):
            d = r.choice(docs)
            x = r.random()
            if x < 0.22 or d not in opened and x < 0.5:
                s.append(('open', d, r.randrange(len(TEXTS)))); opened.add(d)
            elif x < 0.5:
                s.append(('change', d, r.randrange(len(TEXTS))))
            elif x < 0.6:
                s.append(('close', d, None)); opened.discard(d)
            elif x < 0.78:
                s.append(('symbols', d, None))
            else:
                row, col = r.choice(probes)
                s.append(('definition', d, (row, col)))
        seqs.append(s)
    cases = []
    for s in seqs:
        ev = []
        for k, d, a in s:
            if k in ('open', 'change'):
                ev.append([k, d, TEXTS[a][1]])
            elif k == 'definition':
                ev.append([k, d, a[0], a[1]])
            else:
                ev.append([k, d])
        cases.append({'disk': {'lib.pydjinni': LIB}, 'events': ev})
    ok, res = run_impl('lsp_run', {'cases': cases}, timeout=3000)
    if not ok:
        ctx.broken.append({'kind': 'harness', 'name': 'lsp_run driver', 'detail': str(res)[-1500:]}); return
    items, keep, mism_all = [], [], []
    dist = {'sequences': len(seqs), 'events': sum(len(s) for s in seqs), 'texts': len(TEXTS), 'crashing_texts': sorted(TEXTS[i][0] for i in crash),
            'with_crash_text': 0, 'with_close': 0}
    for s, c, o in zip(seqs, cases, res['results']):
        if 'harness_error' in o:
            ctx.broken.append({'kind': 'harness', 'name': 'lsp_run case', 'detail': o['harness_error'][-800:]}); continue
        dist['with_crash_text'] += any(k in ('open', 'change') and a in crash for k, d, a in s)
        dist['with_close'] += any(k == 'close' for k, d, a in s)
        evc = []
        for k, d, a in s:
            if k == 'open':
                evc.append('Open nat %s %d' % (cstr(d), a))
            elif k == 'change':
                evc.append('Change nat %s %d' % (cstr(d), a))
            elif k == 'close':
                evc.append('Close nat %s' % cstr(d))
            elif k == 'symbols':
                evc.append('Symbols nat %s' % cstr(d))
            else:
                evc.append('GoToDef nat %s %d %d' % (cstr(d), a[0], a[1]))
        items.append('(%s, %s)' % (clist(evc), clist(['(%s)' % c_out(x, e[1]) for x, e in zip(o['outs'], s)])))
        keep.append({'events': [[k, d, (TEXTS[a][0] if k in ('open', 'change') else a)] for k, d, a in s], 'observed': o['outs']})
        # oracle: the spec on the implementation - answers equal the fresh-server answers for the current text
        cur = {}
        for (k, d, a), out in zip(s, o['outs']):
            if k in ('open', 'change'):
                cur[d] = a
                if 'published' not in out:
                    ctx.add_violation({'kind': 'validation-failed-internally', 'text': TEXTS[a][0], 'front_end_crash': a in crash},
                                      'open/change with text %r published nothing (handler ended in the error logger)' % TEXTS[a][0],
                                      {'events': c['events'], 'log': out.get('error_log')})
            elif k == 'close':
                cur.pop(d, None)
            elif 'error_log' in out or 'raised' in out:
                ctx.add_violation({'kind': 'query-failed-internally', 'query': k, 'open': d in cur}, '%s on %s failed internally' % (k, d), {'events': c['events'], 'log': out.get('error_log') or out.get('raised')})
    for s0 in range(0, len(items), 300):
        body = PRE.replace('TABLE', clist(table)) + 'Definition cases := %s.\nEval vm_compute in (bad_idx 0 cases).\n' % clist(items[s0:s0 + 300])
        rc, out, err = coqtool.run_cases('c18', body)
        bad = coqtool.parse_nat_list(out) if rc == 0 else None
        if bad is None:
            ctx.broken.append({'kind': 'correspondence', 'name': 'K-lsp (coqc failed)', 'detail': (err + out)[-1500:]}); return
        for i in bad:
            k = keep[s0 + i]
            # a deviation from the model on a sequence without crashing texts is a stale / wrong answer
            if not any(e[0] in ('open', 'change') and e[2] in dist['crashing_texts'] for e in k['events']):
                ctx.add_violation({'kind': 'answer-not-from-current-text'},
                                  'published diagnostics / symbols / definition answers differ from those of the current text', k)
        mism_all += [keep[s0 + i] for i in bad]
    ctx.add_corr('K-lsp', len(items), len({json.dumps(k['events']) for k in keep}), mism_all, keep[:1], dist,
                 'event sequences (open/change/close/symbols/definition) over two documents and %d texts (valid, syntax error, unknown type, rule '
                 'violation, duplicate, deprecated use, imports, missing import, two texts that crash the front end, empty, noise); every output '
                 'compared with the model whose front_of table comes from fresh single-text servers%s' % (len(TEXTS), '; plus 3000 of the exhaustive depth-3 sequences' if ctx.thorough else ''))
