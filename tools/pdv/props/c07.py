"""C07 - JNI glue and generated Java agree on every class, member and native symbol."""
import copy, json, random
from concurrent.futures import ThreadPoolExecutor
from .. import coqtool, gen_idl, jvm_judge, kjinja
from ..common import run_impl
from ..emit import *
from .c17 import FULL

TRUSTED = ['javac 17 + javap -s -p: the descriptors, classes and native methods of the generated Java (judge)',
           'Lang/Jvm.v transcribes JVMS 4.3.2/4.3.3 (descriptors, generics erased, java.lang implicit) and the JNI short-name mangling for ASCII identifiers',
           'regular-expression scraper of jniFindClass / jniGet*ID / JNIEXPORT in the generated JNI sources (tools/pdv/jvm_judge.py)']
ASSUMPTIONS = ['model = Marshal/Jni.v (type_signature, class_descriptor, jni_prefix, get_typename, compute_data_type / compute_return_type '
               'without nullable/nonnull annotations) on attributes read off the real marshalling objects; built-in rows are regenerated into Gen/ExternalTypes.v',
               'identifier styles of the java and jni generators are configured alike (java.identifier.type = jni.identifier.class_name etc.); '
               'programs whose generated Java does not compile (C01/C15 findings: anonymous function names) or that hit an output path collision (C15) are not judged']

STYLE_SETS = [
    {},
    {'java': {'identifier': {'method': 'snake_case', 'field': 'snake_case', 'type': 'snake_case'}, 'package': 'com.my_app.x'},
     'jni': {'identifier': {'method': 'snake_case', 'field': 'snake_case', 'class_name': 'snake_case'}}},
    {'java': {'identifier': {'method': 'PascalCase', 'field': 'camelCase', 'type': 'PascalCase'}, 'package': 'org.a1.b_c'},
     'jni': {'identifier': {'method': 'PascalCase', 'field': 'camelCase', 'class_name': 'PascalCase'}}},
]


def options(k):
    g = copy.deepcopy(FULL)
    for gen, o in STYLE_SETS[k % len(STYLE_SETS)].items():
        g[gen].update(copy.deepcopy(o))
    return {'generate': g}


def c_ty(t):
    j, n = t['java'], t['jni']
    return 'mktyinfo %s %s %s %s %s' % (cstr(n['type_signature'] or ''), cstr(n['boxed_type_signature'] or ''), cstr(n['typename'] or ''),
                                       cstr(j['typename'] or ''), cstr(j['boxed'] or ''))


def c_ref(t):
    return 'TRef %s (%s) %s' % (cbool(t['opt']), c_ty(t['target']), clist([c_ref(p) for p in t['params']]))


def complete(t):
    return t is None or (t['target'] is not None and all(complete(p) for p in t['params']))


PRE = '''From Coq Require Import List String Ascii Bool.
From PDV Require Import Lib.StrUtil Lang.Jvm Marshal.Jni.
Import ListNotations. Open Scope string_scope. Open Scope list_scope.
Fixpoint strs_eqb (a b : list string) : bool := match a, b with [] , [] => true | x :: r, y :: s => String.eqb x y && strs_eqb r s | _, _ => false end.
(* 0 = all fine, 1 = model differs from the implementation, 2 = implementation violates the specification *)
Definition mcase (params : list tref) (ret : option tref) (async : bool) (sig : string) (jtypes : list string) (jret : string)
                 (rspec : string) (ctypes : list string) : nat :=
  if negb (String.eqb (type_signature params ret async) sig && strs_eqb (map (data_type false) params) jtypes &&
           String.eqb (return_type ret async) jret && String.eqb (return_type_spec ret async) rspec && strs_eqb (map get_typename params) ctypes) then 1
  else if negb (String.eqb (method_descriptor jtypes jret) sig &&
                forallb (fun p => ctype_ok (fst p) (descriptor_of_src (snd p))) (combine ctypes jtypes) &&
                ctype_ok rspec (descriptor_of_src jret)) then 2 else 0.
Definition dcase (pkg jname name cd sig prefix jtypename : string) (plain_class : bool) : nat :=
  if negb (String.eqb (class_descriptor pkg name) cd && String.eqb (decl_jni_prefix pkg name) prefix &&
           (negb plain_class || (String.eqb (decl_type_signature pkg name) sig && String.eqb (decl_java_typename pkg jname) jtypename))) then 1
  else if negb (String.eqb prefix ("Java_" ++ mangle cd) && (negb plain_class || String.eqb (descriptor_of_src jtypename) sig)) then 2 else 0.
Fixpoint bad (i : nat) (l : list nat) : list (nat * nat) := match l with [] => [] | 0 :: r => bad (S i) r | k :: r => (i, k) :: bad (S i) r end.
'''


POOL = ['bool', 'i8', 'i16', 'i32', 'i64', 'f32', 'f64', 'string', 'binary', 'date', 'list<i32>', 'set<string>', 'map<string, i64>', 'list<list<f32>>',
        'kind', 'opts', 'point', 'cb', 'peer', 'map<i32, point>', 'list<kind>']
MPRE = 'kind = enum { a_b; c; }\nopts = flags { x_1; y; all_of = all; }\npoint = record { x: i32; y_z: f64?; tags: list<string>; o: opts; k: kind?; }\n' \
       'cb = function (code: i32, msg: string?) -> bool;\noops = error { bad_thing(code: i16 why: string?); other; }\npeer = interface +java +cpp { ping(); }\n'


def matrix_programs(r, rounds):
    out = []
    for rd in range(rounds):
        for tg in ('+cpp', '+java', '+cpp +java'):
            lines = [MPRE]
            k = 0
            for asyn in (False, True):
                methods = []
                for t in POOL:
                    for opt in (False, True):
                        ty = t + ('?' if opt else '')
                        other = r.choice(POOL) + r.choice(['', '?'])
                        methods.append('%sm_%d(p_a: %s, q: %s)%s;' % ('async ' if asyn else '', k, ty, other, r.choice(['', ' throws oops', ' throws'])))
                        k += 1
                        methods.append('%sm_%d(v: %s) -> %s;' % ('async ' if asyn else '', k, other, ty))
                        k += 1
                if tg == '+cpp' and not asyn:
                    methods.append('static make_it(a: i32?, b: string) -> peer;')
                    methods.append('static s_2(a_b: opts) -> i64?;')
                lines.append('iface_%s_%d = interface %s { %s }' % ('a' if asyn else 's', rd, tg, ' '.join(methods)))
            lines.append('fn_%d = function %s (a: %s, b: %s) -> %s;' % (rd, '' if tg != '+cpp' else '', r.choice(POOL), r.choice(POOL) + '?', r.choice(POOL)))
            out.append('\n'.join(lines) + '\n')
    return out


def parse_pairs(out):
    import re
    m = re.search(r'=\s*\[(.*?)\]\s*:\s*list', out, flags=re.S)
    if not m:
        return None
    return [(int(a), int(b)) for a, b in re.findall(r'\((\d+),\s*(\d+)\)', m.group(1))]


def run(ctx):
    r = random.Random(ctx.rng.random())
    n = ctx.n(45, 400)
    progs, mcases, gcases = [], [], []
    want = {'decl': ['name', 'class_descriptor', 'jni_prefix', 'type_signature', 'boxed_type_signature', 'typename', 'package'],
            'method': ['name', 'type_signature', 'return_type_spec', 'return_type'], 'param': ['name', 'typename', 'data_type'],
            'field': ['name', 'typename', 'data_type']}
    for i in range(n):
        g = gen_idl.Gen(r, max_decls=r.choice([4, 8]), p_comment=0.05, multi_file=0.0, shadowing=0.2, acyclic=True)
        g.deriving_choices = [None, [], ['eq']]
        p = g.program()
        files = gen_idl.print_program(p, None, 'canon')
        opts = options(i)
        mcases.append({'files': files, 'root': p['root'], 'options': opts, 'want': want})
        gcases.append({'files': files, 'options': opts, 'ops': [['parse', p['root']], ['generate', 'java']], 'keep_content': True,
                       'include_support': True, 'timeout_s': 60})
    # systematic programs: every type of the pool x optional x (parameter | result) x (sync | async) x (+cpp | +java | both)
    for k, idl in enumerate(matrix_programs(r, ctx.n(1, 3))):
        opts = options(k)
        mcases.append({'files': {'m.pydjinni': idl}, 'root': 'm.pydjinni', 'options': opts, 'want': want})
        gcases.append({'files': {'m.pydjinni': idl}, 'options': opts, 'ops': [['parse', 'm.pydjinni'], ['generate', 'java']], 'keep_content': True,
                       'include_support': True, 'timeout_s': 120})
    n = len(gcases)
    ok, res = run_impl('marshal_dump', {'cases': mcases}, timeout=1800)
    if not ok:
        ctx.broken.append({'kind': 'harness', 'name': 'marshal_dump driver', 'detail': str(res)[-1500:]}); return
    # ---- K-jni
    rows, meta = [], []
    kinds = {}
    for c, o in zip(mcases, res['results']):
        if o['outcome'] != 'ok':
            continue
        for d in o['decls']:
            j, n_ = d['attrs']['java'], d['attrs']['jni']
            if 'v' in n_['class_descriptor'] and 'v' in j['package'] and 'v' in n_['jni_prefix']:
                plain_class = d['k'] in ('Record', 'Interface', 'Enum', 'ErrorDomain') or (d['k'] == 'Function')
                jname = j['name']['v']
                if d['k'] == 'Record' and 'java' in d['targets']:
                    # the generated class is <Name>Base; java.typename (and every lookup) refers to the user's subclass <Name>
                    jname = jname[:-4] if jname.endswith('Base') else jname[:-5] if jname.endswith('_base') else jname
                rows.append('dcase %s %s %s %s %s %s %s %s' % (cstr(j['package']['v']), cstr(jname), cstr(n_['name']['v']),
                                                              cstr(n_['class_descriptor']['v']), cstr(n_['type_signature'].get('v', '')),
                                                              cstr(n_['jni_prefix']['v']), cstr(j['typename'].get('v', '')), cbool(plain_class)))
                meta.append({'what': 'declaration', 'decl': d['name'], 'kind': d['k'], 'files': c['files'], 'options': c['options'],
                             'java': {k: v.get('v') for k, v in j.items()}, 'jni': {k: v.get('v') for k, v in n_.items()}})
                kinds['decl:' + d['k']] = kinds.get('decl:' + d['k'], 0) + 1
            callables = []
            if d['k'] == 'Interface':
                for m in d.get('members', []):
                    callables.append((m['name'], m['params'], m['ret'], m['asyn'], m['attrs']['jni']['type_signature'], m['attrs']['java']['return_type'],
                                      m['attrs']['jni']['return_type_spec']))
            for nm, params, ret, asyn, sig, jret, rspec in callables:
                if not all(complete(p_['type']) for p_ in params) or not complete(ret) or 'v' not in sig or 'v' not in jret:
                    continue
                if any('v' not in p_['attrs']['java']['data_type'] or 'v' not in p_['attrs']['jni']['typename'] for p_ in params):
                    continue
                rows.append('mcase %s %s %s %s %s %s %s %s' % (
                    clist([c_ref(p_['type']) for p_ in params]), copt(ret, lambda t: '(%s)' % c_ref(t)), cbool(asyn), cstr(sig['v']),
                    cstrs([p_['attrs']['java']['data_type']['v'] for p_ in params]), cstr(jret['v']), cstr(rspec.get('v', '')),
                    cstrs([p_['attrs']['jni']['typename']['v'] for p_ in params])))
                meta.append({'what': 'method', 'decl': d['name'], 'method': nm, 'files': c['files'], 'options': c['options'], 'jni_signature': sig['v'],
                             'java_params': [p_['attrs']['java']['data_type']['v'] for p_ in params], 'java_return': jret['v'],
                             'c_return': rspec.get('v'), 'c_params': [p_['attrs']['jni']['typename']['v'] for p_ in params]})
                key = 'method:%d-params%s%s' % (min(len(params), 3), ':async' if asyn else '', ':opt' if any(p_['type']['opt'] for p_ in params) else '')
                kinds[key] = kinds.get(key, 0) + 1
            if d['k'] == 'Record':
                for m in d.get('members', []):
                    if complete(m['type']) and 'v' in m['attrs']['java']['data_type'] and 'v' in m['attrs']['jni']['typename']:
                        # a field lookup is a method case with one parameter and no result: "(sig)V"
                        t = m['type']
                        sig = (t['target']['jni']['boxed_type_signature'] if t['opt'] else t['target']['jni']['type_signature']) or ''
                        rows.append('mcase %s None false %s %s "void" "void" %s' % (clist([c_ref(t)]), cstr('(%s)V' % sig),
                                                                                   cstrs([m['attrs']['java']['data_type']['v']]),
                                                                                   cstrs([m['attrs']['jni']['typename']['v']])))
                        meta.append({'what': 'field', 'decl': d['name'], 'field': m['name'], 'files': c['files'], 'options': c['options'],
                                     'jni_signature': sig, 'java_type': m['attrs']['java']['data_type']['v']})
                        kinds['field'] = kinds.get('field', 0) + 1
    mism, spec_viol = [], []
    shard = 120
    for s in range(0, len(rows), shard):
        body = PRE + 'Definition cases : list nat := %s.\nEval vm_compute in (bad 0 cases).\n' % clist(rows[s:s + shard])
        rc, out, err = coqtool.run_cases('kjni_c07', body)
        bad = parse_pairs(out) if rc == 0 else None
        if bad is None:
            ctx.broken.append({'kind': 'correspondence', 'name': 'K-jni (coqc failed)', 'detail': (err + out)[-1500:]}); return
        for i, k in bad:
            (mism if k == 1 else spec_viol).append(meta[s + i])
    for m in spec_viol:
        ctx.add_violation({'kind': 'descriptor-differs-from-java', 'what': m['what']},
                          '%s %s.%s: the JNI side uses %s, the Java side declares %s' % (m['what'], m['decl'], m.get('method') or m.get('field') or '',
                                                                                         m.get('jni_signature') or m.get('jni'), m.get('java_params') or m.get('java_type') or m.get('java')), m)
    ctx.add_corr('K-jni', len(rows), len(kinds), mism, meta[:1], {'cases_by_kind': kinds, 'style_sets': len(STYLE_SETS)},
                 'type_signature / data_type / return_type / return_type_spec / get_typename of every interface method, every record field, and '
                 'class_descriptor / jni_prefix / type_signature / typename of every declaration of generated programs under 3 identifier-style and '
                 'package configurations vs Marshal/Jni.v on the attributes of the referenced types; the same vm_compute run checks the '
                 'implementation values against the specification (method_descriptor, mangle, ctype_ok)')
    # ---- K-jinja: the look-up and JNIEXPORT loops the render theorems are about, rendered by Jinja on the real objects vs the TIR interpreter
    frs = [{'gen': 'jni', 'template': 'header/record.jinja2.hpp', 'attr': 'fields', 'index': 0, 'decl_class': 'Record'},
           {'gen': 'jni', 'template': 'header/record.jinja2.hpp', 'attr': 'fields', 'index': 1, 'decl_class': 'Record'},
           {'gen': 'jni', 'template': 'header/interface.jinja2.hpp', 'attr': 'methods', 'index': 1, 'decl_class': 'Interface'},
           {'gen': 'jni', 'template': 'source/interface.jinja2.cpp', 'attr': 'methods', 'index': 1, 'decl_class': 'Interface',
            'macros': ['cpp_error_handling']}]
    jc = [{'files': c_['files'], 'root': c_['root'], 'options': c_['options'], 'fragments': frs} for c_ in mcases[-3:]]
    mismj, flat = kjinja.run(ctx, 'c07', jc)
    if flat is not None:
        ctx.add_corr('K-jinja/jni-lookups', len(flat), len({f['decl'] for f in flat}), [{'fragment': m_['fragment'], 'decl': m_['decl'], 'impl_text': m_['text']} for m_ in (mismj or [])],
                     [{'fragment': flat[0]['fragment'], 'text': flat[0]['text'][:300]}] if flat else [], {'renders': len(flat)},
                     'constructor-signature, jniGetFieldID, jniGetMethodID and JNIEXPORT loops of the JNI templates (base macros expanded) on the systematic programs')
    # ---- judge: javac/javap vs scraped JNI sources
    ok2, res2 = run_impl('gen_run', {'cases': gcases}, timeout=3000)
    if not ok2:
        ctx.broken.append({'kind': 'harness', 'name': 'gen_run driver', 'detail': str(res2)[-1500:]}); return
    todo = []
    stats = {'programs': n, 'rejected_or_failed': 0, 'path_collision': 0, 'java_does_not_compile': 0, 'judged': 0, 'lookups': 0, 'natives': 0, 'classes': 0}
    for c, o in zip(gcases, res2['results']):
        if 'steps' not in o or any(s['r'] != 'ok' for s in o['steps']):
            stats['rejected_or_failed'] += 1; continue
        writes = {}
        for s_ in o['steps']:
            for w in s_.get('writes', []):
                if w[0] == 'write':
                    writes.setdefault(w[1], set()).add(w[2])
        if any(len(v) > 1 for v in writes.values()):
            stats['path_collision'] += 1; continue
        todo.append((c, o['tree']))
    with ThreadPoolExecutor(max_workers=12) as ex:
        judged = list(ex.map(lambda ct: jvm_judge.judge_jni(ct[1]), todo))
    for (c, tree), (issues, st) in zip(todo, judged):
        if issues and issues[0]['kind'] == 'java-does-not-compile':
            stats['java_does_not_compile'] += 1
            import re as _re
            m_ = _re.search(r'error: (.*)', issues[0]['detail'])
            stats.setdefault('javac_errors', {}).setdefault((m_.group(1) if m_ else '?')[:60], 0)
            stats['javac_errors'][(m_.group(1) if m_ else '?')[:60]] += 1
            stats.setdefault('javac_example', {'detail': issues[0]['detail'][-600:], 'files': c['files']})
            continue
        stats['judged'] += 1
        for k in ('lookups', 'natives', 'classes'):
            stats[k] += st.get(k, 0)
        for i in issues:
            sig = {'kind': i['kind']}
            for k in ('sub', 'where', 'boxed_primitive', 'nested', 'name_has_underscore'):
                if i.get(k) is not None:
                    sig[k] = i[k]
            ctx.add_violation(sig, json.dumps(i)[:400], {'issue': i, 'files': c['files'], 'options': c['options']})
    # probe of the recorded finding C07-K1: the java and jni generators take their identifier styles from independent settings
    mis = copy.deepcopy(FULL)
    mis['java']['identifier'] = {'method': 'snake_case', 'type': 'snake_case'}
    pc = {'files': {'m.pydjinni': MPRE + 'talker = interface +cpp +java { say_it(a_b: i32) -> string; }\n'}, 'options': {'generate': mis},
          'ops': [['parse', 'm.pydjinni'], ['generate', 'java']], 'keep_content': True, 'include_support': True, 'timeout_s': 60}
    okp, resp = run_impl('gen_run', {'cases': [pc]}, timeout=300)
    if okp and all(s_['r'] == 'ok' for s_ in resp['results'][0].get('steps', [{'r': 'x'}])):
        issues, _ = jvm_judge.judge_jni(resp['results'][0]['tree'])
        if issues:
            ctx.add_violation({'kind': 'lookup-fails-when-styles-differ', 'config': 'java.identifier != jni.identifier'},
                              'with java.identifier.{method,type}=snake_case and the jni defaults: %s' % json.dumps(issues[0])[:300],
                              {'issues': issues[:6], 'files': pc['files'], 'options': pc['options']})
    ctx.extra_cov['javap_judge'] = stats
    ctx.log.append('javap judge: %s' % stats)
    if stats['judged'] < 0.5 * n:
        ctx.broken.append({'kind': 'harness', 'name': 'C07 javap judge', 'detail': 'only %d of %d programs could be judged: %s' % (stats['judged'], n, stats)})
