"""C06 - Parsing any input terminates with an AST or positioned diagnostics only."""
import json, random, time
from .. import gen_idl, kfront, mutate_text
from .c05 import data

TRUSTED = ['ANTLR lexer/parser incl. error recovery (the model starts from whatever tree it returns) and their termination',
           'pydantic validation of AST nodes']
ASSUMPTIONS = ['model = Idl/Visitor.v + Idl/Front.v with every None-dereference of the Python visitor as an explicit Crash; K-front compares '
               'outcome class (result / diagnostics / bare exception / internal error) and the diagnostics on malformed inputs',
               'known finding C06-K1: the visitor crashes on error-recovered trees at the recorded sites (syntax errors present)']


def unknown_everywhere(r):
    """references to unknown types in every syntactic position"""
    u = lambda: data(r.choice(['nope', 'a.nope', '.nope', 'missing_t']), [data('i32')] if r.random() < 0.3 else [])
    wrap = lambda t: r.choice([t, data('list', [t]), data('map', [data('string'), t]), dict(t, opt=True)])
    items = [
        {'k': 'record', 'name': 'r1', 'comment': None, 'targets': [], 'deriving': r.choice([None, ['ord'], ['eq']]),
         'fields': [{'name': 'a', 'comment': None, 'type': wrap(u())}]},
        {'k': 'interface', 'name': 'i1', 'comment': None, 'main': False, 'targets': [], 'members': [
            {'k': 'method', 'name': 'm', 'comment': None, 'static': False, 'const': False, 'async': r.random() < 0.3,
             'params': [{'name': 'p', 'type': wrap(u())}], 'throws': r.choice([None, [u()], [u(), u()]]), 'ret': r.choice([None, wrap(u())])},
            {'k': 'prop', 'name': 'pp', 'comment': None, 'type': wrap(u())}]},
        {'k': 'function', 'name': 'f1', 'comment': None, 'fn': {'k': 'fn', 'targets': [], 'params': [{'name': 'p', 'type': wrap(u())}],
                                                                 'throws': r.choice([None, [u()]]), 'ret': r.choice([None, u()])}},
        {'k': 'error', 'name': 'e1', 'comment': None, 'codes': [{'name': 'c', 'comment': None, 'params': [{'name': 'p', 'type': wrap(u())}]}]},
        {'k': 'record', 'name': 'r2', 'comment': None, 'targets': [], 'deriving': None,
         'fields': [{'name': 'cb', 'comment': None, 'type': {'k': 'fn', 'targets': None, 'params': [{'name': 'x', 'type': u()}], 'throws': [u()], 'ret': u()}}]},
    ]
    r.shuffle(items)
    items = items[:r.randint(1, 5)]
    if r.random() < 0.4:
        items = [{'k': 'namespace', 'name': 'n.m', 'comment': None, 'items': items}]
    return {'files': {'main.pydjinni': {'loads': [], 'items': items}}, 'root': 'main.pydjinni'}


def line_col_ok(files, pos):
    """the diagnostic names a file that exists and a line/column inside it"""
    if not pos or not pos.get('file'):
        return True    # file-level diagnostics (missing root file) carry the path in the message
    text = files.get(pos['file'])
    if text is None:
        return False
    if not pos.get('start'):
        return True
    line, col = pos['start']
    lines = text.replace('\r\n', '\n').replace('\r', '\n').split('\n')   # read_text() applies universal newlines
    # ANTLR reports EOF problems on the last line, one past the last column
    return 1 <= line <= len(lines) + 1 and 0 <= col <= (len(lines[line - 1]) if line <= len(lines) else 0) + 1


def run(ctx):
    r = random.Random(ctx.rng.random())
    n = ctx.n(160, 2000)
    cases, kinds = [], []
    for i in range(n):
        x = i % 8
        if x == 7:
            p = unknown_everywhere(r)
            cases.append({'files': gen_idl.print_program(p, None, 'canon'), 'root': p['root']}); kinds.append('unknown-type')
            continue
        g = gen_idl.Gen(r, max_decls=r.choice([2, 4, 6]), multi_file=0.3 if x == 6 else 0.0, p_comment=0.2)
        p = g.program()
        files = gen_idl.print_program(p, None, 'canon')
        victim = r.choice(sorted(files))
        kind, files[victim] = mutate_text.mutate(r, files[victim])
        cases.append({'files': files, 'root': p['root']}); kinds.append(kind)
    # syntactically VALID programs whose doc comments carry documentation commands in every shape (both spellings, without parameter,
    # look-alikes): comments are free text, parsing must not depend on them
    from . import c03, c16
    for i in range(ctx.n(16, 160)):
        g = gen_idl.Gen(r, max_decls=r.choice([3, 6]), multi_file=0.2, p_comment=0.3)
        p = g.program()
        c03.add_commands(r, p)
        cases.append({'files': gen_idl.print_program(p, None, 'canon'), 'root': p['root']}); kinds.append('doc-commands')
    # import graphs (trees, shared files, cycles, self imports, missing files, non-canonical spellings such as d/../x): the outcome must be
    # a result or the tool's diagnostics.  Cycles in which a re-parsed file has several imports do not terminate in practice (recorded
    # finding C16-K3, judged by C16); they are left out here.
    gcases, _ = c16.make_cases(r, ctx.n(30, 300))
    for c in gcases:
        if not c.get('_skip_model'):
            cases.append(c); kinds.append('import-graph')
    # @extern files (name line written in several YAML spellings: the loader finds a position for the plain one only) whose types are used,
    # declared again in the IDL, or both - directly and through an imported file: diagnostics, never an internal error
    from ..common import run_impl
    from .c17 import FULL as _FULL
    okx, resx = run_impl('gen_run', {'cases': [{'files': {'e.pydjinni': 'ext_t = record { a: i32; }\n'}, 'ops': [['parse', 'e.pydjinni'], ['generate', 'yaml']],
                                                'options': {'generate': dict(_FULL)}, 'keep_content': True}]})
    ext_yaml = resx['results'][0]['tree'].get('out/yaml/ext_t.yaml') if okx and 'tree' in resx['results'][0] else None
    if not ext_yaml:
        ctx.broken.append({'kind': 'harness', 'name': 'extern fixture', 'detail': str(resx)[-800:]}); return
    spellings = [lambda y: y, lambda y: y.replace('name: ext_t', 'name: "ext_t"', 1), lambda y: y.replace('name: ext_t', "name: ext_t   # the type", 1),
                 lambda y: y.replace('name: ext_t', "'name': ext_t", 1), lambda y: y.replace('name: ext_t', 'name:   ext_t', 1)]
    bodies = ['u = record { x: ext_t; }\n', 'ext_t = enum { a; }\n', 'ext_t = enum { a; }\nu = record { x: ext_t; }\n', 'u = record { x: ext_t; y: nope; }\n',
              'namespace n { ext_t = enum { a; } u = record { x: ext_t; y: .ext_t; } }\n']
    for sp in spellings:
        for b_ in bodies:
            cases.append({'files': {'ext.yaml': sp(ext_yaml), 'main.pydjinni': '@extern "ext.yaml"\n' + b_}, 'root': 'main.pydjinni'}); kinds.append('extern')
            cases.append({'files': {'ext.yaml': sp(ext_yaml), 'lib.pydjinni': '@extern "ext.yaml"\nlibt = enum { a; }\n', 'main.pydjinni': '@import "lib.pydjinni"\n' + b_},
                          'root': 'main.pydjinni'}); kinds.append('extern-via-import')
    t0 = time.time()
    mism, obs = kfront.run(ctx, 'c06', cases, parts=('errors',))
    if obs is None:
        return
    kfront.parse_corr(ctx, 'c06', cases, obs, max_texts=ctx.n(120, 1200))
    dist = {'outcome': {}, 'mutation': {}, 'wall_s_impl_and_model': round(time.time() - t0, 1)}
    for c, k, o in zip(cases, kinds, obs):
        dist['outcome'][o['outcome']] = dist['outcome'].get(o['outcome'], 0) + 1
        dist['mutation'][k] = dist['mutation'].get(k, 0) + 1
        rep = {'files': c['files'], 'root': c['root'], 'mutation': k}
        syn = any(e for f in (o.get('cst') or {}).values() for e in (f.get('syntax') or []))
        if o['outcome'] == 'internal':
            e = o['exc']
            fr = e.get('frame') or ''
            where = 'visitor' if fr.startswith('parser.py:visit') or fr == 'parser.py:_position' else ('parse' if fr == 'parser.py:parse' else fr)
            ctx.add_violation({'kind': 'internal-error', 'syntax_errors': syn, 'where': where, 'site': '%s@%s' % (e.get('cls'), fr)},
                              'internal %s at %s (%s) on %s input' % (e.get('cls'), fr, e.get('msg'), 'syntactically invalid' if syn else 'syntactically VALID'),
                              dict(rep, exc=e))
            continue
        items = o['exc']['items'] if o['outcome'] == 'list' else ([o['exc']['item']] if o['outcome'] == 'app' else [])
        if o['outcome'] == 'app' and o['exc']['item']['code'] not in (2, 170):
            ctx.add_violation({'kind': 'unexpected-bare-exception', 'cls': o['exc']['item']['cls']}, 'bare %s' % o['exc']['item'], rep)
        for it in items:
            if not line_col_ok(c['files'], it['pos']):
                ctx.add_violation({'kind': 'diagnostic-position-outside-file', 'cls': it['cls']},
                                  'diagnostic %s points outside its file' % json.dumps(it)[:300], rep)
                break
    mm = [{'files': cases[i]['files'], 'bad_parts': parts, 'impl_outcome': o['outcome'], 'impl_exc': o.get('exc') if o['outcome'] == 'internal' else None}
          for i, parts, o in (mism or [])]
    ctx.add_corr('K-front/malformed', len(cases), len({json.dumps(c['files'], sort_keys=True) for c in cases}), mm,
                 [{'files': cases[0]['files'], 'mutation': kinds[0]}], dist,
                 'token deletion/duplication/swap/truncation/insertion/replacement, multi-edits, raw character noise, deep nesting (types, '
                 'namespaces, inline functions; balanced and unbalanced) of generated programs, mutations inside imported files, and unknown '
                 'types in every syntactic position (field, parameter, return, throws, property, error-code parameter, inline function, '
                 'generic argument, optional); valid programs with documentation commands of every shape in their comments; import graphs with '
                 'cycles, self imports, missing files and non-canonical path spellings; @extern files in five YAML spellings of the name line whose types are used and / or declared again')
