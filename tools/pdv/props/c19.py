"""C19 - CLI exit status follows the documented return-code table; CLI equals API."""
import json, random
from .. import coqtool, gen_idl
from ..common import run_impl
from ..emit import *

TRUSTED = ['click (argument parsing, command chaining, its own usage errors with status 2)', 'rich logging handler',
           'the API-level outcome (exception classes in reporting order) is observed by running the documented API chain in-process']
ASSUMPTIONS = ['model = Sys/Cli.v: main()\'s mapping from pipeline outcome to exit status over the exception table regenerated '
               'from /repo (Gen/ReturnCodes.v), and the operation sequence of a chained generate invocation']

YAML = 'generate:\n  list_processed_files: report.json\n  cpp:\n    out: out/cpp\n  java:\n    out: out/java\n    package: com.ex\n  jni:\n    out: out/jni\n    namespace: ex::jni\n  objc:\n    out: out/objc\n  objcpp:\n    out: out/objcpp\n    namespace: ex::objcpp\n  yaml:\n    out: out/yaml\n'

IDLS = {
    'valid': 'foo = enum { a; b; }\nrec = record { x: i32; y: list<foo>; }\nitf = interface +cpp { get(a: rec) -> foo; }\n',
    'valid2': 'namespace n { col = flags { r; g; b; none_ = none; all_ = all; } }\ncb = interface -cpp { on_evt(c: n.col); }\n',
    'syntax': 'foo = enum { a b; }\n',
    'unknown_type': 'rec = record { x: nope; }\n',
    'unknown_then_rule': 'rec = record { x: nope; }\nitf = interface { get() -> i32; }\nr2 = record { i: itf; }\n',
    'import_missing_then_unknown': '@import "missing.pydjinni"\nrec = record { x: nope; }\n',
    'rule': 'itf = interface { m(); }\nrec = record { i: itf; }\n',
    'duplicate': 'foo = enum { a; }\nfoo = enum { b; }\n',
    'keyword': 'rec = record { x: i32; }\nclass = enum { a; }\n',
    'static_noncpp': 'itf = interface +java { static m(); }\n',
    # @extern files: well-formed but not matching the schema, not well-formed YAML (error in the first / in a later document), missing
    'extern_schema': '@extern "ext_schema.yaml"\nfoo = enum { a; }\n',
    'extern_bad_yaml': '@extern "ext_bad.yaml"\nfoo = enum { a; }\n',
    'extern_bad_yaml2': '@extern "ext_bad2.yaml"\nfoo = enum { a; }\n',
    'extern_missing': '@extern "ext_nowhere.yaml"\nfoo = enum { a; }\n',
}
EXTERN_FILES = {'ext_schema.yaml': 'name: 7\nbogus: true\n', 'ext_bad.yaml': 'name: [unclosed\n',
                'ext_bad2.yaml': '---\n---\nname: x\n  bad: : indentation\n   - [\n'}


def scenario(r):
    idl_kind = r.choice(list(IDLS) + ['valid', 'valid', 'missing_idl'])
    files = {}
    idl = 'in.pydjinni'
    if idl_kind != 'missing_idl':
        files[idl] = IDLS[idl_kind]
    if idl_kind.startswith('extern_'):
        files.update(EXTERN_FILES)
    cfg_kind = r.choice(['default'] * 6 + ['named'] * 2 + ['none_opts'] * 3 + ['missing', 'invalid_yaml', 'bad_key', 'bad_ext', 'bad_list_elem', 'bad_nested'])
    config, opts = None, []
    if cfg_kind == 'default':
        files['pydjinni.yaml'] = YAML
    elif cfg_kind == 'named':
        files['conf/my.yaml'] = YAML; config = 'conf/my.yaml'
    elif cfg_kind == 'none_opts':
        config = r.choice(['None', 'none', 'False'])
        opts = ['generate.cpp.out=out/cpp', 'generate.java.out=out/java', 'generate.java.package=com.ex', 'generate.jni.out=out/jni',
                'generate.jni.namespace=ex::jni', 'generate.objc.out=out/objc', 'generate.objcpp.out=out/objcpp',
                'generate.objcpp.namespace=ex::objcpp', 'generate.yaml.out=out/yaml', 'generate.list_processed_files=report.json']
    elif cfg_kind == 'missing':
        config = 'nope.yaml'
    elif cfg_kind == 'invalid_yaml':
        files['pydjinni.yaml'] = 'generate: [unclosed\n'
    elif cfg_kind == 'bad_key':
        files['pydjinni.yaml'] = YAML + 'bogus: 1\n'
    elif cfg_kind == 'bad_list_elem':
        # an ill-typed value INSIDE a list (the error location carries an integer index)
        files['pydjinni.yaml'] = YAML + r.choice(['  default_deriving: [eq, bogus]\n', '  include_dirs: [includes, [not, a, path]]\n', '  default_deriving: [ord, 7]\n'])
    elif cfg_kind == 'bad_nested':
        files['pydjinni.yaml'] = YAML.replace('    out: out/cpp\n', '    out: out/cpp\n    identifier:\n      type:\n        style: Weird\n')
    elif cfg_kind == 'bad_ext':
        files['c.ini'] = 'x'; config = 'c.ini'
    x = r.random()
    if x < 0.07:
        opts = opts + [r.choice(['generate.cpp.out', 'foo', 'a.b'])]          # malformed: no '='
    elif x < 0.27:
        opts = opts + ['generate.cpp.out=other/cpp']
    elif x < 0.33:
        opts = opts + ['generate.cpp.identifier.type=Weird']                  # ill-typed
    elif x < 0.40:
        opts = opts + [r.choice(['generate.default_deriving=[eq,bogus]', 'generate.default_deriving=[bogus]', 'generate.include_dirs=[a,b]'])]   # (ill-typed) list elements
    targets = r.sample(['cpp', 'java', 'objc', 'yaml'], r.randint(1, 3))
    clean = r.random() < 0.4
    leftovers = []
    if clean or r.random() < 0.3:
        leftovers = [r.choice(['out/cpp/stale.hpp', 'out/java/old/Stale.java', 'out/jni/stale.cpp', 'out/objc/Stale.h', 'out/yaml/stale.yaml', 'other/cpp/stale.hpp'])
                     for _ in range(r.randint(1, 3))]
    return {'files': files, 'idl': idl, 'config': config, 'opts': opts, 'targets': targets, 'clean': clean, 'leftovers': leftovers,
            '_kind': [idl_kind, cfg_kind]}


PRE = '''From Coq Require Import List String Bool Arith.
From PDV Require Import Gen.ReturnCodes Sys.Cli.
Import ListNotations. Open Scope string_scope. Open Scope list_scope.
Definition onat_eqb (a b : option nat) := match a, b with Some x, Some y => Nat.eqb x y | None, None => true | _, _ => false end.
Definition case_ok (c : outcome * nat) : bool := onat_eqb (exit_status exception_classes (fst c)) (Some (snd c)).
Fixpoint bad_idx (i : nat) (cs : list (outcome * nat)) : list nat :=
  match cs with [] => [] | c :: t => if case_ok c then bad_idx (S i) t else i :: bad_idx (S i) t end.
'''


def run(ctx):
    r = random.Random(ctx.rng.random())
    n = ctx.n(64, 500)
    cases = [scenario(r) for _ in range(n)]
    ok, res = run_impl('cli_run', {'cases': cases}, timeout=3000)
    if not ok:
        ctx.broken.append({'kind': 'harness', 'name': 'cli_run driver', 'detail': str(res)}); return
    items, keep, mism = [], [], []
    dist = {'status': {}, 'idl': {}, 'cfg': {}, 'clean': 0, 'multi_target': 0}
    for c, cl, ap in zip(cases, res['cli'], res['api']):
        dist['status'][str(cl['status'])] = dist['status'].get(str(cl['status']), 0) + 1
        dist['idl'][c['_kind'][0]] = dist['idl'].get(c['_kind'][0], 0) + 1
        dist['cfg'][c['_kind'][1]] = dist['cfg'].get(c['_kind'][1], 0) + 1
        dist['clean'] += c['clean']; dist['multi_target'] += len(c['targets']) > 1
        rep = {'case': {k: v for k, v in c.items() if not k.startswith('_')}, 'cli': {k: cl[k] for k in ('status', 'traceback', 'output')}, 'api': {k: v for k, v in ap.items() if k != 'tree'},
               'how': 'tools/pdv/impl/cli_run.py: python -m pydjinni ... in a scratch dir vs the documented API chain'}
        if 'harness_error' in ap:
            mism.append(rep); continue
        if cl['traceback']:
            ctx.add_violation({'kind': 'traceback', 'exc': (cl['output'].strip().splitlines() or ['?'])[-1].split(':')[0][:40]},
                              'CLI ended with a Python traceback (status %s)' % cl['status'], rep)
            continue
        if ap['outcome'] == 'internal':
            ctx.add_violation({'kind': 'api-internal-error', 'exc': ap['exc'].get('cls')}, 'API chain raised %s' % ap['exc'], rep)
            continue
        # oracle on the implementation: documented code of the FIRST reported error; 0 only with equal outputs
        want = 0 if ap['outcome'] == 'ok' else ap['codes'][0]
        if cl['status'] != want:
            ctx.add_violation({'kind': 'wrong-status', 'multi_error': ap['outcome'] == 'list' and len(set(ap['codes'])) > 1},
                              'CLI exit status %s, first reported error has code %s (%s)' % (cl['status'], want, ap.get('classes')), rep)
        elif ap['outcome'] == 'ok' and cl['tree'] != ap['tree']:
            diff = sorted(set(cl['tree'].items()) ^ set(ap['tree'].items()))[:8]
            ctx.add_violation({'kind': 'cli-api-differ', 'clean': c['clean'], 'multi_target': len(c['targets']) > 1},
                              'CLI and the documented API chain leave different files: %s' % [d[0] for d in diff], dict(rep, diff=diff))
        oc = 'Success' if ap['outcome'] == 'ok' else ('AppExc %s' % cstr(ap['classes'][0]) if ap['outcome'] == 'app' else 'AppList %s' % cstrs(ap['classes']))
        items.append('(%s, %s)' % (oc, cnat(cl['status'])))
        keep.append(rep)
    body = PRE + 'Definition cases := %s.\nEval vm_compute in (bad_idx 0 cases).\n' % clist(items)
    rc, out, err = coqtool.run_cases('c19', body)
    bad = coqtool.parse_nat_list(out) if rc == 0 else None
    if bad is None:
        ctx.broken.append({'kind': 'correspondence', 'name': 'K-cli (coqc failed)', 'detail': (err + out)[-1500:]}); return
    mism += [keep[i] for i in bad]
    nontriv = len({json.dumps([c['_kind'], c['targets'], c['clean'], c['opts'][-1:] if c['opts'] else []]) for c in cases})
    ctx.add_corr('K-cli', len(cases), nontriv, mism, [{'case': {k: v for k, v in cases[0].items() if k != 'files'}, 'cli_status': res['cli'][0]['status']}], dist,
                 'subprocess matrix: 11 IDL kinds (valid, syntax/unknown/rule/duplicate/keyword/multi-error, missing) x 8 configuration kinds x '
                 '-o variants (valid, malformed, ill-typed) x 1-3 targets in random order x --clean with leftovers; exit status vs the model applied '
                 'to the API-level outcome; file trees vs the API chain')
