"""C16 - Imports: each file is loaded once, cycles are diagnosed, search order is fixed."""
import itertools, json, os, random
from .. import gen_idl, kfront
from .c17 import FULL

TRUSTED = ['pathlib (joining, parent, exists/is_dir); the file system', 'ANTLR; pydantic',
           "Python's recursion limit as the mechanism that ends import cycles (modelled as fuel: only the class of the outcome is compared on cyclic graphs)"]
ASSUMPTIONS = ['model = Idl/Front.v (visitFilepath search, visitImportDef recursion, shared resolver) over a finite file system',
               'known findings C16-K1 (diamond rejected) and C16-K2 (cycle through declaring files not diagnosed)']

DIRS = ['', 'sub/', 'inc/', 'deep/x/']


def ref_search(files, dirs_exist, importer, spelled, incdirs):
    """reference for the documented search order (root-relative paths; '..' resolved lexically)"""
    def norm(p):
        return os.path.normpath(p)
    cands = [spelled, os.path.join(os.path.dirname(importer), spelled)] + [os.path.join(d, spelled) for d in incdirs]
    for c in cands:
        n = norm(c)
        if n in files:
            return n, cands
    return None, cands


def graph_case(r, n_files, edges, decl_counts, missing, decoys, spell_mode, incdirs_used):
    """edges: (i, j) file i imports file j; missing: list of i importing a non-existing file"""
    prefix = r.choice(['', 'proj/', 'proj/'])     # with a prefix the working directory is not the root file's directory
    paths = [prefix + 'main.pydjinni'] + [prefix + r.choice(DIRS) + 'f%d.pydjinni' % i for i in range(1, n_files)]
    incdirs = []
    files = {}
    intended = {}   # (importer path, spelled) -> intended target path
    bodies = {p: {'imports': [], 'decls': ['t%d_%d' % (i, k) for k in range(decl_counts[i])]} for i, p in enumerate(paths)}
    for (i, j) in edges:
        src, dst = paths[i], paths[j]
        mode = r.choice(spell_mode)
        if mode == 'rel':
            sp = os.path.relpath(dst, os.path.dirname(src) or '.')
        elif mode == 'cwd':
            sp = dst                                  # literal path from the working directory
        else:                                         # via an include directory
            d = os.path.dirname(dst) or '.'
            sp = os.path.basename(dst)
            if os.path.normpath(os.path.join(os.path.dirname(src), sp)) != dst:
                if d not in incdirs:
                    incdirs.append(d)
            else:
                sp = os.path.relpath(dst, os.path.dirname(src) or '.')
        # non-canonical spellings of the same path: './x', 'd/../x' (d an existing directory next to the importer)
        if mode == 'rel' and r.random() < 0.3:
            here = os.path.dirname(src)
            subdirs = sorted({os.path.relpath(os.path.dirname(q), here or '.').split(os.sep)[0] for q in paths
                              if os.path.dirname(q) != here and os.path.dirname(q).startswith(here + '/' if here else '') and os.path.dirname(q)})
            subdirs = [d for d in subdirs if d not in ('..', '.')]
            if True:
                sp = (r.choice(subdirs) + '/../' + sp) if subdirs and r.random() < 0.6 else './' + sp
        bodies[src]['imports'].append(sp)
    for i in missing:
        bodies[paths[i]]['imports'].append('nowhere%d.pydjinni' % i)
    # traps: a bare file name that exists only next to some OTHER file of the program (e.g. next to an importer further
    # up the chain): per the documented search order it is missing from here
    for i in range(1, n_files):
        if r.random() < 0.25:
            others = [q for q in paths if os.path.dirname(q) != os.path.dirname(paths[i])]
            if others:
                bodies[paths[i]]['imports'].append(os.path.basename(r.choice(others)))
    for p, b in bodies.items():
        text = ''.join('@import "%s"\n' % s for s in b['imports']) + ''.join('%s = enum { a; }\n' % d for d in b['decls'])
        files[p] = text
    # one spelling, different files: importers in different directories each import "common.pydjinni" and mean their own sibling
    # (the search is per importing file: literal path, directory of the importer, include directories)
    if n_files >= 2 and r.random() < 0.3:
        import re as _re
        first_in_dir = {}
        for i, p in enumerate(paths):
            first_in_dir.setdefault(os.path.dirname(p), i)
        for d, i in list(first_in_dir.items())[:3]:
            cp = os.path.join(d, 'common.pydjinni') if d else 'common.pydjinni'
            if cp not in files:
                files[cp] = 'common_in_%s = enum { a; }\n' % (_re.sub(r'\W', '_', d) or 'top')
                files[paths[i]] = '@import "common.pydjinni"\n' + files[paths[i]]
    # decoys: same basename in a directory that is searched LATER; they declare a type that must never appear
    for k in range(decoys):
        victim = r.choice(paths[1:]) if n_files > 1 else None
        if victim:
            d = r.choice(['decoy/', 'inc2/'])
            dp = d + os.path.basename(victim)
            if dp not in files:
                files[dp] = 'decoy_%d = enum { a; }\n' % k
                if d.rstrip('/') not in incdirs:
                    incdirs.append(d.rstrip('/'))
    return paths, files, incdirs, bodies


def reach(paths, files, incdirs):
    """reference resolution of the import graph: adjacency on real files, missing list"""
    adj, miss = {}, []
    import re
    for p, text in files.items():
        adj[p] = []
        for ln, line in enumerate(text.split('\n'), 1):
            m = re.match(r'@import "([^"]*)"', line)
            if m:
                tgt, _ = ref_search(files, None, p, m.group(1), incdirs)
                if tgt is None:
                    miss.append((p, ln))
                else:
                    adj[p].append(tgt)
    return adj, miss


def classify(adj, root):
    """tree / dag-shared / cyclic, reachable set, files on a cycle"""
    seen, stack, cyc = {}, [], set()
    paths_count = {}
    def dfs(u):
        paths_count[u] = paths_count.get(u, 0) + 1
        if u in stack:
            cyc.update(stack[stack.index(u):])
            return
        if paths_count[u] > 50:
            return
        stack.append(u)
        for v in adj.get(u, []):
            dfs(v)
        stack.pop()
    dfs(root)
    kind = 'cyclic' if cyc else ('shared' if any(c > 1 for c in paths_count.values()) else 'tree')
    return kind, set(paths_count), cyc


def make_cases(r, n):
    cases, meta = [], []
    for i in range(n):
        nf = r.randint(1, 5)
        shape = r.choice(['tree', 'tree', 'dag', 'cycle', 'cycle', 'self', 'random'])
        edges = []
        if shape == 'tree':
            edges = [(r.randrange(0, j), j) for j in range(1, nf)]
        elif shape == 'dag':
            edges = [(a, b) for a in range(nf) for b in range(a + 1, nf) if r.random() < 0.55]
        elif shape == 'cycle':
            k = r.randint(2, nf) if nf >= 2 else 1
            order = list(range(nf)); 
            edges = [(order[a], order[(a + 1) % k]) for a in range(k)] + [(r.randrange(0, j), j) for j in range(k, nf)]
        elif shape == 'self':
            edges = [(r.randrange(nf),) * 2] + [(r.randrange(0, j), j) for j in range(1, nf)]
        else:
            edges = [(a, b) for a in range(nf) for b in range(nf) if r.random() < 0.3]
        edges = [e for e in dict.fromkeys(edges)]
        decls = [r.choice([0, 1, 1, 2]) for _ in range(nf)]
        if shape in ('cycle', 'self') and r.random() < 0.5:
            decls = [0] * nf
        missing = [r.randrange(nf)] if r.random() < 0.2 else []
        paths, files, incdirs, bodies = graph_case(r, nf, edges, decls, missing, r.choice([0, 0, 1, 2]), r.choice([['rel'], ['rel', 'cwd'], ['rel', 'inc'], ['rel', 'cwd', 'inc']]), True)
        adj, miss = reach(paths, files, incdirs)
        kind, reachable, cyc = classify(adj, paths[0])
        c = {'files': files, 'root': paths[0], 'options': {'generate': dict(FULL, include_dirs=incdirs)}}
        c['timeout_s'] = 6
        if kind == 'cyclic':
            c['_parts'] = ('error_codes',); c['_loose_app'] = True
            # more than one import statement in a file that is parsed again on every turn of the cycle: the number of
            # parse() activations grows exponentially with the recursion limit (impl AND model) - not evaluated on the model
            from_cycle = set(); todo = list(cyc)
            while todo:
                u = todo.pop()
                if u not in from_cycle:
                    from_cycle.add(u); todo += adj.get(u, [])
            if any(len(adj.get(u, [])) + sum(1 for (p_, _l) in miss if p_ == u) > 1 for u in from_cycle):
                c['_skip_model'] = True
        else:
            c['_parts'] = ('errors', 'def_names', 'imports')
        cases.append(c)
        meta.append((kind, reachable, cyc, miss, adj, shape))
    return cases, meta


def run(ctx):
    r = random.Random(ctx.rng.random())
    n = ctx.n(90, 900)
    cases, meta = make_cases(r, n)
    # what an import makes available is visible to every LATER lookup: an earlier import looks `status` up from inside namespace net and finds the
    # outer declaration; a later import declares net.status; the importer's own reference from inside net must bind to net.status
    for k_ in range(ctx.n(4, 16)):
        nm, ns = r.choice(['status', 'item', 'cfg']), r.choice(['net', 'io.core'])
        via_inc = r.random() < 0.5
        files = {'main.pydjinni': '@import "early.pydjinni"\n@import "%s"\nnamespace %s {\n    monitor = record { s: %s; }\n}\n' % ('late.pydjinni' if not via_inc else 'late.pydjinni', ns, nm),
                 'early.pydjinni': '%s = enum { outer_one; }\nnamespace %s {\n    probe = record { s: %s; }\n}\n' % (nm, ns, nm),
                 ('inc/late.pydjinni' if via_inc else 'late.pydjinni'): 'namespace %s {\n    %s = record { inner_field: i32; }\n}\n' % (ns, nm)}
        incdirs = ['inc'] if via_inc else []
        adj, miss = reach(sorted(files), files, incdirs)
        kind, reachable, cyc = classify(adj, 'main.pydjinni')
        cases.append({'files': files, 'root': 'main.pydjinni', 'options': {'generate': dict(FULL, include_dirs=incdirs)}, 'timeout_s': 6,
                      '_parts': ('errors', 'def_names', 'imports', 'refs')})
        meta.append((kind, reachable, cyc, miss, adj, 'shadow-by-later-import'))
    mism, obs = kfront.run(ctx, 'c16', cases)
    if obs is None:
        return
    dist = {'kind': {}, 'shape': {}, 'outcome': {}, 'with_missing': 0, 'with_incdirs': 0}
    import re
    for c, (kind, reachable, cyc, miss, adj, shape), o in zip(cases, meta, obs):
        dist['kind'][kind] = dist['kind'].get(kind, 0) + 1
        dist['shape'][shape] = dist['shape'].get(shape, 0) + 1
        dist['outcome'][o['outcome']] = dist['outcome'].get(o['outcome'], 0) + 1
        dist['with_missing'] += bool(miss); dist['with_incdirs'] += bool(c['options']['generate']['include_dirs'])
        rep = {'files': c['files'], 'root': c['root'], 'include_dirs': c['options']['generate']['include_dirs'], 'graph': kind}
        if o['outcome'] == 'timeout':
            ctx.add_violation({'kind': 'hang', 'graph': kind}, 'parse() did not return within %ss on an import graph of %d files' % (c['timeout_s'], len(c['files'])), rep)
            continue
        if o['outcome'] == 'internal':
            ctx.add_violation({'kind': 'internal-error', 'exc': o['exc'].get('cls'), 'frame': o['exc'].get('frame')}, 'internal error %s' % o['exc'], rep)
            continue
        items = o['exc']['items'] if o['outcome'] == 'list' else ([o['exc']['item']] if o['outcome'] == 'app' else [])
        dup = o['outcome'] == 'app' and items[0]['code'] == 170 and 'already exists' in items[0]['desc']
        expected_names = sorted(n for p in reachable for n in re.findall(r'^(\w+) = enum', c['files'][p], re.M))
        miss_reach = [(p, ln) for p, ln in miss if p in reachable]
        if kind == 'cyclic':
            # every file on the cycle - and everything those files import - is parsed again on each turn of the cycle
            from_cycle = set()
            todo = list(cyc)
            while todo:
                u = todo.pop()
                if u not in from_cycle:
                    from_cycle.add(u); todo += adj.get(u, [])
            has_decls = any(re.search(r'^\w+ = enum', c['files'][p], re.M) for p in from_cycle)
            circ = [i for i in items if i['code'] == 150 and 'Circular import' in i['desc']]
            if not circ:
                ctx.add_violation({'kind': 'cycle-not-diagnosed', 'declarations': has_decls, 'dup_raised': dup},
                                  'import cycle through %s ended with %s instead of a circular-import diagnostic' % (sorted(cyc), [(i['cls'], i['desc'][:60]) for i in items] or o['outcome']), rep)
            continue
        if dup:
            ctx.add_violation({'kind': 'diamond-rejected'} if kind == 'shared' else {'kind': 'tree-rejected-as-duplicate'},
                              'acyclic import graph (%s) rejected: %s' % (kind, items[0]['desc']), rep)
            continue
        got_names = sorted(d['name'] for d in o.get('defs', []))
        if shape == 'shadow-by-later-import':
            # the importer's reference (the last one) is bound to the record the LATER import declared inside the namespace
            refs = [x for x in o.get('refs', []) if (x.get('pos') or {}).get('file') == c['root']]
            b_ = refs[-1].get('bound') if refs else None
            if not b_ or b_.get('cls') != 'Record' or not b_.get('ns'):
                ctx.add_violation({'kind': 'import-not-visible-to-later-lookup'},
                                  "the importer's reference from inside the namespace is bound to %s, the later import declares the closer type" % json.dumps(b_)[:200], rep)
            continue
        if kind == 'tree':
            if got_names != expected_names:
                ctx.add_violation({'kind': 'closure-wrong', 'decoy': any(n.startswith('decoy') for n in got_names)},
                                  'declarations seen by the importer %s, transitive closure per the documented search order %s' % (got_names, expected_names), rep)
        else:   # shared without duplicate error: each declaration once
            if sorted(set(got_names)) != expected_names or len(got_names) != len(set(got_names)):
                ctx.add_violation({'kind': 'shared-file-not-once'}, 'declarations %s, expected once each: %s' % (got_names, expected_names), rep)
        want_missing = sorted(set((p, ln) for p, ln in miss_reach))
        got_missing = sorted(set(((i['pos'] or {}).get('file'), ((i['pos'] or {}).get('start') or [0])[0]) for i in items if i['code'] == 2))
        if want_missing != got_missing:
            ctx.add_violation({'kind': 'missing-file-diagnostic'}, 'missing-import diagnostics at %s, expected at %s' % (got_missing, want_missing), rep)
        if (o['outcome'] == 'ok') != (not want_missing):
            ctx.add_violation({'kind': 'acceptance'}, 'outcome %s with missing imports %s' % (o['outcome'], want_missing), rep)
    mm = [{'files': cases[i]['files'], 'include_dirs': cases[i]['options']['generate']['include_dirs'], 'bad_parts': parts, 'impl_outcome': o['outcome'],
           'impl': o.get('exc')} for i, parts, o in (mism or [])]
    ctx.add_corr('K-front/imports', len(cases), len({json.dumps(c['files'], sort_keys=True) for c in cases}), mm,
                 [{'files': cases[0]['files']}], dist,
                 'import graphs over 1-5 files: trees, DAGs with shared files, cycles of every length, self imports, random graphs, missing '
                 'leaves; files placed in 4 directories; directives spelled relative to the importer, from the working directory, or through '
                 'include directories; decoy files with the same name in later-searched directories')
