"""C01 - Accepted IDL yields glue code that compiles, or a documented diagnostic."""
import copy, json, random, re
from concurrent.futures import ThreadPoolExecutor
from .. import gen_idl, compile_judge, kjinja
from ..common import run_impl
from .c17 import FULL

TRUSTED = ['g++ 12 -std=c++20 -fsyntax-only (each generated C++ / JNI header and source on its own, against the shipped support library and the JDK\'s jni.h) '
           'and javac 17 (all generated Java together) as judges of well-formedness',
           'the PYDJINNI_VERIF=1 hook in generator.py (records undefined values created by failed look-ups / written to output)',
           'regular expressions for unrendered template markers']
ASSUMPTIONS = ['static theorems are over the templates translated from /repo on this run (Props/C01.v); whether the rendered text is well-formed C++/Java is '
               'decided by the compilers, not by a theorem',
               'no Objective-C or C++/CLI compiler in the sandbox: those outputs are checked for unrendered markers and emitted undefined values only',
               'g++ 12 has no <format>: cpp.string_serialization is switched off for the compile judge; the JNI file names get a prefix because with the '
               'default naming a JNI header includes itself instead of the C++ header of the same name (finding C01-K2)',
               'records extended in a target (+cpp / +java) are completed with the obvious user-written subclass before compiling']

KEYWORD_NAMES = ['class', 'int', 'new', 'delete', 'final', 'native', 'id', 'self', 'struct', 'template', 'package', 'register', 'volatile', 'synchronized']


def options(kind):
    g = dict(copy.deepcopy(FULL), support_lib_sources=True)
    g['cpp']['string_serialization'] = False
    g['jni']['identifier'] = {'file': {'style': 'snake_case', 'prefix': 'jni_'}}
    if kind == 2:       # styles that keep item / field names as written: keywords must then be diagnosed in every position
        g['cpp']['identifier'] = {'enum': 'none', 'field': 'none', 'method': 'none'}
        g['java']['identifier'] = {'enum': 'none', 'field': 'none', 'method': 'none'}
        g['objc']['identifier'] = {'enum': 'none', 'field': 'none', 'method': 'none'}
        g['cppcli']['identifier'] = {'enum': 'none'}
    if kind == 1:
        g['cpp']['namespace'] = 'my::app'
        g['java']['package'] = 'org.my_app.gen'
        g['cpp']['identifier'] = {'method': 'camelCase'}
        g['java']['use_final_for_record'] = False
        # type annotations (the compile judge supplies the two annotation types): they must land in a legal position for every type shape
        g['java']['nonnull_annotation'] = '@pdvann.NotNull'
        g['java']['nullable_annotation'] = '@pdvann.Nullable'
    return {'generate': g}


def user_headers(tree):
    out = []
    for rel, text in tree.items():
        m = re.search(r'(?s)struct (\w+);.*?\bstruct (?:\[\[[^\]]*\]\]\s*)?(\w+)\s*\{', text) if rel.startswith('out/cpp/') and rel.endswith('_base.hpp') else None
        if not m:
            continue
        ns = re.findall(r'(?m)^namespace ([\w:]+) \{', text)
        derived = rel[:-len('_base.hpp')] + '.hpp'
        if derived in tree:
            continue
        body = '#pragma once\n#include "%s"\n%sstruct %s : public %s { using %s::%s; };\n%s' % (
            rel[len('out/cpp/'):], ''.join('namespace %s {\n' % n for n in ns), m.group(1), m.group(2), m.group(2), m.group(2), '}\n' * len(ns))
        out.append((derived, body))
    return out


def classify(i):
    msg = (i.get('message') or '') + ' ' + ' '.join(i.get('errors') or [])
    if i['kind'] == 'does-not-compile':
        if 'callback_awaitable.hpp' in msg or 'Boxed::toCpp(jniEnv, result)' in msg or re.search(r'CallbackAwaitable<const .*&>', msg):
            return 'async-java-proxy-result-by-reference'
        if re.search(r'declaration of ‘[^’]*’ shadows a parameter', msg) or 'redeclaration of' in msg or 'conflicting declaration' in msg:
            return 'parameter-name-clashes-with-template-local'
        # the same clash inside a lambda: the parameter hides the template's local `data` / `jni` / ... and the error is a type error
        lt = i.get('line_text') or ''
        if i.get('lang') == 'jni' and re.search(r'\b(data|jni|jret|ref|handle|future|result|cause)\b', lt) and \
           re.search(r'\b(data|jni|jret|ref|handle|future|result|cause)\s*:', i.get('idl') or ''):
            return 'parameter-name-clashes-with-template-local'
        if 'hashtable' in msg or 'hash<' in msg or '_Hashtable' in msg:
            return 'unhashable-set-or-map-key'
        if re.search(r"operator(<|==)’? ?\(operand types|no match for ‘operator(<|==|>)", msg):
            return 'deriving-needs-operator-of-field-type'
        if i.get('lang') == 'java' and ('bad operand types' in msg or 'incomparable' in msg or 'compareTo' in msg):
            return 'deriving-needs-operator-of-field-type'
    return 'other'


RICH = ('''# A kind.
# Second *line* with `code`.
kind = enum {
    # first item
    a_b;
    # @deprecated gone
    c;
}
# @deprecated use kind
opts = flags { x_1; # doc
 y; none_of = none; all_of = all; }
# a point
point = record {
    # the x
    x: i32;
    # @deprecated old
    y_z: f64?;
    tags: list<string>; o: opts; k: kind?; cb_f: cb; when: date; blob: binary; m: map<string, i64>;
} deriving (eq)
small = record { a: i8; b: string; } deriving (eq, ord)
empty = record { } deriving (eq)
cb = function (code: i32, msg: string?) -> bool;
thrower = function (p: point) throws oops;
# errors
oops = error {
    # bad
    bad_thing(code: i16 why: string?);
    # @deprecated old
    other;
    third(p: point k: kind);
}
peer = interface +cpp +java +objc +cppcli { ping(); }
# A service.
# @deprecated use other
svc = interface +cpp +java +objc +cppcli {
    # Fetches.
    # @param user_name the name
    # @returns the text
    # @throws bad_thing when offline
    fetch_all(user_name: string, retry_count: i32?) throws oops -> string;
    const get_it() -> point?;
    async later(p: point, k: kind) -> list<string>;
    async fire();
    put(x: peer?, c: cb, o: opts);
    # @deprecated gone
    old_one();
    property flag: bool;
}
stat = interface +cpp { static make(a: i32) -> peer; static nothing(); }
jonly = interface +java { on_event(e: kind, p: point?) -> bool; }
''')


def all_loops(ctx):
    """K-jinja/all-loops: every for-loop over type_def.<members> of every per-type template that the TIR interpreter can evaluate"""
    ok, res = run_impl('jinja_frag', {'list_loops': True}, timeout=300)
    if not ok:
        ctx.broken.append({'kind': 'harness', 'name': 'jinja_frag list_loops', 'detail': str(res)[-1000:]}); return
    loops = res['loops']
    frags = [dict({k: l[k] for k in ('gen', 'template', 'attr', 'index', 'decl_class')}, macros=l.get('macros') or None) for l in loops if not l['unsupported']]
    for fr in frags:
        if fr['attr'] == 'flags' and fr['gen'] in ('cpp', 'objc', 'cppcli') and fr['template'].startswith('header/'):
            fr['counter'] = True       # these loops run inside {% set counter = namespace(value=0) %}
    skipped = {}
    for l in loops:
        for u in l['unsupported']:
            skipped[u] = skipped.get(u, 0) + 1
    cases = []
    for k_ in ((0, 1) if ctx.thorough else (0,)):
        o = options(k_)
        o['generate']['support_lib_sources'] = False
        cases.append({'files': {'main.pydjinni': RICH}, 'root': 'main.pydjinni', 'options': o, 'fragments': frags})
    mism, flat = kjinja.run(ctx, 'c01loops', cases)
    if flat is None:
        return
    errs = [f for f in flat if f.get('error')]
    for f in errs[:5]:
        ctx.add_violation({'kind': 'template-fragment-raises', 'generator': f['fragment']['gen'], 'template': f['fragment']['template']},
                          'rendering the loop %s[%s] of %s/%s for %s raised %s' % (f['fragment']['attr'], f['fragment']['index'], f['fragment']['gen'],
                                                                                      f['fragment']['template'], f['decl'], f['error']), {'fragment': f['fragment'], 'idl': RICH})
    ctx.add_corr('K-jinja/all-loops', len(flat), len(frags), [{'fragment': m['fragment'], 'decl': m['decl'], 'impl_text': m['text']} for m in (mism or [])],
                 [{'fragment': flat[0]['fragment'], 'text': flat[0]['text']}] if flat else [],
                 {'loops_in_templates': len(loops), 'evaluated': len(frags), 'not_evaluated_because': skipped, 'renders': len(flat)},
                 'every for-loop over the members of type_def (items, flags, fields, methods, properties, parameters, error_codes) in every per-type '
                 'template of all six generators that contains no macro / method call: rendered by Jinja on the real marshalling objects of a program '
                 'with every declaration kind, comments and deprecations vs the TIR interpreter on the template translated on this run')


def run(ctx):
    r = random.Random(ctx.rng.random())
    all_loops(ctx)
    n = ctx.n(22, 160)
    cases, meta = [], []
    for i in range(n):
        g = gen_idl.Gen(r, max_decls=r.choice([4, 6, 9]), p_comment=0.25, multi_file=0.0, shadowing=0.0, acyclic=True)
        p = g.program()
        for dd, _ns in gen_idl.walk_items(p['files'][p['root']]['items']):
            if dd['k'] == 'flags':      # `all` flags: finding C08-K1
                for fl_ in dd['flags']:
                    if fl_['mod'] == 'all':
                        fl_['mod'] = None
        files = gen_idl.print_program(p, None, 'canon')
        kind = i % 2
        cases.append({'files': files, 'options': options(kind), 'continue_after_error': True, 'keep_content': True, 'include_support': True, 'timeout_s': 120,
                      'ops': [['parse', p['root']]] + [['generate', t] for t in ['cpp', 'java', 'objc', 'cppcli', 'yaml']]})
        meta.append('random')
    # identifiers that are keywords of a target language: generation must end in the documented diagnostic, never in broken code
    for kw in KEYWORD_NAMES:
        idl = 'holder = record { %s: i32; }\n%s_t = enum { %s; other; }\nsvc = interface +cpp +java +objc +cppcli { %s(%s: i32); }\n' % (kw, kw, kw, kw, kw)
        cases.append({'files': {'main.pydjinni': idl}, 'options': options(0), 'continue_after_error': True, 'keep_content': True, 'include_support': True,
                      'timeout_s': 120, 'ops': [['parse', 'main.pydjinni']] + [['generate', t] for t in ['cpp', 'java', 'objc', 'cppcli', 'yaml']]})
        meta.append('keyword:' + kw)
    for kw in KEYWORD_NAMES:
        idl = '%s_t = enum { %s; other; }\n%s_f = flags { %s; }\n' % (kw, kw, kw, kw)
        cases.append({'files': {'main.pydjinni': idl}, 'options': options(2), 'continue_after_error': True, 'keep_content': True, 'include_support': True,
                      'timeout_s': 120, 'ops': [['parse', 'main.pydjinni']] + [['generate', t] for t in ['cpp', 'java', 'objc', 'cppcli', 'yaml']]})
        meta.append('keyword-item:' + kw)
    # user types that occur only deep inside generic arguments: their headers must still be included
    deep = ('inner = record { v: i8; }\nkind = enum { a; b; }\nother = record { s: string; } deriving (eq)\nkind2 = enum { c; }\nopt_t = flags { f; }\n'
            'outer = record { a: list<list<inner>>; m: map<string, list<kind>>; }\n'
            'svc = interface +cpp +java +objc +cppcli { f(x: list<list<other>>) -> map<string, list<kind2>>; g(y: list<map<i32, opt_t>>?); }\n'
            'fn = function (p: list<list<inner>>) -> list<list<kind>>;\nerr = error { bad(p: list<list<other>>); }\n')
    for k_ in (0, 1):
        cases.append({'files': {'main.pydjinni': deep}, 'options': options(k_), 'continue_after_error': True, 'keep_content': True, 'include_support': True,
                      'timeout_s': 120, 'ops': [['parse', 'main.pydjinni']] + [['generate', t] for t in ['cpp', 'java', 'objc', 'cppcli', 'yaml']]})
        meta.append('deep-generics')
    # probe of finding C01-K2: with the default file naming a JNI header has the name of the C++ header it includes
    dflt = options(0)
    del dflt['generate']['jni']['identifier']
    cases.append({'files': {'main.pydjinni': 'kind = enum { a; b; }\nholder = record { k: kind; }\n'}, 'options': dflt, 'continue_after_error': True, 'keep_content': True,
                  'include_support': True, 'timeout_s': 120, 'ops': [['parse', 'main.pydjinni'], ['generate', 'cpp'], ['generate', 'java']]})
    meta.append('default-naming-probe')
    ok, res = run_impl('gen_run', {'cases': cases}, timeout=3000)
    if not ok:
        ctx.broken.append({'kind': 'harness', 'name': 'gen_run driver', 'detail': str(res)[-1500:]}); return
    stats = {'programs': len(cases), 'rejected_by_parser': 0, 'documented_diagnostics': {}, 'judged_trees': 0, 'cpp_files': 0, 'jni_files': 0, 'java_files': 0,
             'scanned_files': 0, 'undefined_lookups': {}, 'path_collision': 0}
    todo = []
    for c, o, m in zip(cases, res['results'], meta):
        if 'steps' not in o:
            ctx.broken.append({'kind': 'harness', 'name': 'gen_run case', 'detail': json.dumps(o)[:400]}); continue
        if o['steps'][0]['r'] != 'ok':
            stats['rejected_by_parser'] += 1
            continue      # not accepted by the front end: out of C01's scope (C05/C06 judge the diagnostics)
        failed_targets = set()
        for s in o['steps'][1:]:
            if s['r'] == 'ok':
                continue
            failed_targets.add(s['op'][1])
            if s['r'] == 'internal':
                exc = s.get('exc') or {}
                ctx.add_violation({'kind': 'internal-error', 'where': 'generate', 'exc': exc.get('cls'), 'frame': exc.get('frame')},
                                  "generate('%s') ends in %s at %s: %s" % (s['op'][1], exc.get('cls'), exc.get('frame'), str(exc.get('msg'))[:160]),
                                  {'files': c['files'], 'target': s['op'][1], 'exc': exc, 'options': c['options']})
            else:
                for it in s.get('items', []):
                    k = '%s/%s' % (it.get('cls'), it.get('code'))
                    stats['documented_diagnostics'][k] = stats['documented_diagnostics'].get(k, 0) + 1
        for u in o.get('undefined') or []:
            if u[0] == 'emitted':
                ctx.add_violation({'kind': 'undefined-emitted', 'generator': u[1], 'object': u[2], 'name': u[3]},
                                  'template of generator %s wrote an undefined value (%s.%s) into the output' % (u[1], u[2], u[3]), {'files': c['files'], 'undefined': u})
            elif u[2] != 'NoneType':
                k = '%s:%s.%s' % (u[1], u[2], u[3])
                stats['undefined_lookups'][k] = stats['undefined_lookups'].get(k, 0) + 1
        writes = {}
        for s_ in o['steps']:
            for w in s_.get('writes', []):
                if w[0] == 'write':
                    writes.setdefault(w[1], set()).add(w[2])
        if any(len(x) > 1 for x in writes.values()):
            stats['path_collision'] += 1; continue
        # a target that stopped with a diagnostic has written only part of its files: leave its output (and what depends on it) out
        tree = dict(o['tree'])
        if 'cpp' in failed_targets:
            tree = {p_: t for p_, t in tree.items() if not p_.startswith(('out/cpp/', 'out/jni/'))}
        if 'java' in failed_targets:
            tree = {p_: t for p_, t in tree.items() if not p_.startswith(('out/java/', 'out/jni/'))}
        todo.append((c, m, tree))
    with ThreadPoolExecutor(max_workers=4) as ex:
        judged = list(ex.map(lambda x: compile_judge.judge_tree(x[2], user_headers(x[2])), todo))
    for (c, m, tree), (issues, st) in zip(todo, judged):
        stats['judged_trees'] += 1
        for k in ('cpp_files', 'jni_files', 'java_files', 'scanned_files'):
            stats[k] += st[k]
        for i in issues:
            if i['kind'] == 'unrendered-marker':
                ctx.add_violation({'kind': 'unrendered-marker', 'generator': i['generator']}, '%s contains a template marker: %s' % (i['file'], i['line']),
                                  {'issue': i, 'files': c['files']})
            else:
                i['idl'] = ' '.join(c['files'].values())
                cause = classify(i) if m != 'default-naming-probe' else 'jni-header-includes-itself'
                sig = {'kind': 'does-not-compile', 'lang': i['lang'], 'cause': cause}
                if cause == 'other':
                    sig['message'] = i['message']
                ctx.add_violation(sig, '%s: %s does not compile: %s' % (i['lang'], i['file'], (i.get('errors') or [i['message']])[0][-220:]),
                                  {'issue': i, 'files': c['files'], 'options': c['options'], 'program_kind': m})
    ctx.extra_cov['compile_judges'] = stats
    ctx.log.append('compile judges: %s' % json.dumps(stats)[:1200])
    ctx.add_corr('J-compile', len(cases), stats['judged_trees'], [], [{'files': cases[0]['files']}], stats,
                 'random programs (two naming configurations) and one program per target-language keyword used as field / item / method / parameter '
                 'name, through parse and generation of all targets with the PYDJINNI_VERIF hook on: every generated C++ and JNI header and source is '
                 'compiled on its own (g++ -fsyntax-only, support library and jni.h on the include path), all Java together (javac), every output of '
                 'every target is scanned for unrendered template markers, emitted undefined values are violations, generate() must end normally or '
                 'in an ApplicationException')
    if stats['judged_trees'] < 0.4 * len(cases):
        ctx.broken.append({'kind': 'harness', 'name': 'C01 judges', 'detail': 'only %d of %d programs judged' % (stats['judged_trees'], len(cases))})
