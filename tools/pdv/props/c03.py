"""C03 - The AST delivered by parsing is a faithful image of the source text."""
import itertools, json, random
from .. import gen_idl, kfront
from ..emit import *

TRUSTED = ['ANTLR lexer/parser: recognition of the text into the parse tree the model starts from',
           'pydantic model construction (copies of lists, Identifier coercion)',
           'mistune block/inline parsing for comments outside the plain class of K-commands (lists, quotes, headings, fences, HTML, inline mark-up inside command texts)']
ASSUMPTIONS = ['model = Idl/Visitor.v on the dumped parse tree; K-front compares the complete AST (kinds, names, namespaces, members in order, '
               'modifiers, throws, deriving, comments, targets, every position) with the real visitor on the same tree',
               'oracle = an independent Python reading of the abstract program the text was printed from (tools/pdv/gen_idl.py)']

KEYS = ['cpp', 'cppcli', 'java', 'objc', 'yaml']
from .c17 import FULL


def ref_targets(flags, fallback_all):
    plus = [f[1:] for f in flags if f.startswith('+') and f != '+any']
    minus = [f[1:] for f in flags if f.startswith('-')]
    if '+any' in flags:
        base = KEYS + plus
    elif plus:
        base = plus
    elif minus:
        base = list(KEYS)
    else:
        base = []
    out = [t for t in base if t not in minus]
    if not out and fallback_all:
        return list(KEYS)
    return out


def ctext(lines):
    return None if not lines else '\n'.join(l.strip() for l in lines)


def ty(t):
    if t is None:
        return None
    if t['k'] == 'fn':
        return fn(t)
    return ['data', t['name'], t['opt'], [ty(p) for p in t['params']]]


def fn(f):
    return ['fn', sorted(set(ref_targets(f['targets'], True) if f['targets'] is not None else KEYS)),
            [[p['name'], ty(p['type'])] for p in f['params']], ty(f['ret']),
            None if f['throws'] is None else [ty(t) for t in f['throws']]]


def expected(d, ns, default_deriving=()):
    k = d['k']
    if k == 'namespace':
        sub = ns + d['name'].split('.')
        return ['Namespace', d['name'], ctext(d.get('comment')), [expected(i, sub, default_deriving) for i in d['items']]]
    base = [k, d['name'], ns, ctext(d.get('comment'))]
    if k == 'enum':
        return base + [[[i['name'], ctext(i.get('comment'))] for i in d['items']]]
    if k == 'flags':
        return base + [[[i['name'], ctext(i.get('comment')), i['mod'] == 'all', i['mod'] == 'none'] for i in d['flags']]]
    if k == 'record':
        der = set(default_deriving) | set(d['deriving'] or [])
        return base + [[[f['name'], ctext(f.get('comment')), ty(f['type'])] for f in d['fields']],
                       sorted(set(ref_targets(d['targets'], False))), sorted(der)]
    if k == 'interface':
        ms = [[m['name'], ctext(m.get('comment')), m['static'], m['const'], m['async'], [[p['name'], ty(p['type'])] for p in m['params']],
               ty(m['ret']), None if m['throws'] is None else [ty(t) for t in m['throws']]] for m in d['members'] if m['k'] == 'method']
        ps = [[m['name'], ctext(m.get('comment')), ty(m['type'])] for m in d['members'] if m['k'] == 'prop']
        return base + [d['main'], sorted(set(ref_targets(d['targets'], True))), ms, ps]
    if k == 'function':
        return base + [fn(d['fn'])[1:]]
    if k == 'error':
        return base + [[[c['name'], ctext(c.get('comment')), [[p['name'], ty(p['type'])] for p in (c['params'] or [])]] for c in d['codes']]]


def oty(t):
    if t is None:
        return None
    if t['name'] == '<function>' and 'fn' in t:
        f = t['fn']
        return ['fn', sorted(set(f['targets'])), [[p['name'], oty(p['type'])] for p in f['params']], oty(f['ret']),
                None if f['throws'] is None else [oty(x) for x in f['throws']]]
    return ['data', t['name'], t['opt'], [oty(p) for p in t['params']]]


def observed(n):
    if n is None:
        return None
    k = n['k']
    if k == 'Namespace':
        return ['Namespace', n['name'], n['comment'], [observed(c) for c in n['children']]]
    kind = {'Enum': 'enum', 'Flags': 'flags', 'Record': 'record', 'Interface': 'interface', 'Function': 'function', 'ErrorDomain': 'error'}[k]
    base = [kind, n['name'], n['ns'], n['comment']]
    if k == 'Enum':
        return base + [[[i['name'], i['comment']] for i in n['items']]]
    if k == 'Flags':
        return base + [[[i['name'], i['comment'], i['all'], i['none']] for i in n['flags']]]
    if k == 'Record':
        return base + [[[f['name'], f['comment'], oty(f['type'])] for f in n['fields']], sorted(set(n['targets'])), sorted(set(n['deriving']))]
    if k == 'Interface':
        ms = [[m['name'], m['comment'], m['static'], m['const'], m['asyn'], [[p['name'], oty(p['type'])] for p in m['params']], oty(m['ret']),
               None if m['throws'] is None else [oty(x) for x in m['throws']]] for m in n['methods']]
        return base + [n['main'], sorted(set(n['targets'])), ms, [[p['name'], p['comment'], oty(p['type'])] for p in n['props']]]
    if k == 'Function':
        return base + [[sorted(set(n['targets'])), [[p['name'], oty(p['type'])] for p in n['params']], oty(n['ret']),
                        None if n['throws'] is None else [oty(x) for x in n['throws']]]]
    if k == 'ErrorDomain':
        return base + [[[c['name'], c['comment'], [[p['name'], oty(p['type'])] for p in c['params']]] for c in n['codes']]]


def span_ok(text, node):
    """the recorded position of a declaration delimits its text"""
    p = node.get('pos') or {}
    if not p.get('start') or not p.get('end'):
        return False
    lines = text.split('\n')
    (sl, sc), (el, ec) = p['start'], p['end']
    if not (1 <= sl <= el <= len(lines)):
        return False
    if sl == el:
        seg = lines[sl - 1][sc:ec]
    else:
        seg = '\n'.join([lines[sl - 1][sc:]] + lines[sl:el - 1] + [lines[el - 1][:ec]])
    seg_s = seg.strip()
    if not seg_s or seg != seg_s:
        return False
    name = node['name']
    if node['k'] == 'Namespace':
        return (seg_s.startswith('#') or seg_s.startswith('namespace')) and seg_s.endswith('}') and seg_s.count('{') == seg_s.count('}')
    first_ok = seg_s.startswith('#') or seg_s.startswith(name)
    last_ok = seg_s[-1] in '};)'
    return first_ok and last_ok and name in seg_s


def walk_nodes(nodes):
    for n in nodes:
        if n is None:
            continue
        yield n
        if n['k'] == 'Namespace':
            yield from walk_nodes(n['children'])



# ---------------------------------------------------------------- documentation commands (@deprecated / @param, both spellings)
CMD_WORDS = ['use', 'other', 'the', 'value', 'x < y', 'a/b', 'two  spaces', 'since 2.0', "don't", '100%']


def add_commands(r, prog, bare_param=True):
    """append command lines to the comments of declarations and members (creating the comment when there is none)"""
    def cmd_lines(param_names):
        out = []
        for _ in range(r.randint(1, 3)):
            sp = r.choice(['@', '\\'])
            x = r.random()
            if x < 0.35:
                out.append(sp + 'deprecated' + r.choice(['', '', ' ' + ' '.join(r.sample(CMD_WORDS, r.randint(1, 3))), '  ' + r.choice(CMD_WORDS), 'x', '\t' + r.choice(CMD_WORDS)]))
            elif x < 0.45:
                out.append(r.choice(['see @deprecated inside', 'x \\deprecated y', 'deprecated', 'email@deprecated.org']))
            elif x < 0.8:
                nm = r.choice(param_names + ['nosuch']) if param_names else 'nosuch'
                out.append(sp + 'param' + r.choice([' ', '  ', '\t']) + nm + r.choice(['', ' ' + ' '.join(r.sample(CMD_WORDS, r.randint(1, 3))), '   ' + r.choice(CMD_WORDS)]))
            elif x < 0.86 and bare_param:
                out.append(sp + r.choice(['param', 'parameter foo', 'params']))
            else:
                out.append(sp + r.choice(['returns the result', 'throws err when bad', 'returns', 'throws']))
        return out
    def touch(node, param_names=()):
        if r.random() < 0.45:
            node['comment'] = list(node.get('comment') or ([] if r.random() < 0.5 else ['plain words'])) + cmd_lines(list(param_names))
    for f in prog['files'].values():
        for d, ns in gen_idl.walk_items(f['items']):
            touch(d)
            for key in ('items', 'flags', 'fields', 'codes'):
                for m in d.get(key, []):
                    touch(m, [p['name'] for p in (m.get('params') or [])] if key == 'codes' else ())
            for m in d.get('members', []):
                touch(m, [p['name'] for p in m.get('params', [])] if m['k'] == 'method' else ())


def ref_cmd(name, line):
    """reference reading of one (stripped) comment line: the text of command `name`, or None"""
    if not line or line[0] not in '@\\' or not line[1:].startswith(name):
        return None
    rest = line[1 + len(name):]
    if rest and rest[0] in ' \t\v\f':
        return rest.lstrip(' \t\v\f')
    return ''


def ref_deprecated(comment):
    dep = False
    for line in (comment or '').split('\n'):
        t = ref_cmd('deprecated', line)
        if t is not None:
            dep = t if t else True
    return dep


def ref_params(comment, names):
    docs = [None] * len(names)
    for line in (comment or '').split('\n'):
        t = ref_cmd('param', line)
        if not t:
            continue
        w = t.split()[0]
        d = t[len(w):].lstrip(' \t\v\f')
        if d and w in names:
            docs[names.index(w)] = d
    return docs


def commented_nodes(ast):
    """(node, parameter list or None) for every node of the observed AST that carries deprecated/comment"""
    for n in walk_nodes(ast):
        k = n['k']
        if k == 'Namespace':
            continue
        yield n, None
        # interface properties (`property x: T;`, undocumented, used by no generator) are not registered as field declarations by the
        # visitor: documentation commands are not evaluated for them - left out here, noted in DESIGN.md
        for key in ('items', 'flags', 'fields'):
            for m in n.get(key, []):
                yield m, None
        for m in n.get('methods', []):
            yield m, m['params']
        for c_ in n.get('codes', []):
            yield c_, c_['params']


CMD_PRE = '''From Coq Require Import List String Ascii Bool Arith.
From PDV Require Import Lib.StrUtil Lang.Comment Idl.CommentCmd.
Import ListNotations. Open Scope string_scope. Open Scope list_scope.
Definition dep_eqb (a b : dep) : bool := match a, b with DNo, DNo | DYes, DYes => true | DMsg x, DMsg y => String.eqb x y | _, _ => false end.
Definition ostr_eqb (a b : option string) : bool := match a, b with None, None => true | Some x, Some y => String.eqb x y | _, _ => false end.
Fixpoint docs_eqb (a : list (string * option string)) (b : list (option string)) : bool :=
  match a, b with [] , [] => true | (_, x) :: r, y :: s => ostr_eqb x y && docs_eqb r s | _, _ => false end.
Definition ok (c : string * dep * list string * list (option string)) : bool :=
  let '(cm, d, names, docs) := c in dep_eqb (deprecated_of cm) d && docs_eqb (params_of cm names) docs.
Fixpoint bad_idx (i : nat) (cs : list (string * dep * list string * list (option string))) : list nat :=
  match cs with [] => [] | c :: t => if ok c then bad_idx (S i) t else i :: bad_idx (S i) t end.
'''


def commands_corr(ctx, cases, obs):
    from .. import coqtool
    rows, keep = [], []
    dist = {'nodes_with_comment': 0, 'deprecated_true': 0, 'deprecated_message': 0, 'backslash_spelling': 0, 'param_docs': 0, 'bare_param': 0}
    for c, o in zip(cases, obs):
        if o['outcome'] != 'ok':
            continue
        for node, params in commented_nodes(o['ast']):
            cm = node.get('comment')
            if not cm:
                if node.get('deprecated') not in (False, None):
                    ctx.add_violation({'kind': 'deprecation-differs-from-source'}, '%s is deprecated without a comment' % node['name'], {'files': c['files'], 'root': c['root']})
                continue
            dist['nodes_with_comment'] += 1
            dep = node.get('deprecated')
            names = [p_['name'] for p_ in params] if params is not None else []
            docs = [p_.get('comment') for p_ in params] if params is not None else []
            dist['deprecated_true'] += dep is True; dist['deprecated_message'] += isinstance(dep, str)
            dist['backslash_spelling'] += any(l.startswith('\\') for l in cm.split('\n'))
            dist['param_docs'] += sum(1 for d in docs if d); dist['bare_param'] += any(ref_cmd('param', l) == '' for l in cm.split('\n'))
            want_dep = ref_deprecated(cm)
            if want_dep != dep:
                ctx.add_violation({'kind': 'deprecation-differs-from-source', 'backslash': any(l.startswith('\\deprecated') for l in cm.split('\n'))},
                                  'comment %r of %s: deprecated is %r, the documented commands give %r' % (cm, node['name'], dep, want_dep),
                                  {'files': c['files'], 'root': c['root'], 'node': node['name']})
            if params is not None and ref_params(cm, names) != docs:
                ctx.add_violation({'kind': 'param-doc-differs-from-source'},
                                  'comment %r of %s: parameter docs are %r, the documented commands give %r' % (cm, node['name'], docs, ref_params(cm, names)),
                                  {'files': c['files'], 'root': c['root'], 'node': node['name']})
            cd = 'DNo' if dep in (False, None) else 'DYes' if dep is True else '(DMsg %s)' % cstr(dep)
            rows.append('(%s, %s, %s, %s)' % (cstr(cm), cd, clist([cstr(x) for x in names]), clist([copt(d, cstr) for d in docs])))
            keep.append({'comment': cm, 'deprecated': dep, 'params': names, 'docs': docs, 'files': c['files']})
    mism = []
    for s0 in range(0, len(rows), 400):
        body = CMD_PRE + 'Definition cases := %s.\nEval vm_compute in (bad_idx 0 cases).\n' % clist(rows[s0:s0 + 400])
        rc, out, err = coqtool.run_cases('c03cmd', body)
        bad = coqtool.parse_nat_list(out) if rc == 0 else None
        if bad is None:
            ctx.broken.append({'kind': 'correspondence', 'name': 'K-commands (coqc failed)', 'detail': (err + out)[-1500:]}); return
        mism += [keep[s0 + i] for i in bad]
    ctx.add_corr('K-commands', len(rows), len({k['comment'] for k in keep}), mism, keep[:1], dist,
                 'every commented declaration / item / flag / field / method / error code / property of the accepted programs: deprecated state and '
                 'parameter documentation delivered by the real front end vs Idl/CommentCmd.v on the comment text (command lines in both documented '
                 "spellings '@' and backslash, with and without text, look-alikes, @param for existing and missing names, bare @param, @returns/@throws)")


def flag_programs():
    """every flag sequence of length <= 3 over a 7-symbol alphabet, on interfaces, records and functions"""
    alpha = ['+cpp', '-cpp', '+java', '-java', '+any', '+yaml', '-objc']
    seqs = [list(s) for n in range(0, 4) for s in itertools.product(alpha, repeat=n)]
    progs = []
    for i in range(0, len(seqs), 60):
        items = []
        for j, fl in enumerate(seqs[i:i + 60]):
            kind = j % 3
            if kind == 0:
                items.append({'k': 'interface', 'name': 'itf%d' % j, 'comment': None, 'main': False, 'targets': fl, 'members': []})
            elif kind == 1:
                items.append({'k': 'record', 'name': 'rec%d' % j, 'comment': None, 'targets': fl, 'fields': [], 'deriving': None})
            else:
                items.append({'k': 'function', 'name': 'fn%d' % j, 'comment': None,
                              'fn': {'k': 'fn', 'targets': fl, 'params': [], 'throws': None, 'ret': None}})
        progs.append({'files': {'main.pydjinni': {'loads': [], 'items': items}}, 'root': 'main.pydjinni'})
    return progs


def run(ctx):
    r = random.Random(ctx.rng.random())
    n = ctx.n(70, 600)
    progs, cases, layouts = [], [], []
    for i in range(n):
        dd = r.choice([[], [], ['eq'], ['eq', 'ord']])
        g = gen_idl.Gen(r, max_decls=r.choice([3, 6, 10]), p_comment=0.35, multi_file=0.25, default_deriving=dd)
        p = g.program()
        if i % 2 == 0:
            add_commands(r, p)
        mode = 'canon' if i % 3 == 0 else 'random'
        cases.append({'files': gen_idl.print_program(p, r, mode), 'root': p['root'],
                      'options': {'generate': dict(FULL, default_deriving=dd)}})
        progs.append((p, dd)); layouts.append(mode)
    # a second, different layout of some programs: the result must not depend on layout
    relayout = []
    for i in range(0, n, 4):
        p, dd = progs[i]
        cases.append({'files': gen_idl.print_program(p, r, 'random'), 'root': p['root'], 'options': cases[i]['options']})
        relayout.append((len(cases) - 1, i))
    fp = flag_programs()
    for p in fp:
        cases.append({'files': gen_idl.print_program(p, r, 'canon'), 'root': p['root']})
    mism, obs = kfront.run(ctx, 'c03', cases, parts=('errors', 'defs', 'ast', 'imports'))
    if obs is None:
        return
    dist = {'layout_random': layouts.count('random'), 'layout_canon': layouts.count('canon'), 'multi_file': 0, 'decls': 0,
            'flag_sequences': sum(len(p['files']['main.pydjinni']['items']) for p in fp), 'relayouts': len(relayout), 'accepted': 0}
    # ---- oracle: the AST is what was written
    allp = progs + [(None, None)] * len(relayout) + [(p, []) for p in fp]
    for idx, ((p, dd), c, o) in enumerate(zip(allp, cases, obs)):
        if p is None:
            continue
        dist['multi_file'] += len(p['files']) > 1
        if o['outcome'] != 'ok':
            ctx.add_violation({'kind': 'valid-program-rejected', 'outcome': o['outcome'], 'exc': ((o.get('exc') or {}).get('cls') or ((o.get('exc') or {}).get('items') or [{}])[0].get('cls'))},
                              'a grammar-derived, well-typed program was not accepted: %s' % json.dumps(o.get('exc'))[:300],
                              {'files': c['files'], 'root': c['root']})
            continue
        dist['accepted'] += 1
        want = [expected(d, [], dd) for d in p['files'][p['root']]['items']]
        got = [observed(x) for x in o['ast']]
        dist['decls'] += len(o['defs'])
        if want != got:
            # first differing top-level item
            k = next((i for i, (a, b) in enumerate(zip(want, got)) if a != b), min(len(want), len(got)))
            ctx.add_violation({'kind': 'ast-differs-from-source'},
                              'AST differs from the source at top-level item %d: wrote %s, parsed %s' %
                              (k, json.dumps(want[k] if k < len(want) else None)[:400], json.dumps(got[k] if k < len(got) else None)[:400]),
                              {'files': c['files'], 'root': c['root']})
        text = c['files'][c['root']]
        for node in walk_nodes(o['ast']):
            if node.get('anonymous'):
                continue
            if (node.get('pos') or {}).get('file') not in (c['root'], None) or not span_ok(text, node):
                ctx.add_violation({'kind': 'position-does-not-delimit', 'node': node['k']},
                                  'position %s of %s %s does not delimit its text' % (node.get('pos'), node['k'], node['name']),
                                  {'files': c['files'], 'root': c['root']})
                break
    commands_corr(ctx, cases[:n], obs[:n])
    kfront.parse_corr(ctx, 'c03', cases, obs, max_texts=ctx.n(60, 600))
    for j, i in relayout:
        a, b = obs[i], obs[j]
        if a['outcome'] == 'ok' and b['outcome'] == 'ok':
            if [observed(x) for x in a['ast']] != [observed(x) for x in b['ast']]:
                ctx.add_violation({'kind': 'layout-dependent'}, 'two layouts of one program give different ASTs',
                                  {'layout_a': cases[i]['files'], 'layout_b': cases[j]['files']})
        elif a['outcome'] != b['outcome']:
            ctx.add_violation({'kind': 'layout-dependent-acceptance'}, 'acceptance depends on the layout',
                              {'layout_a': cases[i]['files'], 'layout_b': cases[j]['files']})
    mm = [{'files': cases[i]['files'], 'bad_parts': parts, 'impl_outcome': o['outcome']} for i, parts, o in (mism or [])]
    ctx.add_corr('K-front/ast', len(cases), len({json.dumps(c['files'], sort_keys=True) for c in cases}), mm,
                 [{'files': cases[0]['files']}], dist,
                 'generated well-typed programs (all six declaration kinds, nested generics/optionals, namespaces, inline functions, '
                 'comments, deriving, target flags, import trees) printed under canonical and random layouts, re-laid-out copies, and every '
                 'target-flag sequence of length <= 3 over 7 flags (exhaustive) on interfaces/records/functions; complete AST compared')
    ctx.extra_cov['flag_sequences_exhaustive_len_le_3'] = dist['flag_sequences']
