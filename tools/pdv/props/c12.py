"""C12 - IDL comments only ever become documentation; they cannot alter generated code."""
import copy, json, random, re
from .. import gen_idl, coqtool
from ..common import run_impl
from ..emit import *
from .c17 import FULL

TRUSTED = ['mistune and the five Markdown comment renderers (their output is an arbitrary string for the theorems: sanitising happens after rendering)',
           'the lexical comment/literal stripper of this harness (C-family and YAML) used by the non-interference oracle']
ASSUMPTIONS = ['model = Lang/Comment.v: Generator.comment_filter and the @deprecated message escaping; tied by running the real filter of every '
               'generator and the real deprecated() helpers on adversarial strings',
               'non-interference is judged on real generation runs: comment text changed/removed, generated code compared after removing comments '
               'and the contents of deprecation-message literals']

PIECES = ['*/', '/*', '//', '"', '\\', '@', '{', '}', '<', '>', '&', '`', '`code`', '*emph*', '_foo_/', '**/', '*//', '\\"', '\\\\', '%', '$', '#', "'",
          'text', 'a b', 'é', '\t', '&#47;', '*&', '/', '*', '?>', '<!--', '-->', ']]', '")]]', '"); int x;', '*/ int evil; /*', '\\n',
          '&quot;', '&#34;', '&#x22;', '&#10;', '&amp;', '&lt;', '&#92;', 'a fairly long run of ordinary words to reach the line limit ',
          '\\u002a/', '\\\\u002a/', '\\u002A\\u002F', '\\uuu002a/', 'C:\\users', '\\u', '\\u00', '/\\u002a', '\\\\\\u002a/', 'u002a/', '\\u000a', 'ends in \\',
          '\x0c int injected; ', '\x0b', '\x1c x; ', '\x1d', '\x1e', 'a\x0cb', '*\x0c/', '\\\x0cu002a/']
# separators outside ASCII: handled by the implementation, outside the byte-level model (used in the generation runs only)
WIDE_SEPS = ['\x85 int nel; ', '\u2028 int ls; ', '\u2029 ps; ']
# pieces that end a LINE (the line-splicing defect needs the backslash at the end of a physical line)
LINE_ENDS = ['\\', '\\ ', '\\\t', ' \\', 'C:\\', '\\\\', 'x']


def adversarial(r, n=None):
    return ''.join(r.choice(PIECES) + r.choice(['', ' ']) for _ in range(n or r.randint(1, 7)))


def strip_c(text):
    """remove // and /* */ comments (outside string/char literals); returns the code"""
    out, i, n = [], 0, len(text)
    while i < n:
        c = text[i]
        if c == '"' or c == "'":
            q = c; j = i + 1
            while j < n and text[j] != q:
                if text[j] == '\\':
                    j += 1
                if j < n and text[j] == '\n' and q == '"':
                    break
                j += 1
            out.append(text[i:j + 1]); i = j + 1
        elif text.startswith('//', i):
            j = text.find('\n', i)
            i = n if j < 0 else j
        elif text.startswith('/*', i):
            j = text.find('*/', i + 2)
            i = n if j < 0 else j + 2
        else:
            out.append(c); i += 1
    return ''.join(out)



def java_translate(text):
    """JLS 3.3 unicode-escape translation (mirror of Lang/Lexical.v jrun); returns None for an ill-formed escape"""
    out, i, n = [], 0, len(text)
    while i < n:
        c = text[i]
        if c != '\\':
            out.append(c); i += 1; continue
        # c is an eligible backslash (every non-eligible one is consumed together with its predecessor below)
        if i + 1 < n and text[i + 1] == 'u':
            j = i + 1
            while j < n and text[j] == 'u':
                j += 1
            hx = text[j:j + 4]
            if len(hx) < 4 or any(h not in '0123456789abcdefABCDEF' for h in hx):
                return None
            v = int(hx, 16)
            out.append(chr(v) if v < 256 else '?'); i = j + 4
        elif i + 1 < n:
            out.append(c); out.append(text[i + 1]); i += 2
        else:
            out.append(c); i += 1
    return ''.join(out)


def c_splice(text):
    """translation phase 2 (with the GCC/clang extension: blanks between the backslash and the newline)"""
    return re.sub(r'\\[ \t]*\n', '', text)


def dangling(line):
    return line.rstrip(' \t').endswith('\\')


LIT = re.compile(r'(\[\[deprecated|DEPRECATED_MSG_ATTRIBUTE|System::Obsolete)\("((?:[^"\\\n]|\\.)*)"\)')


def canon(path, text, blank_messages):
    if path.endswith('.yaml') or path.endswith('.yml'):
        import yaml
        def drop(x):
            if isinstance(x, dict):
                return {k: drop(v) for k, v in x.items() if k not in ('comment', 'deprecated')}
            if isinstance(x, list):
                return [drop(v) for v in x]
            return x
        try:
            return json.dumps([drop(d) for d in yaml.safe_load_all(text)], sort_keys=True)
        except Exception as e:  # noqa
            return 'YAML-ERROR:' + str(e)[:80]
    if path.endswith('.java'):
        text = java_translate(text)
        if text is None:
            return 'JAVA-ILLEGAL-UNICODE-ESCAPE'
    else:
        text = c_splice(text)
    if blank_messages:
        # with or without a message, whatever the message: one deprecation annotation
        text = LIT.sub('@DEPR@', text)
        text = re.sub(r'\[\[deprecated\]\]|\[\[deprecated(?=\]\])|DEPRECATED_ATTRIBUTE|\[System::Obsolete\]', '@DEPR@', text)
        text = text.replace('@DEPR@]]', '@DEPR@').replace('[@DEPR@]', '@DEPR@')
    return ' '.join(strip_c(text).split())


def py_lit_ok(body):
    esc = False
    for ch in body:
        if esc:
            esc = False
        elif ch == '\\':
            esc = True
        elif ch in '"\n':
            return False
    return not esc


def c_literals(arg):
    """the argument of the attribute as a sequence of adjacent C string literals: returns the list of bodies or None"""
    i, n, out = 0, len(arg), []
    while i < n:
        if arg[i] in ' \t\r\n':
            i += 1; continue
        if arg[i] != '"':
            return None
        j = i + 1
        while j < n and arg[j] != '"':
            if arg[j] == '\n':
                return None
            if arg[j] == '\\':
                j += 1
                if j >= n:
                    return None
            j += 1
        if j >= n:
            return None
        out.append(arg[i + 1:j]); i = j + 1
    return out or None

PRE = '''From Coq Require Import List String Ascii Bool Arith.
From PDV Require Import Lib.StrUtil Lang.Comment Lang.CommentProofs Lang.Lexical.
Import ListNotations. Open Scope string_scope. Open Scope list_scope.
Fixpoint bad_idx (i : nat) (cs : list (string * string)) : list nat :=
  match cs with [] => [] | c :: t => if String.eqb (fst c) (snd c) then bad_idx (S i) t else i :: bad_idx (S i) t end.
'''


def set_comments(prog, fn):
    """put a comment (fn() -> list of lines or None) on every commentable construct"""
    for f in prog['files'].values():
        def walk(items):
            for it in items:
                it['comment'] = fn()
                if it['k'] == 'namespace':
                    walk(it['items'])
                for key in ('items', 'flags', 'fields', 'members', 'codes'):
                    if it['k'] != 'namespace' and key in it:
                        for m in it[key]:
                            m['comment'] = fn()
        walk(f['items'])


def run(ctx):
    r = random.Random(ctx.rng.random())
    # ---- K-comment / K-deprecated on the real filter and helpers
    n = ctx.n(250, 2500)
    cases, meta = [], []
    for i in range(n):
        text = adversarial(r, r.choice([None, None, None, 25, 40]))
        if r.random() < 0.4:
            text = '\n'.join(adversarial(r, r.randint(1, 3)) for _ in range(r.randint(2, 4)))
        if r.random() < 0.35:
            # physical lines that end in a backslash (line splicing) - only the end of a line matters
            text = '\n'.join(ln + r.choice(LINE_ENDS) for ln in text.split('\n'))
        if i % 3 == 0:
            g = r.choice(['cpp', 'java', 'jni', 'objc', 'objc', 'objcpp', 'cppcli'])
            cases.append({'k': 'filter', 'gen': g, 'text': text})
        elif i % 3 == 1:
            # the whole Java path: Markdown -> JavaDocCommentRenderer -> <decl>.java.comment -> comment filter
            cases.append({'k': 'javadoc', 'gen': 'java', 'text': text, 'field': r.random() < 0.5})
        else:
            cases.append({'k': 'deprecated', 'gen': r.choice(['cpp', 'objc', 'cppcli']), 'text': text})
    ok, res = run_impl('comment_ops', {'cases': cases})
    if not ok:
        ctx.broken.append({'kind': 'harness', 'name': 'comment_ops driver', 'detail': str(res)[-1500:]}); return
    pairs, keep = [], []
    dist = {'filter': 0, 'javadoc': 0, 'deprecated': 0, 'line_ends_in_backslash': 0, 'with_terminator': 0, 'with_backslash': 0, 'with_quote': 0, 'multi_line': 0}
    for c, o in zip(cases, res['results']):
        dist[c['k']] += 1
        dist['with_terminator'] += '*/' in c['text']; dist['with_backslash'] += '\\' in c['text']
        dist['with_quote'] += '"' in c['text']; dist['multi_line'] += '\n' in c['text']; dist['line_ends_in_backslash'] += any(dangling(l) for l in c['text'].split('\n'))
        if 'err' in o:
            ctx.add_violation({'kind': 'internal-error', 'where': c['k'], 'exc': o['err']}, '%s(%r) raised %s' % (c['k'], c['text'], o['err']), {'case': c})
            continue
        v = o['v']
        if c['k'] == 'filter':
            pairs.append('(comment_filter %s %s %s %s, %s)' % (copt(o['start'], cstr), copt(o['end'], cstr), cstr(o['prefix']), cstr(c['text']), cstr(v)))
            keep.append({'case': c, 'impl': v})
            if len(v.splitlines()) != len(v.split('\n')):
                ctx.add_violation({'kind': 'comment-contains-line-separator', 'generator': c['gen']},
                                  "the generated comment contains a character that str.splitlines() (Jinja's indent filter) treats as a line break: "
                                  'an indented comment gets a line without the comment prefix: %r' % v[:200], {'case': c, 'output': v})
            if o['end'] is not None:
                term = o['end'].strip()
                if v.count(term) != 1 or not v.endswith(term):
                    ctx.add_violation({'kind': 'comment-terminated-early', 'generator': c['gen']},
                                      'generated comment contains the terminator %d times: %r' % (v.count(term), v[:200]), {'case': c, 'output': v})
            else:
                if any(not ln.startswith(o['prefix'].rstrip()) for ln in v.split('\n')):
                    ctx.add_violation({'kind': 'line-comment-escaped', 'generator': c['gen']}, 'a line of the generated comment lacks the prefix: %r' % v[:200], {'case': c, 'output': v})
                bad = [ln for ln in v.split('\n') if dangling(ln)]
                if bad:
                    ctx.add_violation({'kind': 'line-comment-splices-next-line', 'generator': c['gen']},
                                      "a line of the generated '//' comment ends in a backslash: the preprocessor splices the following line "
                                      '(the next declaration) into the comment: %r' % bad[0][:120], {'case': c, 'output': v})
        elif c['k'] == 'javadoc':
            dist['javadoc'] = dist.get('javadoc', 0) + 1
            dist['with_backslash_u'] = dist.get('with_backslash_u', 0) + ('\\u' in o['raw'])
            pairs.append('(java_doc %s, %s)' % (cstr(o['raw']), cstr(v)))
            keep.append({'case': c, 'impl': v, 'rendered': o['raw']})
            t = java_translate(v)
            if t is None:
                ctx.add_violation({'kind': 'java-illegal-unicode-escape', 'generator': 'java'},
                                  "the Javadoc comment contains a backslash-u that is not a unicode escape: javac rejects the file: %r" % v[:200],
                                  {'case': c, 'output': v})
            elif t.count('*/') != 1 or not t.endswith('*/'):
                ctx.add_violation({'kind': 'comment-terminated-early', 'generator': 'java', 'via': 'unicode-escape'},
                                  'after unicode-escape translation (JLS 3.3) the Javadoc comment is closed early: %r' % t[:200],
                                  {'case': c, 'output': v, 'as_javac_reads_it': t})
        else:
            if len(v.splitlines()) > 1:
                ctx.add_violation({'kind': 'deprecation-literal-broken-by-line-separator', 'generator': c['gen']},
                                  "the deprecation attribute contains a character that str.splitlines() (Jinja's indent filter) treats as a line break: "
                                  'the string literal is broken over two lines: %r' % v[:200], {'case': c, 'output': v})
            m = re.search(r'\((.*)\)', v, re.S)
            lits = c_literals(m.group(1)) if m else None
            if lits is None:
                ctx.add_violation({'kind': 'ill-formed-string-literal', 'generator': c['gen']},
                                  'deprecation message gives an ill-formed literal: %r' % v[:300], {'case': c, 'output': v})
                m2 = re.search(r'\("(.*)"\)', v, re.S)
                body = m2.group(1) if m2 else ''
            else:
                body = ''.join(lits)      # adjacent literals concatenate
            pairs.append('(escape_msg %s, %s)' % (cstr(c['text']), cstr(body)))
            keep.append({'case': c, 'impl': v})
            if lits is not None and not py_lit_ok(body):
                ctx.add_violation({'kind': 'ill-formed-string-literal', 'generator': c['gen']},
                                  'deprecation message gives an ill-formed literal: %r' % v[:200], {'case': c, 'output': v})
    mism = []
    for s in range(0, len(pairs), 500):
        body = PRE + 'Definition cases := %s.\nEval vm_compute in (bad_idx 0 cases).\n' % clist(pairs[s:s + 500])
        rc, out, err = coqtool.run_cases('c12', body)
        bad = coqtool.parse_nat_list(out) if rc == 0 else None
        if bad is None:
            ctx.broken.append({'kind': 'correspondence', 'name': 'K-comment (coqc failed)', 'detail': (err + out)[-1500:]}); return
        mism += [keep[s + i] for i in bad]
    ctx.add_corr('K-comment', len(pairs), len({json.dumps(k['case']) for k in keep}), mism, keep[:1], dist,
                 'adversarial strings built from %d pieces (terminators, quotes, backslashes, Markdown, entities, code injection attempts), single and '
                 'multi line, through the real comment filter of six generators and the real deprecated() helpers of cpp/objc/cppcli' % len(PIECES))
    # ---- M-noninterference on real generation
    n = ctx.n(14, 120)
    gcases, groups = [], []
    targets = ['cpp', 'java', 'objc', 'cppcli', 'yaml']
    for i in range(n):
        g = gen_idl.Gen(r, max_decls=r.choice([3, 5]), p_comment=0.0, multi_file=0.0, acyclic=True)
        p = g.program()
        variants = []
        bare = copy.deepcopy(p); set_comments(bare, lambda: None)
        variants.append(('bare', bare, False))
        def adv_gen():
            t = adversarial(r)
            return t + r.choice(WIDE_SEPS) if r.random() < 0.2 else t
        c1 = copy.deepcopy(p); set_comments(c1, lambda: [adv_gen() for _ in range(r.randint(1, 2))] if r.random() < 0.8 else None)
        variants.append(('commented', c1, False))
        d1 = copy.deepcopy(p); d2 = copy.deepcopy(p)
        marks = []
        def mk():
            x = r.random() < 0.5
            marks.append(x)
            return ['@deprecated ' + adversarial(r)] if x else None
        set_comments(d1, mk)
        it = iter(marks)
        set_comments(d2, lambda: ['@deprecated ' + adversarial(r)] if next(it) else None)
        variants.append(('deprecated-a', d1, True)); variants.append(('deprecated-b', d2, True))
        ids = []
        for name, prog, blank in variants:
            gcases.append({'files': gen_idl.print_program(prog, None, 'canon'), 'options': {'generate': dict(FULL, support_lib_sources=False)},
                           'ops': [['parse', prog['root']]] + [['generate', t] for t in targets], 'keep_content': True, 'timeout_s': 60})
            ids.append((name, len(gcases) - 1, blank))
        groups.append(ids)
    ok, res = run_impl('gen_run', {'cases': gcases}, timeout=3000)
    if not ok:
        ctx.broken.append({'kind': 'harness', 'name': 'gen_run driver', 'detail': str(res)[-1500:]}); return
    d2 = {'groups': len(groups), 'files_compared': 0, 'pairs': 0, 'skipped_failed_runs': 0}
    def outcome(o):
        if 'steps' not in o:
            return 'harness'
        bad = next((s for s in o['steps'] if s['r'] != 'ok'), None)
        return 'ok' if bad is None else bad['r'] + ':' + str((bad.get('exc') or {}).get('cls') or (bad.get('items') or [{}])[0].get('cls'))
    for ids in groups:
        for (na, a, blank), (nb, b, _) in ((ids[0], ids[1]), (ids[2], ids[3])):
            oa, ob = res['results'][a], res['results'][b]
            ra, rb = outcome(oa), outcome(ob)
            rep = {'files_a': gcases[a]['files'], 'files_b': gcases[b]['files'], 'pair': [na, nb]}
            if ra != rb:
                ctx.add_violation({'kind': 'comment-changes-outcome', 'a': ra.split(':')[0], 'b': rb.split(':')[0], 'exc': (rb + ':').split(':')[1]},
                                  'changing only comment text changes the outcome: %s vs %s' % (ra, rb), rep)
                continue
            if ra != 'ok':
                d2['skipped_failed_runs'] += 1
                continue
            d2['pairs'] += 1
            ta = {p: canon(p, t, blank) for p, t in oa['tree'].items() if p.startswith('out/')}
            tb = {p: canon(p, t, blank) for p, t in ob['tree'].items() if p.startswith('out/')}
            d2['files_compared'] += len(ta)
            if ta != tb:
                diff = sorted(p for p in set(ta) | set(tb) if ta.get(p) != tb.get(p))
                ctx.add_violation({'kind': 'comment-changes-code', 'generator': diff[0].split('/')[1], 'pair': na.split('-')[0]},
                                  'comment text changes generated code (comments%s removed) in %s' % (' and deprecation messages' if blank else '', diff[:5]),
                                  dict(rep, first_diff=[ta.get(diff[0], '')[:400], tb.get(diff[0], '')[:400]]))
    ctx.add_corr('M-noninterference', len(gcases), d2['pairs'], [], [{'files': gcases[1]['files']}], d2,
                 'per generated program: no comments vs adversarial comments on every commentable construct, and two different adversarial '
                 '@deprecated messages on the same constructs; all targets generated; code compared after removing comments (and message literals)')
