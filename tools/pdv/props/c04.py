"""C04 - Type references resolve by lexical namespace scoping, uniquely."""
import random
from .. import gen_idl, coqtool
from ..common import run_impl
from ..emit import *

TRUSTED = ['ANTLR lexer/parser (recognition)', 'pydantic model construction of AST nodes',
           'ground-truth declaration tables come from the abstract-program generator tools/pdv/gen_idl.py']
ASSUMPTIONS = ['identifiers are non-empty and dot-free (lexer guarantees ID tokens); C04_key_injective needs it',
               'model = Idl/Resolver.v, tied to src/pydjinni/parser/resolver.py by op-sequence correspondence and to '
               'the whole front end by program-level correspondence on generated namespace trees and import trees']

SEGS = ['a', 'b', 'c', 'T', 'U']


def gen_ops(r, n):
    """Interleaved register/resolve sequences concentrated on one namespace chain and two names, so that shadowing,
    re-registration after a lookup, duplicates and qualified/absolute spellings are all frequent."""
    ops = []
    nid = 0
    chain = [r.choice(SEGS[:3]) for _ in range(3)]
    names = r.sample(SEGS[2:], 2)
    def some_ns():
        if r.random() < 0.85:
            return chain[:r.randint(0, 3)]
        return [r.choice(SEGS[:3]) for _ in range(r.randint(0, 3))]
    for _ in range(n):
        ns = some_ns()
        if r.random() < 0.45:
            ops.append(['reg', ns, r.choice(names), nid]); nid += 1
        else:
            x = r.random()
            name = r.choice(names)
            if x < 0.25:     # qualified relative spelling: tail of the chain + name
                k = r.randint(0, 2)
                name = '.'.join(chain[k:r.randint(k, 3)] + [name])
            elif x < 0.45:   # absolute
                name = '.' + '.'.join(chain[:r.randint(0, 3)] + [name])
            ops.append(['res', ns, name])
    return ops


PREFIX_FAMILIES = [['v', 'v1', 'v10', 'v100'], ['sdk', 'sdk2', 'sd', 'sdk_model'], ['a', 'ab', 'abc', 'b'], ['ns', 'ns1', 'ns12', 'n']]


def gen_ops_prefix(r, n):
    """Namespaces and names that are proper string prefixes of one another (v1 / v10, T / T1): a resolver that works on the joined
    dotted string instead of the segment list confuses them; single-character alphabets cannot show that."""
    segs = r.choice(PREFIX_FAMILIES)
    names = r.choice([['T', 'T1'], ['cfg', 'cfg2'], ['T', 'U']])
    ops, nid = [], 0
    def some_ns():
        x = r.random()
        k = 1 if x < 0.5 else 0 if x < 0.65 else 2 if x < 0.9 else 3
        return [r.choice(segs) for _ in range(k)]
    for _ in range(n):
        ns = some_ns()
        if r.random() < 0.45:
            ops.append(['reg', ns, r.choice(names), nid]); nid += 1
        else:
            x = r.random()
            name = r.choice(names)
            if x < 0.2:
                name = '.'.join([r.choice(segs)] + [name])
            elif x < 0.3:
                name = '.' + '.'.join([r.choice(segs) for _ in range(r.randint(0, 2))] + [name])
            ops.append(['res', ns, name])
    return ops


def c_ops(ops, obs):
    items = []
    for op, o in zip(ops, obs):
        if op[0] == 'reg':
            items.append('OReg %s %s %s %s' % (cstrs(op[1]), cstr(op[2]), cnat(op[3]), cbool(o == 'ok')))
        else:
            exp = copt(o[1] if isinstance(o, list) and o[0] == 'some' else None, cnat)
            items.append('ORes %s %s %s' % (cstrs(op[1]), cstr(op[2]), exp))
    return clist(items)

PRELUDE = '''From Coq Require Import List String Bool Arith.
From PDV Require Import Lib.StrUtil Idl.Resolver.
Import ListNotations. Open Scope string_scope. Open Scope list_scope.
Inductive op := OReg (ns : list string) (name : string) (id : nat) (ok : bool)
              | ORes (ns : list string) (name : string) (expect : option nat).
Definition onat_eqb (a b : option nat) := match a, b with Some x, Some y => Nat.eqb x y | None, None => true | _, _ => false end.
Fixpoint run (r : registry nat) (ops : list op) : bool :=
  match ops with
  | [] => true
  | OReg ns name id ok :: rest =>
      match register r ns name id with
      | Some r' => ok && run r' rest
      | None => negb ok && run r rest
      end
  | ORes ns name e :: rest => onat_eqb (resolve r ns name) e && run r rest
  end.
Fixpoint bad_idx (i : nat) (cs : list (list op)) : list nat :=
  match cs with [] => [] | c :: t => if run [] c then bad_idx (S i) t else i :: bad_idx (S i) t end.
'''


def oracle_ops(ops, obs):
    """Independent judgement (reference lexical scoping in Python) of what the real Resolver did."""
    table = {}
    for i, (op, o) in enumerate(zip(ops, obs)):
        if isinstance(o, list) and o[0] == 'internal':
            return {'sig': {'kind': 'resolver-internal-error', 'exc': o[1]}, 'what': 'Resolver raised %s' % o[1], 'at': i}
        if op[0] == 'reg':
            k = '.'.join(op[1] + [op[2]])
            if (k in table) != (o == 'dup'):
                return {'sig': {'kind': 'duplicate-detection'}, 'what': 'register %s: expected %s, got %s' % (k, 'dup' if k in table else 'ok', o), 'at': i}
            table.setdefault(k, op[3])
        else:
            want = gen_idl.py_resolve(table, op[1], op[2])
            got = o[1] if isinstance(o, list) else None
            if want != got:
                return {'sig': {'kind': 'wrong-binding', 'absolute': op[2].startswith('.')},
                        'what': 'resolve %s from %s bound to %s, lexical scoping gives %s' % (op[2], op[1], got, want), 'at': i}
    return None


def unit_corr(ctx):
    r = random.Random(ctx.rng.random())
    n = ctx.n(400, 4000)
    cases = [gen_ops(r, r.randint(3, 24)) if i % 5 < 3 else gen_ops_prefix(r, r.randint(3, 24)) for i in range(n)]
    ok, res = run_impl('resolver_ops', {'cases': cases})
    if not ok:
        ctx.broken.append({'kind': 'harness', 'name': 'resolver_ops driver', 'detail': res})
        return
    obs = res['results']
    for c, o in zip(cases, obs):
        v = oracle_ops(c, o)
        if v:
            ctx.add_violation(v['sig'], v['what'], {'resolver_ops': c, 'observed': o, 'at': v['at'],
                                                    'how': 'tools/pdv/impl/resolver_ops.py on this op list'})
    mism = []
    shard = 500
    for s in range(0, n, shard):
        body = PRELUDE + 'Definition cases : list (list op) := %s.\nEval vm_compute in (bad_idx 0 cases).\n' % \
            clist([c_ops(c, o) for c, o in zip(cases[s:s + shard], obs[s:s + shard])])
        rc, out, err = coqtool.run_cases('c04_unit', body)
        bad = coqtool.parse_nat_list(out) if rc == 0 else None
        if bad is None:
            ctx.broken.append({'kind': 'correspondence', 'name': 'K-resolver-unit (coqc failed)', 'detail': (err + out)[-1500:]})
            return
        mism += [{'case': cases[s + i], 'impl': obs[s + i]} for i in bad]
    nontriv = len({repr(c) for c in cases if any(o == 'dup' for o in obs[cases.index(c)]) or
                   sum(1 for op in c if op[0] == 'res') >= 2}) if n <= 400 else \
        len({repr(c) for c in cases if sum(1 for op in c if op[0] == 'res') >= 2})
    dist = {'ops': sum(len(c) for c in cases), 'dup': sum(o.count('dup') for o in obs),
            'unknown': sum(o.count('none') for o in obs),
            'bound': sum(1 for o in obs for x in o if isinstance(x, list) and x[0] == 'some')}
    ctx.add_corr('K-resolver-unit', n, nontriv, mism, [{'ops': cases[0], 'impl': obs[0]}], dist,
                 'random interleavings of register/resolve on the real Resolver over a 5-symbol alphabet (3 of 5 cases) and over namespace / type names that are '
                 'proper string prefixes of one another, v1 / v10 / v100, T / T1 (2 of 5 cases); '
                 'non-trivial = at least two resolve operations')


# ---------------------------------------------------------------- program level
def dfs_decls(prog):
    """Registration order of the real front end: imports (recursively) first, then own declarations."""
    order = []       # (file, ns, name, kind)
    end_of = {}      # file -> number of declarations registered when that file's references are resolved
    def visit(p):
        f = prog['files'][p]
        import os
        for ld in f['loads']:
            if ld['k'] == 'import':
                q = os.path.normpath(os.path.join(os.path.dirname(p), ld['path']))
                visit(q)
        for d, ns in gen_idl.walk_items(f['items']):
            order.append((p, ns, d['name'], d['k']))
        end_of[p] = len(order)
    visit(prog['root'])
    return order, end_of


def mutate_refs(r, prog):
    """Adversarial respelling: make some references point elsewhere / nowhere (program may become invalid)."""
    for p, f in prog['files'].items():
        for d, ns in gen_idl.walk_items(f['items']):
            for t in gen_idl.decl_refs(d):
                if t['name'] in gen_idl.BUILTIN_KIND:
                    continue
                x = r.random()
                base = t['name'].split('.')[-1]
                if x < 0.15:
                    t['name'] = base
                elif x < 0.25:
                    t['name'] = '.' + base
                elif x < 0.33:
                    t['name'] = r.choice(gen_idl.NS_POOL) + '.' + base
                elif x < 0.38:
                    t['name'] = base + 'Zz'


def prog_corr(ctx):
    r = random.Random(ctx.rng.random())
    n = ctx.n(150, 1500)
    progs, cases = [], []
    for i in range(n):
        g = gen_idl.Gen(r, max_decls=r.choice([4, 8, 12]), shadowing=0.8, multi_file=0.4, p_comment=0.05)
        p = g.program()
        kind = 'valid'
        if i % 3 == 1:
            mutate_refs(r, p); kind = 'respelled'
        elif i % 10 == 9:
            # duplicate: re-declare an existing qualified name (or a built-in) somewhere
            order, _ = dfs_decls(p)
            _, ns, name, _k = r.choice(order)
            dup = {'k': 'enum', 'name': name if r.random() < 0.8 else r.choice(gen_idl.PRIMS), 'comment': None, 'items': []}
            if r.random() < 0.2:
                ns = []
                dup['name'] = r.choice(list(gen_idl.BUILTIN_KIND))
            item = dup
            for seg in reversed(ns):
                item = {'k': 'namespace', 'name': seg, 'comment': None, 'items': [item]}
            p['files'][p['root']]['items'].append(item)
            kind = 'duplicate'
        progs.append((p, kind))
        cases.append({'files': gen_idl.print_program(p, r, 'random' if i % 2 else 'canon'), 'root': p['root'],
                      'want': ['refs']})
    ok, res = run_impl('front', {'cases': cases}, timeout=1200)
    if not ok:
        ctx.broken.append({'kind': 'harness', 'name': 'front driver', 'detail': res})
        return
    items, mism, nontriv, dist = [], [], 0, {'valid': 0, 'respelled': 0, 'duplicate': 0, 'refs': 0, 'unknown_refs': 0, 'dup_rejected': 0, 'multi_file': 0}
    meta = []
    for (p, kind), case, o in zip(progs, cases, res['results']):
        dist[kind] += 1
        dist['multi_file'] += len(p['files']) > 1
        order, end_of = dfs_decls(p)
        builtins = [([], b) for b in gen_idl.BUILTIN_KIND]
        decls = builtins + [(ns, name) for (_f, ns, name, _k) in order]
        ident = {}
        for i, (ns, name) in enumerate(decls):
            ident.setdefault('.'.join(ns + [name]), i)
        nb = len(builtins)
        dup_obs = o['outcome'] == 'app' and o['exc']['item']['code'] == 170 and 'already exists' in o['exc']['item']['desc']
        queries = {}
        if o['outcome'] in ('ok', 'list'):
            for ref in o.get('refs', []):
                def rec(t):
                    f = (t['pos'] or {}).get('file')
                    b = t['bound']
                    bid = None if b is None else ident.get('.'.join(b['ns'] + [b['name']]), 4999)
                    if t['name'] != '<function>':
                        queries.setdefault((f, tuple(t['ns']), t['name']), set()).add(bid)
                rec(ref)
        elif not dup_obs:
            v = {'sig': {'kind': 'front-end-outcome', 'outcome': o['outcome'], 'exc': (o.get('exc') or {}).get('cls')},
                 'what': 'front end ended with %s' % (o.get('exc') or o)}
            # internal errors on unknown references are C06's subject; here they only make the case unusable
            mism.append({'files': case['files'], 'impl': o.get('exc'), 'kind': kind})
            continue
        # expected number of reference sites (ground truth) - guards against vacuous comparisons
        gt = 0
        for pth, f in p['files'].items():
            for d, ns in gen_idl.walk_items(f['items']):
                gt += len(gen_idl.decl_refs(d))
        qs = []
        qmeta = []
        for (f, ns, name), bids in sorted(queries.items(), key=lambda kv: (kv[0][0] or '', kv[0][1], kv[0][2])):
            n_reg = nb + end_of.get(f, len(order))
            for bid in bids:
                qs.append('(%s, %s, %s, %s)' % (cnat(n_reg), cstrs(ns), cstr(name), copt(bid, cnat)))
                qmeta.append((f, ns, name, bid))
                dist['refs'] += 1
                dist['unknown_refs'] += bid is None
        dist['dup_rejected'] += dup_obs
        got_refs = sum(len(v) for v in queries.values())
        items.append('(%s, %s, %s)' % (clist(['(%s, %s, %s)' % (cstrs(ns), cstr(nm), cnat(i)) for i, (ns, nm) in enumerate(decls)]),
                                        cbool(dup_obs), clist(qs)))
        meta.append((p, kind, case, o, qmeta, decls, nb, end_of, order))
        if len({q[2] for q in qmeta}) >= 2 or dup_obs:
            nontriv += 1
        # oracle: reference scoping in Python on ground truth
        table_all = {}
        has_dup = False
        for i, (ns, nm) in enumerate(decls):
            k = '.'.join(ns + [nm])
            if k in table_all:
                has_dup = True
            table_all.setdefault(k, i)
        if has_dup != dup_obs:
            ctx.add_violation({'kind': 'duplicate-detection', 'level': 'program'},
                              'program with%s duplicate qualified name was %s' % ('' if has_dup else 'out', 'rejected as duplicate' if dup_obs else 'not rejected'),
                              {'files': case['files'], 'root': case['root'], 'observed': o.get('exc') or o['outcome']})
        if not dup_obs and not has_dup:
            if o['outcome'] in ('ok', 'list') and got_refs == 0 and gt > 0:
                mism.append({'files': case['files'], 'impl': 'no references reported', 'kind': kind})
            for (f, ns, name, bid) in qmeta:
                n_reg = nb + end_of.get(f, len(order))
                tbl = {}
                for i, (dns, nm) in enumerate(decls[:n_reg]):
                    tbl.setdefault('.'.join(dns + [nm]), i)
                want = gen_idl.py_resolve(tbl, list(ns), name)
                if want is None and bid is not None:
                    # unknown at the end of its own file (diagnosed there, checked below); the importer retried it later
                    full = {}
                    for i2, (dns2, nm2) in enumerate(decls):
                        full.setdefault('.'.join(dns2 + [nm2]), i2)
                    if gen_idl.py_resolve(full, list(ns), name) == bid and any(it['code'] == 170 for it in (o.get('exc') or {}).get('items', [])):
                        continue
                if want != bid:
                    ctx.add_violation({'kind': 'wrong-binding', 'level': 'program', 'absolute': name.startswith('.')},
                                      "reference '%s' in namespace %s of %s bound to %s, lexical scoping gives %s" %
                                      (name, list(ns), f, decls[bid] if bid is not None and bid < len(decls) else bid,
                                       decls[want] if want is not None else None),
                                      {'files': case['files'], 'root': case['root'], 'reference': [f, list(ns), name]})
            # an unknown reference must be reported as a 170 diagnostic at the reference
            if any(q[3] is None for q in qmeta):
                items170 = [it for it in (o.get('exc') or {}).get('items', []) if it['code'] == 170]
                if not items170:
                    ctx.add_violation({'kind': 'unknown-not-reported'}, 'unresolved reference without unknown-type diagnostic',
                                      {'files': case['files'], 'root': case['root']})
    PRE = '''From Coq Require Import List String Bool Arith.
From PDV Require Import Lib.StrUtil Idl.Resolver.
Import ListNotations. Open Scope string_scope. Open Scope list_scope.
Definition onat_eqb (a b : option nat) := match a, b with Some x, Some y => Nat.eqb x y | None, None => true | _, _ => false end.
Definition decl := (list string * string * nat)%type.
Definition query := (nat * list string * string * option nat)%type.
Definition q_ok (ds : list decl) (q : query) : bool :=
  let '(n, ns, name, e) := q in
  match register_all [] (firstn n ds) with
  | Some r =>
      (* a reference that is unknown when its own file is resolved gets its unknown-type diagnostic there; the importing parser
         tries unresolved references again at its own end, so the binding dumped afterwards may be a later declaration's *)
      match resolve r ns name, register_all [] ds with
      | None, Some rall => onat_eqb (resolve rall ns name) e || onat_eqb None e
      | got, _ => onat_eqb got e
      end
  | None => false
  end.
Definition case_ok (c : list decl * bool * list query) : bool :=
  let '(ds, dup, qs) := c in
  match register_all [] ds with
  | None => dup
  | Some _ => negb dup && forallb (q_ok ds) qs
  end.
Fixpoint bad_idx (i : nat) (cs : list (list decl * bool * list query)) : list nat :=
  match cs with [] => [] | c :: t => if case_ok c then bad_idx (S i) t else i :: bad_idx (S i) t end.
'''
    shard = 100
    for s in range(0, len(items), shard):
        body = PRE + 'Definition cases := %s.\nEval vm_compute in (bad_idx 0 cases).\n' % clist(items[s:s + shard])
        rc, out, err = coqtool.run_cases('c04_prog', body)
        bad = coqtool.parse_nat_list(out) if rc == 0 else None
        if bad is None:
            ctx.broken.append({'kind': 'correspondence', 'name': 'K-front-scope (coqc failed)', 'detail': (err + out)[-1500:]})
            return
        for i in bad:
            p, kind, case, o, qmeta, *_ = meta[s + i]
            mism.append({'files': case['files'], 'kind': kind, 'impl_bindings': [list(map(str, q)) for q in qmeta][:20]})
    sample = {'files': cases[0]['files'], 'kind': progs[0][1]}
    ctx.add_corr('K-front-scope', n, nontriv, mism, [sample], dist,
                 'generated namespace trees (depth<=3, heavy name reuse) with import trees; valid, adversarially respelled and '
                 'duplicate-declaring variants; every reference site of the real parse compared with the model on the ground-truth '
                 'declaration table; non-trivial = at least two distinct reference spellings or a duplicate')


def run(ctx):
    unit_corr(ctx)
    prog_corr(ctx)
