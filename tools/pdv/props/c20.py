"""C20 - A failing external build/publish tool is reported and leaves no trace of success."""
import random
from .. import coqtool
from ..common import run_impl
from ..emit import *

TRUSTED = ['os.system / shutil.which are replaced by an outcome oracle inside the driver process (the real tools are not '
           'available offline); the oracle also creates the files a successful tool would leave',
           'hypothesis: a tool that exits non-zero writes nothing into the package output directory (nuget pack writes there itself)']
ASSUMPTIONS = ['model = Sys/Exec.v: execute() and the step lists of build/package/publish of aar, nuget, swiftpackage; tied to '
               'src/pydjinni/packaging by running the real pipelines with a failure injected at every invocation point',
               'the nuget "sources update" -> "sources add" fallback is by design one logical step (fails iff both fail)']

TARGETS = {'aar': ('Aar', {'android': ['x86', 'x86_64', 'armv7', 'armv8']}),
           'nuget': ('Nuget', {'windows': ['x86', 'x86_64', 'armv7', 'armv8']}),
           'swiftpackage': ('Swift', {'macos': ['x86_64', 'armv8'], 'ios': ['armv8'], 'ios_simulator': ['x86_64', 'armv8']})}


def scenario(r):
    t = r.choice(list(TARGETS))
    plats = TARGETS[t][1]
    ops = []
    n_calls = 0
    for pl in r.sample(list(plats), r.randint(1, len(plats))):
        archs = r.sample(plats[pl], r.randint(1, len(plats[pl])))
        ops.append(['build', pl, archs])
    if r.random() < 0.4:
        ops.append(['seed_artifact'])
    stage = r.random()
    if stage < 0.85:
        ops.append(['package', r.random() < 0.5])
        if stage < 0.6:
            ops.append(['publish'])
    return {'name': 'mylib', 'target': t, 'ops': ops, 'remote': r.random() < 0.6}


def steps_expr(sc):
    T = TARGETS[sc['target']][0]
    parts = []
    for op in sc['ops']:
        if op[0] == 'build':
            parts.append('build_steps %s %s' % (T, cnat(len(op[2]))))
        elif op[0] == 'seed_artifact':
            parts.append('[Seed]')
        elif op[0] == 'package':
            parts.append('package_steps %s' % T)
        elif op[0] == 'publish':
            parts.append('publish_steps %s %s false' % (T, cbool(sc['remote'])))
    return '(' + ' ++ '.join(parts) + ')'


def oracle(sc, o):
    if 'harness_error' in o:
        return None
    for st in o['steps']:
        if not st['cwd_restored']:
            return {'sig': {'kind': 'cwd-not-restored'}, 'what': 'working directory is %s after %s' % (st['cwd'], st['op'])}
        if st['result'] == 'internal':
            return {'sig': {'kind': 'internal-error', 'exc': st['cls']}, 'what': '%s raised %s: %s' % (st['op'], st['cls'], st.get('msg'))}
    last = o['steps'][-1] if o['steps'] else None
    failing = [i for i, c in enumerate(o['calls']) if c['outcome'] != 'zero']
    if last and last['result'] == 'app':
        if last.get('code') != 130:
            return {'sig': {'kind': 'wrong-code', 'code': last.get('code')}, 'what': 'failure reported with code %s' % last.get('code')}
        # "no finished artifact" is about the operation that produces it: a publish (or a later build) that fails
        # after an earlier, successful package rightly leaves that package in place
        if last['op'][0] == 'package' and last['artifacts']:
            return {'sig': {'kind': 'artifact-after-failure', 'target': sc['target']},
                    'what': 'package output directory holds %s after the failure' % last['artifacts']}
        if not failing:
            return {'sig': {'kind': 'spurious-failure'}, 'what': 'code 130 although every command succeeded'}
    else:
        for i in failing:
            c = o['calls'][i]
            nxt = o['calls'][i + 1] if i + 1 < len(o['calls']) else None
            tolerated = c['cmd'] == 'nuget' and c.get('arg', 'sources') == 'sources' and nxt and nxt['cmd'] == 'nuget' and \
                nxt.get('arg') == 'sources' and nxt['outcome'] == 'zero' and (i == 0 or o['calls'][i - 1].get('arg') != 'sources')
            if c['outcome'] == 'missing' and c['cmd'] == 'nuget' and nxt and nxt.get('arg') == 'sources' and nxt['outcome'] == 'zero':
                tolerated = True
            if not tolerated:
                return {'sig': {'kind': 'failure-swallowed', 'cmd': c['cmd']},
                        'what': 'invocation %d (%s %s) %s but the operation completed' % (i, c['cmd'], c.get('arg'), c['outcome'])}
    return None


PRE = '''From Coq Require Import List String Bool Arith.
From PDV Require Import Sys.Exec.
Import ListNotations. Open Scope string_scope. Open Scope list_scope.
Definition pair_eqb (a b : string * string) := String.eqb (fst a) (fst b) && String.eqb (snd a) (snd b).
Fixpoint list_eqb (a b : list (string * string)) := match a, b with [] , [] => true | x :: a', y :: b' => pair_eqb x y && list_eqb a' b' | _, _ => false end.
Definition case_ok (c : list step * list outcome * (bool * list (string * string) * bool)) : bool :=
  let '(steps, pl, (err, cs, arts)) := c in
  let '(w, r) := run steps {| cwd := "."; artifacts := 0; calls := []; plan := pl |} in
  Bool.eqb (match r with Err130 => true | Done => false end) err && list_eqb (calls w) cs &&
  Bool.eqb (negb (Nat.eqb (artifacts w) 0)) arts && String.eqb (cwd w) ".".
Fixpoint bad_idx (i : nat) (cs : list (list step * list outcome * (bool * list (string * string) * bool))) : list nat :=
  match cs with [] => [] | c :: t => if case_ok c then bad_idx (S i) t else i :: bad_idx (S i) t end.
'''


def run(ctx):
    r = random.Random(ctx.rng.random())
    n_sc = ctx.n(40, 400)
    scen = [scenario(r) for _ in range(n_sc)]
    # 1) fault-free runs give the number of invocation points of every scenario
    ok, res = run_impl('exec_pipeline', {'cases': [dict(s, plan=[]) for s in scen]}, timeout=1200)
    if not ok:
        ctx.broken.append({'kind': 'harness', 'name': 'exec_pipeline driver', 'detail': res}); return
    cases = []
    for s, o in zip(scen, res['results']):
        n = len(o.get('calls', []))
        cases.append(dict(s, plan=[]))
        # 2) every invocation point failing in turn, both ways; plus a second fault right after (fallback paths)
        for i in range(n):
            for kind in ('nonzero', 'missing'):
                cases.append(dict(s, plan=['zero'] * i + [kind]))
            if r.random() < 0.5:
                cases.append(dict(s, plan=['zero'] * i + [r.choice(['nonzero', 'missing']), r.choice(['nonzero', 'missing'])]))
    ok, res = run_impl('exec_pipeline', {'cases': cases}, timeout=3000)
    if not ok:
        ctx.broken.append({'kind': 'harness', 'name': 'exec_pipeline driver', 'detail': res}); return
    obs = res['results']
    items, mism, keep = [], [], []
    dist = {'scenarios': n_sc, 'fault_points': 0, 'failed_runs': 0, 'targets': {}}
    for c, o in zip(cases, obs):
        if 'harness_error' in o:
            mism.append({'case': c, 'impl': o}); continue
        v = oracle(c, o)
        if v:
            ctx.add_violation(v['sig'], v['what'], {'case': c, 'observed': o, 'how': 'tools/pdv/impl/exec_pipeline.py'})
        last = o['steps'][-1] if o['steps'] else {'result': 'ok', 'artifacts': []}
        err = last['result'] != 'ok'
        dist['failed_runs'] += err
        dist['fault_points'] += bool(c['plan'])
        dist['targets'][c['target']] = dist['targets'].get(c['target'], 0) + 1
        calls = [(x['cmd'], x['cwd']) for x in o['calls'] if x['outcome'] != 'missing']
        om = {'zero': 'Zero', 'nonzero': 'NonZero', 'missing': 'Missing'}
        items.append('(%s, %s, (%s, %s, %s))' % (steps_expr(c), clist([om[x] for x in c['plan']]), cbool(err),
                                                  clist(['(%s, %s)' % (cstr(a), cstr(b)) for a, b in calls]),
                                                  cbool(bool(last['artifacts']))))  # model tracks artifacts through all ops
        keep.append((c, o))
    shard = 400
    for s in range(0, len(items), shard):
        body = PRE + 'Definition cases := %s.\nEval vm_compute in (bad_idx 0 cases).\n' % clist(items[s:s + shard])
        rc, out, err = coqtool.run_cases('c20', body)
        bad = coqtool.parse_nat_list(out) if rc == 0 else None
        if bad is None:
            ctx.broken.append({'kind': 'correspondence', 'name': 'K-exec (coqc failed)', 'detail': (err + out)[-1500:]}); return
        for i in bad:
            c, o = keep[s + i]
            mism.append({'case': c, 'impl': {'steps': o['steps'], 'calls': o['calls']}})
    nontriv = len({repr((c['target'], c['ops'], c['plan'], c['remote'])) for c in cases if c['plan']})
    ctx.add_corr('K-exec', len(cases), nontriv, mism, [{'case': cases[1] if len(cases) > 1 else cases[0]}], dist,
                 'random build/package/publish scenarios per package plugin (platform and architecture subsets, stale artifact, '
                 'local/remote publish); for each, a missing and a non-zero tool at EVERY invocation point (+ double faults); '
                 'non-trivial = distinct (scenario, fault plan) with at least one fault')
    ctx.extra_cov['exhaustive'] = False
    ctx.extra_cov['fault_points_enumerated'] = dist['fault_points']
