"""C09 - Derived record operations (eq, ord, hash, to-string) behave as specified."""
import json, os, random, re, shutil, subprocess, tempfile
from concurrent.futures import ThreadPoolExecutor
from pathlib import Path
from .. import kjinja
from ..common import run_impl
from .c17 import FULL

TRUSTED = ['Jinja2 lexer/parser (the translator uses the generator\'s own environment) and runtime (fragments are rendered by Jinja itself on the real objects)',
           'C++/Java semantics of &&, if/return, int arithmetic (hashCode wraps mod 2^32) as written in Lang/RecordOps.v; ==, <, equals, compareTo, hashCode '
           'of the FIELD types are equivalences / strict weak orders / hash-compatible (hypotheses of the RecordOps theorems, satisfied by the built-in types '
           'except float NaN)',
           'g++ 12 / javac 17 for the compile-and-run judge']
ASSUMPTIONS = ['model = TIR interpreter (Jinja/Interp.v) on coq/Gen/Templates.v regenerated from /repo each run; render lemmas for the eq/ord sections and '
               'loops in Jinja/FragRecord.v; meaning of the printed chains in Lang/RecordOps.v; per-field Java expressions in Lang/JavaField.v',
               'records generated for the check use only field types docs/deriving.md calls eligible (no collections/optionals/booleans under ord, no NaN)']

FRAGS = [{'gen': 'cpp', 'template': 'source/record.jinja2.cpp', 'if_tag': 'eq', 'decl_class': 'Record'},
         {'gen': 'cpp', 'template': 'source/record.jinja2.cpp', 'if_tag': 'ord', 'decl_class': 'Record'},
         {'gen': 'cpp', 'template': 'source/record.jinja2.cpp', 'attr': 'fields', 'index': 2, 'decl_class': 'Record'},
         {'gen': 'cpp', 'template': 'source/record.jinja2.cpp', 'attr': 'fields', 'index': 3, 'decl_class': 'Record'},
         {'gen': 'java', 'template': 'record.jinja2.java', 'if_tag': 'eq', 'decl_class': 'Record'},
         {'gen': 'java', 'template': 'record.jinja2.java', 'if_tag': 'ord', 'decl_class': 'Record'},
         {'gen': 'java', 'template': 'record.jinja2.java', 'attr': 'fields', 'index': 7, 'decl_class': 'Record'}]

NAMES = ['a', 'b', 'c', 'd', 'first', 'second', 'x_y', 'value', 'count', 'is_ok', 'k1', 'm2', 'long_name_here', 'q', 'r', 's', 't', 'u', 'v', 'w']
ORD_T = ['i8', 'i16', 'i32', 'i64', 'f32', 'f64', 'string', 'color', 'inner']
EQ_T = ORD_T + ['bool', 'binary', 'date', 'i32?', 'string?', 'inner?', 'color?', 'bool?', 'i64?',
                'f64?', 'list<i32>', 'list<string>', 'set<i32>', 'map<string, i32>', 'list<inner>', 'list<i8>?']
PRELUDE = 'color = enum { red; green; blue; }\ninner = record { p: i32; q: string; } deriving (eq, ord)\n'


def gen_records(r, n, max_fields=10):
    out = []
    for i in range(n):
        der = r.choice([('eq',), ('ord',), ('eq', 'ord'), ('eq', 'ord'), ()])
        pool = ORD_T if 'ord' in der else EQ_T
        k = r.choice([0, 1, 1, 2, 2, 3, 4, 5, r.randint(6, max_fields)])
        out.append({'name': 'rec%d' % i, 'deriving': der, 'fields': [(nm, r.choice(pool)) for nm in r.sample(NAMES, k)]})
    return out


def idl_nested(recs):
    """the same records inside a namespace block and WITHOUT a deriving clause: the operations come from generate.default_deriving"""
    lines = [PRELUDE, 'namespace geo {']
    for rc in recs:
        lines.append('    %s = record { %s }' % (rc['name'], ' '.join('%s: %s;' % f for f in rc['fields'])))
    lines.append('}')
    return '\n'.join(lines) + '\n'


def idl_of(recs):
    lines = [PRELUDE]
    for rc in recs:
        lines.append('%s = record { %s }%s' % (rc['name'], ' '.join('%s: %s;' % f for f in rc['fields']),
                                               (' deriving (%s)' % ', '.join(rc['deriving'])) if rc['deriving'] else ''))
    return '\n'.join(lines) + '\n'


def run(ctx):
    r = random.Random(ctx.rng.random())
    recs = []
    # every deriving set x every field count 0..3 (exhaustive over the shape), then random records
    i = 0
    for der in [(), ('eq',), ('ord',), ('eq', 'ord')]:
        for k in range(0, 4):
            pool = ORD_T if 'ord' in der else EQ_T
            recs.append({'name': 's%d' % i, 'deriving': der, 'fields': [(NAMES[j], r.choice(pool)) for j in range(k)]}); i += 1
    recs += gen_records(r, ctx.n(40, 400))
    per = 10
    opts = {'generate': json.loads(json.dumps(FULL))}
    opts['generate']['cpp']['string_serialization'] = True
    opts['generate']['java']['string_serialization'] = True
    cases = [{'files': {'a.djinni': idl_of(recs[s:s + per])}, 'root': 'a.djinni', 'options': opts, 'fragments': FRAGS} for s in range(0, len(recs), per)]
    mism, flat = kjinja.run(ctx, 'c09', cases)
    if flat is None:
        return
    by = {}
    for f in flat:
        fr = f['fragment']
        by.setdefault(f['decl'], {})[(fr['gen'], fr.get('if_tag') or 'loop%d' % fr['index'])] = f
    mm = [{'fragment': m['fragment'], 'decl': m['decl'], 'impl_text': m['text']} for m in (mism or [])]
    dist = {'records': len(recs), 'renders': len(flat), 'max_fields': max(len(x['fields']) for x in recs),
            'deriving': {str(d): sum(1 for x in recs if x['deriving'] == d) for d in [(), ('eq',), ('ord',), ('eq', 'ord')]}}
    ctx.add_corr('K-jinja/record-ops', len(flat), len(recs), mm, [{'fragment': flat[0]['fragment'], 'text': flat[0]['text']}] if flat else [], dist,
                 'the eq section, ord section and to-string loops of the C++ and Java record templates rendered by Jinja on the real objects vs the TIR '
                 'interpreter on the regenerated templates, for every deriving set x 0..3 fields and random records up to 10 fields')
    names = {}
    for rc in recs:
        rs = by.get(rc['name'], {})
        try:
            names[rc['name']] = {'cpp': rs[('cpp', 'eq')]['env']['type_def']['cpp']['name'], 'java': rs[('java', 'eq')]['env']['type_def']['java']['name'],
                                 'cfields': [f['cpp']['name'] for f in rs[('cpp', 'eq')]['env']['type_def']['fields']],
                                 'jfields': [f['java']['name'] for f in rs[('java', 'loop7')]['env']['type_def']['fields']]}
        except KeyError:
            ctx.broken.append({'kind': 'harness', 'name': 'C09 names', 'detail': 'no render for %s' % rc['name']}); return
    text_oracle(ctx, recs, by, names)
    kjfield(ctx, recs, r)
    nrec, pairs = judge(ctx, recs, names, ctx.n(2, 24), 10, ctx.n(10, 14))
    ctx.extra_cov['compile_and_run'] = {'records': nrec, 'ordered_pairs_per_language': pairs, 'compilers': 'g++ -std=c++20, javac 17'}
    ctx.log.append('compile-and-run judge: %d records, %d ordered pairs per language' % (nrec, pairs))


PRIM_EQ = {'i8', 'i16', 'i32', 'i64', 'f32', 'f64', 'bool', 'color'}


def text_oracle(ctx, recs, by, names):
    """independent reading of the rendered sections: which fields, in which order, compared how"""
    for rc in recs:
        rs = by[rc['name']]
        nm = names[rc['name']]
        cf, jf = nm['cfields'], nm['jfields']
        rep = {'record': rc}
        t = rs[('cpp', 'eq')]['text'] or ''
        if 'eq' in rc['deriving']:
            body = t.split('operator!=')[0]
            got = re.findall(r'lhs\.(\w+) == rhs\.(\w+)', body)
            if got != [(f, f) for f in cf] or (not cf and 'true;' not in body) or body.count('&&') != max(0, len(cf) - 1) or '||' in body:
                ctx.add_violation({'kind': 'eq-chain', 'lang': 'cpp'}, 'C++ operator== of %s compares %s, fields are %s' % (rc['name'], got, cf), dict(rep, text=t))
            if 'return !(lhs == rhs);' not in t.split('operator!=')[-1]:
                ctx.add_violation({'kind': 'neq-not-negation', 'lang': 'cpp'}, 'C++ operator!= of %s is not !(lhs == rhs)' % rc['name'], dict(rep, text=t))
        elif t.strip():
            ctx.add_violation({'kind': 'ops-without-deriving', 'lang': 'cpp', 'op': 'eq'}, 'eq operators emitted without deriving eq', dict(rep, text=t))
        t = rs[('cpp', 'ord')]['text'] or ''
        if 'ord' in rc['deriving']:
            lt = re.sub(r'bool\s*$', '', t.split('operator>')[0])
            toks = re.findall(r'if \((lhs|rhs)\.(\w+) < (lhs|rhs)\.(\w+)\) \{\s*return (true|false);', lt)
            want = []
            for f in cf:
                want += [('lhs', f, 'rhs', f, 'true'), ('rhs', f, 'lhs', f, 'false')]
            if toks != want or not re.search(r'return false;\s*\}\s*$', lt.strip()) or len(re.findall(r'return', lt)) != 2 * len(cf) + 1:
                ctx.add_violation({'kind': 'lt-cascade', 'lang': 'cpp'}, 'C++ operator< of %s is not the field-order cascade' % rc['name'], dict(rep, text=t))
            for op, body in (('>', 'rhs < lhs'), ('<=', '!(rhs < lhs)'), ('>=', '!(lhs < rhs)')):
                m = re.search(r'operator%s\(.*?\{\s*return (.*?);' % re.escape(op), t, flags=re.S)
                if not m or m.group(1) != body:
                    ctx.add_violation({'kind': 'derived-order-op', 'lang': 'cpp', 'op': op}, 'C++ operator%s of %s is %s' % (op, rc['name'], m and m.group(1)), dict(rep, text=t))
        elif t.strip():
            ctx.add_violation({'kind': 'ops-without-deriving', 'lang': 'cpp', 'op': 'ord'}, 'ord operators emitted without deriving ord', dict(rep, text=t))
        fmt, args = rs[('cpp', 'loop2')]['text'] or '', rs[('cpp', 'loop3')]['text'] or ''
        if re.findall(r'(\w+)=\{\}', fmt) != cf or re.findall(r'format\(value\.(\w+)\)', args) != cf:
            ctx.add_violation({'kind': 'string-form-misses-field', 'lang': 'cpp'}, 'C++ to_string of %s: %r / %r for fields %s' % (rc['name'], fmt, args, cf), rep)
        js = rs[('java', 'loop7')]['text'] or ''
        if re.findall(r'"[,]?(\w+)=" \+ (\w+) \+', js) != [(f, f) for f in jf]:
            ctx.add_violation({'kind': 'string-form-misses-field', 'lang': 'java'}, 'Java toString of %s: %r for fields %s' % (rc['name'], js, jf), rep)
        t = rs[('java', 'eq')]['text'] or ''
        if 'eq' in rc['deriving']:
            if 'boolean equals(Object' not in t or 'int hashCode()' not in t:
                ctx.add_violation({'kind': 'java-eq-missing', 'fields': 'none' if not jf else 'some'},
                                  'Java record %s derives eq but has no equals/hashCode (Object identity is used)' % rc['name'], dict(rep, text=t))
            else:
                eqb = t.split('int hashCode')[0].split('return', 2)[-1]
                terms = [x.strip().rstrip(';').strip() for x in eqb.split('&&\n')] if jf else []
                terms = [x.split(';')[0].strip() for x in terms]
                okk = len(terms) == len(jf)
                for (fname, ftype), jn, term in zip(rc['fields'], jf, terms):
                    opt = ftype.endswith('?')
                    if not re.search(r'\b%s\b' % jn, term) or ('other.%s' % jn) not in term:
                        okk = False
                    if opt:
                        okk = okk and '== null' in term and '.equals(' in term and term.startswith('(') and term.endswith(')')
                    elif ftype in PRIM_EQ:
                        okk = okk and re.fullmatch(r'this\.%s == other\.%s' % (jn, jn), term) is not None
                    else:
                        okk = okk and ('.equals(' in term or 'Arrays.equals(' in term) and '==' not in term
                if not okk:
                    ctx.add_violation({'kind': 'eq-chain', 'lang': 'java'}, 'Java equals of %s: terms %s for fields %s' % (rc['name'], terms, rc['fields']), dict(rep, text=t))
                hl = re.findall(r'hashCode = hashCode \* 31 \+ (.*);', t)
                okh = len(hl) == len(jf) and all(re.search(r'\b%s\b' % jn, h) for jn, h in zip(jf, hl))
                for (fname, ftype), h in zip(rc['fields'], hl):
                    if ' ' in re.sub(r'\(.*\)', '()', h):     # an operator at parenthesis depth 0
                        okh = False
                if not okh:
                    ctx.add_violation({'kind': 'hash-lines', 'lang': 'java'}, 'Java hashCode of %s: %s for fields %s' % (rc['name'], hl, jf), dict(rep, text=t))
        t = rs[('java', 'ord')]['text'] or ''
        if 'ord' in rc['deriving']:
            if 'int compareTo(' not in t:
                ctx.add_violation({'kind': 'java-ord-missing', 'fields': 'none' if not jf else 'some'},
                                  'Java record %s derives ord but has no compareTo' % rc['name'], dict(rep, text=t))
            else:
                seq = re.findall(r'tempResult = this\.(\w+)\.compareTo\(other\.(\w+)\);|if \(this\.(\w+) < other\.(\w+)\) \{\s*tempResult = -1;\s*\} else if \(this\.(\w+) > other\.(\w+)\) \{\s*tempResult = 1;', t)
                flat_seq = [tuple(x for x in m if x) for m in seq]
                if [set(m) for m in flat_seq] != [{f} for f in jf] or t.count('if (tempResult != 0) {') != len(jf) or not re.search(r'return 0;\s*\}\s*$', t.strip()):
                    ctx.add_violation({'kind': 'lt-cascade', 'lang': 'java'}, 'Java compareTo of %s is not the field-order cascade' % rc['name'], dict(rep, text=t))


def kjfield(ctx, recs, r):
    """K-jfield: JavaDataField.equals / hash_code of the real objects vs Lang/JavaField.v on what they read"""
    from .. import coqtool
    from ..emit import cstr, cbool, clist
    per = 12
    cases = [{'files': {'a.djinni': idl_of(recs[s:s + per])}, 'root': 'a.djinni', 'options': {'generate': dict(FULL)},
              'want': {'field': ['name', 'equals', 'hash_code'], 'decl': []}} for s in range(0, len(recs), per)]
    ok, res = run_impl('marshal_dump', {'cases': cases}, timeout=900)
    if not ok:
        ctx.broken.append({'kind': 'harness', 'name': 'marshal_dump driver', 'detail': str(res)[-1500:]}); return
    rows = []
    for c, o in zip(cases, res['results']):
        if o['outcome'] != 'ok':
            ctx.broken.append({'kind': 'harness', 'name': 'marshal_dump case', 'detail': json.dumps(o)[:800]}); continue
        for d in o['decls']:
            if d['k'] != 'Record':
                continue
            for m in d.get('members', []):
                a = m['attrs']['java']
                tg = m['type']['target']
                if tg is None or 'v' not in a['equals'] or 'v' not in a['hash_code']:
                    ctx.broken.append({'kind': 'harness', 'name': 'K-jfield', 'detail': json.dumps(m)[:600]}); continue
                rows.append({'decl': d['name'], 'field': m['name'], 'opt': m['type']['opt'], 'enum': tg['prim'] == 'enum', 'tname': tg['name'],
                             'typename': tg['java']['typename'], 'boxed': tg['java']['boxed'], 'jname': a['name']['v'],
                             'equals': a['equals']['v'], 'hash': a['hash_code']['v']})
    body = ('From Coq Require Import List String Ascii Bool.\nFrom PDV Require Import Lib.StrUtil Lang.JavaField.\nImport ListNotations. Open Scope string_scope.\n'
            'Fixpoint bad_idx (i : nat) (cs : list (ftype * string * string * string)) : list nat :=\n'
            '  match cs with [] => [] | (t, n, e, h) :: r => if String.eqb (jequals t n) e && String.eqb (jhash t n) h && is_ident n then bad_idx (S i) r else i :: bad_idx (S i) r end.\n'
            'Definition cases := %s.\nEval vm_compute in (bad_idx 0 cases).\n' %
            clist(['(mkftype %s %s %s %s %s, %s, %s, %s)' % (cbool(x['opt']), cbool(x['enum']), cstr(x['tname']), cstr(x['typename']), cstr(x['boxed']),
                                                             cstr(x['jname']), cstr(x['equals']), cstr(x['hash'])) for x in rows]))
    rc_, out, err = coqtool.run_cases('kjfield_c09', body)
    bad = coqtool.parse_nat_list(out) if rc_ == 0 else None
    if bad is None:
        ctx.broken.append({'kind': 'correspondence', 'name': 'K-jfield (coqc failed)', 'detail': (err + out)[-1500:]}); return
    kinds = {}
    for x in rows:
        k = 'optional' if x['opt'] else 'enum' if x['enum'] else x['tname'] if x['typename'] != x['boxed'] or x['tname'] == 'binary' else 'reference'
        kinds[k] = kinds.get(k, 0) + 1
    ctx.add_corr('K-jfield', len(rows), len({(x['opt'], x['enum'], x['tname']) for x in rows}), [rows[i] for i in bad], rows[:1], {'field_kinds': kinds},
                 'JavaDataField.equals / hash_code / name of every field of the generated records vs jequals / jhash of Lang/JavaField.v applied to '
                 '(optional, is-enum, type name, java typename, java boxed) read off the same objects; the Java field name must satisfy is_ident')


# ------------------------------------------------------------------ compile-and-run judge
INTS = {'i8': ('int8_t', 'byte', [-2, 0, 1, 100]), 'i16': ('int16_t', 'short', [-300, 0, 1, 1000]), 'i32': ('int32_t', 'int', [-70000, 0, 1, 1000]),
        'i64': ('int64_t', 'long', [-5000000000, 0, 1, 5000000000])}
FLOATS = {'f32': [-1.5, 0.0, 0.5, 2.25], 'f64': [-1.5, 0.0, 0.5, 2.25]}
STRS = ['', 'a', 'ab', 'b']
COLORS = ['red', 'green', 'blue']
RUNTIME_T = set(INTS) | set(FLOATS) | {'string', 'bool', 'color', 'inner', 'binary', 'date', 'list<i32>', 'list<string>', 'i32?', 'string?', 'inner?',
                                       'color?', 'bool?', 'i64?', 'f64?'}


def rand_value(r, t):
    """abstract value: ints, floats, strings, ('enum', k), ('rec', p, q), None, lists"""
    if t.endswith('?'):
        return None if r.random() < 0.35 else rand_value(r, t[:-1])
    if t in INTS:
        return r.choice(INTS[t][2][:3] if r.random() < 0.8 else INTS[t][2])
    if t in FLOATS:
        return r.choice(FLOATS[t][:3])
    if t == 'string':
        return r.choice(STRS[:3] if r.random() < 0.8 else STRS)
    if t == 'bool':
        return r.random() < 0.5
    if t == 'color':
        return ('enum', r.randrange(3))
    if t == 'inner':
        return ('rec', r.choice([0, 1, 1000]), r.choice(STRS[:3]))
    if t == 'binary':
        return ('bin', [r.choice([1, 2]) for _ in range(r.randint(0, 2))])
    if t == 'date':
        return ('date', r.choice([0, 1000, 86400000]))
    if t == 'list<i32>':
        return [r.choice([1, 1000]) for _ in range(r.randint(0, 2))]
    if t == 'list<string>':
        return [r.choice(['a', 'b']) for _ in range(r.randint(0, 2))]
    raise KeyError(t)


def key(v):
    """total-order key of an abstract value (reference semantics: tuple comparison)"""
    if isinstance(v, tuple):
        return tuple(key(x) for x in v[1:]) if v[0] == 'rec' else (v[1] if v[0] != 'bin' else tuple(v[1]))
    if isinstance(v, list):
        return tuple(v)
    return v


def cpp_lit(v, t, enum_names):
    if t.endswith('?'):
        inner_t = cpp_type(t[:-1])
        return 'std::optional<%s>{}' % inner_t if v is None else 'std::optional<%s>{%s}' % (inner_t, cpp_lit(v, t[:-1], enum_names))
    if t in INTS:
        return '%s{%dLL}' % (INTS[t][0], v) if t == 'i64' else 'static_cast<%s>(%d)' % (INTS[t][0], v)
    if t in FLOATS:
        return repr(v) + ('f' if t == 'f32' else '')
    if t == 'string':
        return 'std::string("%s")' % v
    if t == 'bool':
        return 'true' if v else 'false'
    if t == 'color':
        return '::Color::%s' % enum_names['cpp'][v[1]]
    if t == 'inner':
        return '::Inner(%d, std::string("%s"))' % (v[1], v[2])
    if t == 'binary':
        return 'std::vector<uint8_t>{%s}' % ', '.join(map(str, v[1]))
    if t == 'date':
        return 'std::chrono::system_clock::time_point(std::chrono::milliseconds(%d))' % v[1]
    if t == 'list<i32>':
        return 'std::vector<int32_t>{%s}' % ', '.join(map(str, v))
    if t == 'list<string>':
        return 'std::vector<std::string>{%s}' % ', '.join('std::string("%s")' % x for x in v)
    raise KeyError(t)


def cpp_type(t):
    return {'string': 'std::string', 'bool': 'bool', 'color': '::Color', 'inner': '::Inner', 'f32': 'float', 'f64': 'double'}.get(t) or INTS[t][0]


def java_lit(v, t, enum_names, boxed=False):
    if t.endswith('?'):
        return 'null' if v is None else java_lit(v, t[:-1], enum_names, boxed=True)
    if t in INTS:
        lit = {'i8': '(byte) %d', 'i16': '(short) %d', 'i32': '%d', 'i64': '%dL'}[t] % v
        return '%s.valueOf(%s)' % ({'i8': 'Byte', 'i16': 'Short', 'i32': 'Integer', 'i64': 'Long'}[t], lit) if boxed else lit
    if t in FLOATS:
        lit = repr(v) + ('f' if t == 'f32' else '')
        return '%s.valueOf(%s)' % ('Float' if t == 'f32' else 'Double', lit) if boxed else lit
    if t == 'string':
        return 'new String("%s")' % v          # never interned: identity comparison of equal strings is observable
    if t == 'bool':
        return ('Boolean.valueOf(%s)' if boxed else '%s') % ('true' if v else 'false')
    if t == 'color':
        return 'com.ex.Color.%s' % enum_names['java'][v[1]]
    if t == 'inner':
        return 'new com.ex.Inner(%d, new String("%s"))' % (v[1], v[2])
    if t == 'binary':
        return 'new byte[]{%s}' % ', '.join(map(str, v[1]))
    if t == 'date':
        return 'java.time.Instant.ofEpochMilli(%dL)' % v[1]
    if t == 'list<i32>':
        return 'new java.util.ArrayList<Integer>(java.util.Arrays.asList(new Integer[]{%s}))' % ', '.join(map(str, v))
    if t == 'list<string>':
        return 'new java.util.ArrayList<String>(java.util.Arrays.asList(new String[]{%s}))' % ', '.join('new String("%s")' % x for x in v)
    raise KeyError(t)


def make_values(r, rec, n):
    ts = [t for _, t in rec['fields']]
    base = [rand_value(r, t) for t in ts]
    vals = [base, list(base)]
    while len(vals) < n:
        v = list(base) if r.random() < 0.5 else [rand_value(r, t) for t in ts]
        for j, t in enumerate(ts):
            if r.random() < 0.45:
                v[j] = rand_value(r, t)
        vals.append(v)
    return vals


def judge_batch(args):
    """generate C++ and Java for one IDL, compile drivers, run, compare with the tuple semantics. Returns list of failures."""
    recs, names, seed, nvals = args[:4]
    nested = len(args) > 4 and args[4]
    r = random.Random(seed)
    opts = {'generate': {'cpp': {'out': 'out/cpp', 'string_serialization': False}, 'java': {'out': 'out/java', 'package': 'com.ex'},
                         'jni': {'out': 'out/jni', 'namespace': 'ex::jni'}}}
    if nested:
        # records in a namespace block, operations requested through the configuration only (all records of the batch derive eq and ord)
        opts['generate']['default_deriving'] = ['eq', 'ord']
        names = {k: dict(v, cpp='geo::' + v['cpp'], java='com.ex.geo.' + v['java']) for k, v in names.items()}
    case = {'files': {'a.djinni': idl_nested(recs) if nested else idl_of(recs)}, 'options': opts, 'ops': [['parse', 'a.djinni'], ['generate', 'cpp'], ['generate', 'java']],
            'keep_content': True, 'include_support': True}
    ok, res = run_impl('gen_run', {'cases': [case]}, timeout=300)
    if not ok or any(s['r'] != 'ok' for s in res['results'][0].get('steps', [{'r': 'x'}])):
        return {'harness': 'generation failed: %s' % str(res)[:600]}
    tree = res['results'][0]['tree']
    work = Path(tempfile.mkdtemp(prefix='pdv-c09-'))
    try:
        for rel, text in tree.items():
            p = work / rel
            p.parent.mkdir(parents=True, exist_ok=True)
            p.write_text(text)
        en = {'cpp': re.findall(r'\b([A-Za-z_]\w*)\s*[,}]', re.sub(r'.*enum class \w+\s*(:\s*\w+)?\s*\{', '', tree['out/cpp/color.hpp'], flags=re.S)),
              'java': re.findall(r'^\s*([A-Z_a-z]\w*)\s*[,;]', re.sub(r'.*enum Color\s*\{', '', tree['out/java/com/ex/Color.java'], flags=re.S), flags=re.M)}
        if len(en['cpp']) < 3 or len(en['java']) < 3:
            return {'harness': 'could not read the enum item names: %s' % en}
        values = {rc['name']: make_values(r, rc, nvals) for rc in recs}
        # ---- C++
        cpp = ['#include <iostream>', '#include <vector>', '#include <string>', '#include <chrono>', '#include <optional>', '#include <cstdint>']
        srcs = sorted(k for k in tree if k.startswith('out/cpp/') and k.endswith('.cpp'))
        cpp += ['#include "%s"' % k[len('out/cpp/'):] for k in srcs]
        cpp.append('int main() {')
        for rc in recs:
            cn = names[rc['name']]['cpp']
            ts = [t for _, t in rc['fields']]
            cpp.append('  { std::vector<%s> v;' % cn)
            for val in values[rc['name']]:
                cpp.append('    v.push_back(%s(%s));' % (cn, ', '.join(cpp_lit(x, t, en) for x, t in zip(val, ts))))
            ops = (['==', '!='] if 'eq' in rc['deriving'] else []) + (['<', '>', '<=', '>='] if 'ord' in rc['deriving'] else [])
            for op in ops:
                cpp.append('    std::cout << "%s %s ";' % (rc['name'], op))
                cpp.append('    for (size_t i = 0; i < v.size(); i++) for (size_t j = 0; j < v.size(); j++) std::cout << ((v[i] %s v[j]) ? 1 : 0);' % op)
                cpp.append('    std::cout << "\\n";')
            cpp.append('  }')
        cpp.append('  return 0; }')
        (work / 'out/cpp/driver.cpp').write_text('\n'.join(cpp) + '\n')
        out = {'cpp': {}, 'java': {}}
        p = subprocess.run(['g++', '-std=c++20', '-O0', '-w', '-I', str(work / 'out/cpp'), '-o', str(work / 'drv'), str(work / 'out/cpp/driver.cpp')],
                           capture_output=True, text=True, timeout=600)
        if p.returncode != 0:
            out['cpp_compile_error'] = p.stderr[-1500:]
        else:
            q = subprocess.run([str(work / 'drv')], capture_output=True, text=True, timeout=120)
            for line in q.stdout.splitlines():
                nm, op, bits = line.split(' ')
                out['cpp'][(nm, op)] = bits
        # ---- Java
        jv = ['package com.ex;', 'public class Drv {', '  public static void main(String[] a) {']
        for rc in recs:
            jn = names[rc['name']]['java']
            ts = [t for _, t in rc['fields']]
            jv.append('    { %s[] v = new %s[]{' % (jn, jn))
            jv.append(',\n'.join('      new %s(%s)' % (jn, ', '.join(java_lit(x, t, en) for x, t in zip(val, ts))) for val in values[rc['name']]))
            jv.append('    };')
            jv.append('    StringBuilder sb = new StringBuilder("%s equals ");' % rc['name'])
            jv.append('    for (int i = 0; i < v.length; i++) for (int j = 0; j < v.length; j++) sb.append(v[i].equals(v[j]) ? 1 : 0);')
            jv.append('    System.out.println(sb);')
            jv.append('    sb = new StringBuilder("%s hash ");' % rc['name'])
            jv.append('    for (int i = 0; i < v.length; i++) for (int j = 0; j < v.length; j++) sb.append(v[i].hashCode() == v[j].hashCode() ? 1 : 0);')
            jv.append('    System.out.println(sb);')
            if 'ord' in rc['deriving']:
                jv.append('    sb = new StringBuilder("%s cmp ");' % rc['name'])
                jv.append('    for (int i = 0; i < v.length; i++) for (int j = 0; j < v.length; j++) { int c = ((Comparable<%s>) (Object) v[i]).compareTo(v[j]); sb.append(c < 0 ? "L" : c > 0 ? "G" : "E"); }' % jn)
                jv.append('    System.out.println(sb);')
            jv.append('    System.out.println("%s str " + v[0].toString().replace("\\n", " "));' % rc['name'])
            jv.append('    }')
        jv += ['  }', '}']
        (work / 'out/java/com/ex/Drv.java').write_text('\n'.join(jv) + '\n')
        jfiles = [str(x) for x in (work / 'out/java').rglob('*.java')]
        (work / 'cls').mkdir()
        p = subprocess.run(['javac', '-nowarn', '-Xlint:none', '-d', str(work / 'cls')] + jfiles, capture_output=True, text=True, timeout=600)
        if p.returncode != 0:
            out['java_compile_error'] = (p.stderr or p.stdout)[-1500:]
        else:
            q = subprocess.run(['java', '-Xshare:auto', '-XX:TieredStopAtLevel=1', '-cp', str(work / 'cls'), 'com.ex.Drv'], capture_output=True, text=True, timeout=120)
            if q.returncode != 0:
                out['java_run_error'] = q.stderr[-1200:]
            for line in q.stdout.splitlines():
                nm, op, rest = line.split(' ', 2)
                out['java'][(nm, op)] = rest
        return {'out': out, 'values': values, 'idl': case['files']['a.djinni']}
    finally:
        shutil.rmtree(work, ignore_errors=True)


def expected_bits(vals, f):
    ks = [tuple(key(x) for x in v) for v in vals]
    return ''.join(f(a, b) for a in ks for b in ks)


def nested_key_lt(a, b):
    return a < b


def judge(ctx, recs, names, nbatches, per, nvals):
    pool_recs = [rc for rc in recs if rc['deriving'] and all(t in RUNTIME_T for _, t in rc['fields'])]
    nonempty = [rc for rc in pool_recs if rc['fields']]
    # records without fields go into a batch of their own: a compile error there must not hide the run-time behaviour of the others
    batches = [[rc for rc in pool_recs if not rc['fields']]] + [nonempty[i:i + per] for i in range(0, len(nonempty), per)][:nbatches]
    jobs = [(b, names, ctx.seed * 977 + i, nvals) for i, b in enumerate(batches)]
    # one more batch: records that derive eq and ord, declared inside a namespace block without a deriving clause, under generate.default_deriving
    both = [rc for rc in nonempty if set(rc['deriving']) == {'eq', 'ord'}][:per]
    if both:
        batches.append(both); jobs.append((both, names, ctx.seed * 977 + 991, nvals, True))
    with ThreadPoolExecutor(max_workers=8) as ex:
        results = list(ex.map(judge_batch, jobs))
    pairs = 0
    nrec = 0
    for b, res in zip(batches, results):
        if 'harness' in res:
            ctx.broken.append({'kind': 'harness', 'name': 'C09 compile-and-run judge', 'detail': res['harness']}); continue
        out = res['out']
        for lang in ('cpp', 'java'):
            if out.get(lang + '_compile_error'):
                ctx.add_violation({'kind': 'generated-code-does-not-compile', 'lang': lang}, '%s: %s' % (lang, out[lang + '_compile_error'][-400:]),
                                  {'idl': res['idl'], 'error': out[lang + '_compile_error']})
        if out.get('java_run_error'):
            ctx.add_violation({'kind': 'java-run-error'}, out['java_run_error'][-300:], {'idl': res['idl'], 'error': out['java_run_error']})
        for rc in b:
            vals = res['values'][rc['name']]
            nrec += 1
            pairs += len(vals) ** 2
            exp = {'==': expected_bits(vals, lambda a, c: '1' if a == c else '0'), '!=': expected_bits(vals, lambda a, c: '0' if a == c else '1')}
            if 'ord' in rc['deriving']:
                exp.update({'<': expected_bits(vals, lambda a, c: '1' if a < c else '0'), '>': expected_bits(vals, lambda a, c: '1' if a > c else '0'),
                            '<=': expected_bits(vals, lambda a, c: '1' if a <= c else '0'), '>=': expected_bits(vals, lambda a, c: '1' if a >= c else '0')})
            def report(lang, op, got, want):
                k = next((i for i in range(min(len(got), len(want))) if got[i] != want[i]), None)
                i, j = (k // len(vals), k % len(vals)) if k is not None else (None, None)
                ctx.add_violation({'kind': 'derived-op-wrong', 'lang': lang, 'op': op},
                                  "%s %s of record %s (%d fields): values #%s and #%s give %s, the field-wise semantics gives %s" %
                                  (lang, op, rc['name'], len(rc['fields']), i, j, got[k] if k is not None else got, want[k] if k is not None else want),
                                  {'idl': res['idl'], 'record': rc, 'lhs': repr(vals[i]) if i is not None else None,
                                   'rhs': repr(vals[j]) if j is not None else None, 'got_matrix': got, 'expected_matrix': want})
            if not out.get('cpp_compile_error'):
                ops = (['==', '!='] if 'eq' in rc['deriving'] else []) + (['<', '>', '<=', '>='] if 'ord' in rc['deriving'] else [])
                for op in ops:
                    got = out['cpp'].get((rc['name'], op))
                    if got != exp[op]:
                        report('cpp', op, got or '', exp[op])
            if not out.get('java_compile_error') and not out.get('java_run_error'):
                if 'eq' in rc['deriving']:
                    got = out['java'].get((rc['name'], 'equals'), '')
                    if got != exp['==']:
                        report('java', 'equals', got, exp['=='])
                    hs = out['java'].get((rc['name'], 'hash'), '')
                    bad = [k for k in range(min(len(got), len(hs))) if got[k] == '1' and hs[k] != '1']
                    if bad:
                        ctx.add_violation({'kind': 'equals-hashcode-inconsistent'}, 'Java %s: equal values with different hashCode' % rc['name'],
                                          {'idl': res['idl'], 'record': rc, 'lhs': repr(vals[bad[0] // len(vals)]), 'rhs': repr(vals[bad[0] % len(vals)])})
                if 'ord' in rc['deriving']:
                    got = out['java'].get((rc['name'], 'cmp'), '')
                    want = expected_bits(vals, lambda a, c: 'L' if a < c else 'G' if a > c else 'E')
                    if got != want:
                        report('java', 'compareTo', got, want)
                s = out['java'].get((rc['name'], 'str'), '')
                missing = [names[rc['name']]['jfields'][k] for k in range(len(rc['fields'])) if (names[rc['name']]['jfields'][k] + '=') not in s]
                if missing:
                    ctx.add_violation({'kind': 'string-form-misses-field', 'lang': 'java'}, 'Java toString of %s does not mention %s' % (rc['name'], missing),
                                      {'idl': res['idl'], 'record': rc, 'string': s})
    return nrec, pairs
