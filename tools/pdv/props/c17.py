"""C17 - Configuration sources are equivalent, merge key-wise, and fail cleanly."""
import itertools, json, random
from .. import coqtool
from ..common import run_impl
from ..emit import *

TRUSTED = ['pydantic / pydantic-settings validation and environment layering; PyYAML, json, tomllib/tomli_w (loaders are identities on the tree)',
           'parse_option is executed from its own code object (it is a closure inside cli()), with the real combine_into']
ASSUMPTIONS = ['model = Sys/Config.v (combine_into, parse_option, folding of -o, options over file) and Sys/Api.v (target lattice over '
               'the regenerated target table); leaves are compared by their text',
               'dict keys are unique at every level (Python dict)']

KEYS = ['a', 'b', 'c', 'out', 'x']
FULL = {"cpp": {"out": "out/cpp"}, "java": {"out": "out/java", "package": "com.ex"}, "jni": {"out": "out/jni", "namespace": "ex::jni"},
        "objc": {"out": "out/objc"}, "objcpp": {"out": "out/objcpp", "namespace": "ex::objcpp"},
        "cppcli": {"out": "out/cppcli", "namespace": "Ex::Cli"}, "yaml": {"out": "out/yaml"}}
STYLES = ['PascalCase', 'camelCase', 'snake_case', 'kebab-case', 'TRAIN_CASE', 'none']


def rtree(r, depth=0):
    d = {}
    for k in r.sample(KEYS, r.randint(0 if depth else 1, 3)):
        x = r.random()
        if x < 0.4 and depth < 3:
            d[k] = rtree(r, depth + 1)
        elif x < 0.55:
            d[k] = [r.choice(['p', 'q', '', 'r s']) for _ in range(r.randint(0, 3))]
        else:
            d[k] = r.choice(['1', 'v', '', 'a.b', 'x=y', '[k]'])
    return d


def ctree(t):
    if isinstance(t, dict):
        return 'Node %s' % clist(['(%s, %s)' % (cstr(k), ctree(v)) for k, v in t.items()])
    if isinstance(t, list):
        return 'LList %s' % cstrs([str(x) for x in t])
    return 'Leaf %s' % cstr(leaf_text(t))


def leaf_text(v):
    if isinstance(v, bool):
        return 'true' if v else 'false'
    return str(v)


def ckvs(t):
    return clist(['(%s, %s)' % (cstr(k), ctree(v)) for k, v in t.items()])


def flat(t, pre=()):
    """same shape as Config.flatten"""
    if isinstance(t, dict):
        if not t:
            return [(list(pre), 'LE')]
        out = []
        for k, v in t.items():
            out += flat(v, tuple(list(pre) + [k]))
        return out
    if isinstance(t, list):
        return [(list(pre), 'LL %s' % cstrs([leaf_text(x) for x in t]))]
    return [(list(pre), 'LV %s' % cstr(leaf_text(t)))]


def cflat(t):
    return clist(['(%s, %s)' % (cstrs(p), v) for p, v in flat(t)])

PRE = '''From Coq Require Import List String Ascii Bool Arith.
From PDV Require Import Lib.StrUtil Sys.Config Gen.TargetTable Sys.Api.
Import ListNotations. Open Scope string_scope. Open Scope list_scope.
Fixpoint strs_eqb (a b : list string) := match a, b with [], [] => true | x :: a', y :: b' => String.eqb x y && strs_eqb a' b' | _, _ => false end.
Definition leafv_eqb (a b : leafv) := match a, b with LV x, LV y => String.eqb x y | LL x, LL y => strs_eqb x y | LE, LE => true | _, _ => false end.
Definition entry_eqb (a b : list string * leafv) := strs_eqb (fst a) (fst b) && leafv_eqb (snd a) (snd b).
Definition has_entry (e : list string * leafv) (l : list (list string * leafv)) := existsb (entry_eqb e) l.
(* equal as dicts: same set of (path, leaf) entries *)
Definition same_tree (m : list (string * cfg)) (expected : list (list string * leafv)) : bool :=
  let fm := flatten [] (Node m) in
  Nat.eqb (List.length fm) (List.length expected) && forallb (fun e => has_entry e fm) expected.
Inductive obs := OTree (e : list (list string * leafv)) | ORefused.
Definition merge_ok (c : cfg * list (string * cfg) * obs) : bool :=
  let '(d, cc, o) := c in match o with OTree e => same_tree (combine d cc) e | ORefused => false end.
Definition opts_ok (c : list string * obs) : bool :=
  let '(os, o) := c in
  match fold_options os [], o with
  | Some m, OTree e => same_tree m e
  | None, ORefused => true
  | _, _ => false
  end.
Definition conf_ok (c : list (string * cfg) * list (string * cfg) * list string * obs) : bool :=
  let '(file, options, os, o) := c in
  match fold_options os options, o with
  | Some m, OTree e => same_tree (effective file m) e
  | None, ORefused => true
  | _, _ => false
  end.
Definition out_eqb (a b : api_out) := match a, b with AOk, AOk => true | AUnknownTarget, AUnknownTarget => true | AConfig x, AConfig y => String.eqb x y | _, _ => false end.
Definition lat_ok (c : bool * list string * string * api_out * option api_out) : bool :=
  let '(hg, keys, t, po, go) := c in
  out_eqb (parse_outcome targets hg keys) po &&
  match go with Some g => out_eqb (generate_outcome targets keys t) g | None => true end.
Fixpoint bad_idx {A} (f : A -> bool) (i : nat) (cs : list A) : list nat :=
  match cs with [] => [] | c :: t => if f c then bad_idx f (S i) t else i :: bad_idx f (S i) t end.
'''


def coq_check(ctx, name, fn, items, shard=300):
    bad_all = []
    for s in range(0, len(items), shard):
        body = PRE + 'Definition cases := %s.\nEval vm_compute in (bad_idx %s 0 cases).\n' % (clist(items[s:s + shard]), fn)
        rc, out, err = coqtool.run_cases('c17_' + name, body)
        bad = coqtool.parse_nat_list(out) if rc == 0 else None
        if bad is None:
            ctx.broken.append({'kind': 'correspondence', 'name': '%s (coqc failed)' % name, 'detail': (err + out)[:700] + ' ... ' + (err + out)[-800:]})
            return None
        bad_all += [s + i for i in bad]
    return bad_all


def internal_violation(ctx, case, o, where):
    e = o.get('exc', {})
    ctx.add_violation({'kind': 'internal-error', 'where': where, 'exc': e.get('cls'), 'frame': e.get('frame')},
                      '%s ended in %s (%s) at %s' % (where, e.get('cls'), e.get('msg'), e.get('frame')),
                      {'case': case, 'observed': o, 'how': 'tools/pdv/impl/config_ops.py'})


# ------------------------------------------------------------------ settings over the real schema
def settings(r):
    gen = {}
    for g in r.sample(list(FULL), r.randint(1, 4)):
        gen[g] = dict(FULL[g])
    if 'cpp' in gen:
        if r.random() < 0.5:
            gen['cpp']['namespace'] = r.choice(['a::b', 'my_ns', ['p', 'q']])
        if r.random() < 0.5:
            gen['cpp']['header_extension'] = r.choice(['h', 'hpp', 'hxx'])
        if r.random() < 0.5:
            gen['cpp'].setdefault('identifier', {})['type'] = r.choice(STYLES)
        if r.random() < 0.3:
            gen['cpp'].setdefault('identifier', {})['method'] = r.choice(STYLES)
        if r.random() < 0.3:
            gen['cpp']['out'] = {'header': 'h_out', 'source': 's_out'}
    if r.random() < 0.4:
        gen['include_dirs'] = [r.choice(['inc', 'other/inc', 'x']) for _ in range(r.randint(1, 2))]
    if r.random() < 0.3:
        gen['default_deriving'] = r.sample(['eq', 'ord'], r.randint(1, 2))
    if r.random() < 0.3:
        gen['list_processed_files'] = r.choice(['files.json', 'out/files.yaml'])
    return {'generate': gen}


def leaves(t, pre=()):
    out = []
    for k, v in t.items():
        if isinstance(v, dict):
            out += leaves(v, tuple(list(pre) + [k]))
        else:
            out.append((list(pre) + [k], v))
    return out


def build(paths):
    t = {}
    for p, v in paths:
        d = t
        for k in p[:-1]:
            d = d.setdefault(k, {})
        d[p[-1]] = v
    return t


def split_sources(r, s):
    """Distribute the leaves of s over file / options dict / -o strings / environment; add shadowed stale values
    to lower-priority sources so that overriding is exercised."""
    lv = leaves(s)
    file_l, opt_l, o_l, env = [], [], [], {}
    for p, v in lv:
        where = r.choice(['file', 'file', 'options', 'o', 'env'])
        stale = 'STALE' if not isinstance(v, list) else ['STALE']
        if where == 'env' and (len(p) < 3 or p[1] == 'cpp' and p[2] == 'out'):
            where = 'file'   # keep required section keys in the init tree
        if where == 'file':
            file_l.append((p, v))
        elif where == 'options':
            opt_l.append((p, v))
            if r.random() < 0.5:
                file_l.append((p, stale))
        elif where == 'o':
            o_l.append('.'.join(p) + '=' + ('[' + ','.join(v) + ']' if isinstance(v, list) else str(v)))
            if r.random() < 0.5:
                file_l.append((p, stale))
            if r.random() < 0.3:
                opt_l.append((p, stale))
        else:
            env['PYDJINNI__' + '__'.join(p).upper()] = json.dumps(v) if isinstance(v, list) else str(v)
    return build(file_l), build(opt_l), o_l, env


def run(ctx):
    r = random.Random(ctx.rng.random())
    # ---- K-merge
    n = ctx.n(300, 3000)
    pairs = [(rtree(r), rtree(r)) for _ in range(n)]
    ok, res = run_impl('config_ops', {'cases': [{'k': 'combine', 'd': d, 'c': c} for d, c in pairs]})
    if not ok or 'fatal' in res:
        ctx.broken.append({'kind': 'harness', 'name': 'config_ops driver', 'detail': str(res)}); return
    items, idx = [], []
    for (d, c), o in zip(pairs, res['results']):
        if o['r'] == 'internal':
            internal_violation(ctx, {'combine_into': [d, c]}, o, 'combine_into')
        items.append('(%s, %s, %s)' % (ctree(d), ckvs(c), 'OTree %s' % cflat(o['v']) if o['r'] == 'ok' else 'ORefused'))
    bad = coq_check(ctx, 'merge', 'merge_ok', items)
    if bad is not None:
        clash = sum(1 for d, c in pairs if any(isinstance(d.get(k), dict) != isinstance(c.get(k), dict) for k in d if k in c))
        ctx.add_corr('K-merge', n, len({json.dumps(p) for p in pairs if set(p[0]) & set(p[1])}),
                     [{'d': pairs[i][0], 'c': pairs[i][1], 'impl': res['results'][i]} for i in bad],
                     [{'d': pairs[0][0], 'c': pairs[0][1]}], {'scalar_mapping_clashes': clash},
                     'random tree pairs over 5 keys, depth<=4, scalar/list/mapping leaves; real combine_into vs model; '
                     'non-trivial = the two trees share a top-level key')
    # ---- K-options
    n = ctx.n(300, 3000)
    cases = []
    for _ in range(n):
        opts = []
        for _ in range(r.randint(1, 5)):
            keys = [r.choice(KEYS) for _ in range(r.randint(1, 3))]
            v = r.choice(['v', '1', '', '[a,b]', '[]', '[', ']', '[x', 'a=b', 'a.b', '[p, q]', '[[n]]', 'a,b', 'A small, fast library', 'h,pp', ',', 'x, [y]', ' [a] '])
            x = r.random()
            if x < 0.06:
                opts.append('.'.join(keys))            # malformed: no '='
            elif x < 0.1:
                opts.append('=' + v)                   # empty key
            elif x < 0.14:
                opts.append('.'.join(keys) + '.=' + v)  # empty last segment
            else:
                opts.append('.'.join(keys) + '=' + v)
        cases.append(opts)
    ok, res = run_impl('config_ops', {'cases': [{'k': 'options', 'opts': o} for o in cases]})
    if not ok:
        ctx.broken.append({'kind': 'harness', 'name': 'config_ops driver', 'detail': str(res)}); return
    items = []
    for opts, o in zip(cases, res['results']):
        if o['r'] == 'internal':
            internal_violation(ctx, {'options': opts}, o, 'parse_option')
        elif o['r'] == 'app' and o['exc']['code'] != 141:
            ctx.add_violation({'kind': 'wrong-code', 'where': 'parse_option', 'code': o['exc']['code']}, 'malformed -o refused with %s' % o['exc']['code'], {'options': opts})
        items.append('(%s, %s)' % (cstrs(opts), 'OTree %s' % cflat(o['v']) if o['r'] == 'ok' else 'ORefused'))
    bad = coq_check(ctx, 'options', 'opts_ok', items)
    if bad is not None:
        ctx.add_corr('K-options', n, len({tuple(c) for c in cases if len(c) >= 2}),
                     [{'opts': cases[i], 'impl': res['results'][i]} for i in bad], [{'opts': cases[0]}],
                     {'malformed': sum(1 for c in cases if any('=' not in o for o in c))},
                     'lists of 1-5 -o strings (nested keys, list values, "=" and "." inside values, empty keys, no "="); '
                     'real parse_option+combine_into fold vs model; non-trivial = at least two options')
    # ---- K-configure: sources
    n = ctx.n(120, 1000)
    cfg_cases, meta = [], []
    for i in range(n):
        s = settings(r)
        fmt = r.choice(['yaml', 'yml', 'json', 'toml'])
        file_t, opt_t, o_l, env = split_sources(r, s)
        has_file = bool(file_t) or r.random() < 0.5
        cfg_cases.append({'k': 'configure', 'fmt': fmt, 'file': file_t if has_file else None, 'options': opt_t, 'opts': o_l, 'env': env})
        cfg_cases.append({'k': 'configure', 'fmt': 'json', 'file': None, 'options': s, 'opts': [], 'env': {}})   # reference: one dict
        meta.append((s, file_t if has_file else None, opt_t, o_l, env, fmt))
    ok, res = run_impl('config_ops', {'cases': cfg_cases}, timeout=1200)
    if not ok:
        ctx.broken.append({'kind': 'harness', 'name': 'config_ops driver', 'detail': str(res)}); return
    items, keep = [], []
    dist = {'fmt': {}, 'with_env': 0, 'with_o': 0, 'with_options': 0, 'refused': 0}
    for i, (s, file_t, opt_t, o_l, env, fmt) in enumerate(meta):
        o, ref = res['results'][2 * i], res['results'][2 * i + 1]
        dist['fmt'][fmt] = dist['fmt'].get(fmt, 0) + 1
        dist['with_env'] += bool(env); dist['with_o'] += bool(o_l); dist['with_options'] += bool(opt_t)
        case = {'settings': s, 'file': file_t, 'fmt': fmt, 'options': opt_t, 'o': o_l, 'env': env}
        for which, x in (('sources', o), ('single-dict', ref)):
            if x['r'] == 'internal':
                internal_violation(ctx, case, x, 'configure')
        if o['r'] == 'ok' and ref['r'] == 'ok':
            if o['v']['config'] != ref['v']['config']:
                ctx.add_violation({'kind': 'sources-differ', 'env': bool(env)},
                                  'the same settings spread over file/options/-o/env give a different effective configuration than one dict',
                                  dict(case, observed=o['v']['config'], expected=ref['v']['config']))
            items.append('(%s, %s, %s, OTree %s)' % (ckvs(file_t or {}), ckvs(opt_t), cstrs(o_l), cflat(o['v']['tree'])))
            keep.append(case)
        elif o['r'] != ref['r']:
            dist['refused'] += 1
            env_only = bool(env) and file_t is None and not opt_t and not o_l
            ctx.add_violation({'kind': 'sources-differ-acceptance', 'env_only': env_only},
                              'settings accepted as one dict are %s when spread over sources' % o['r'], dict(case, observed=o))
    bad = coq_check(ctx, 'configure', 'conf_ok', items)
    if bad is not None:
        ctx.add_corr('K-configure', len(items), len({json.dumps(k, sort_keys=True) for k in keep if k['o'] or k['options']}),
                     [keep[i] for i in bad], keep[:1], dist,
                     'valid settings over the real schema, leaves distributed over file (yaml/yml/json/toml) / options dict / -o '
                     'strings / PYDJINNI__ environment, with stale shadowed values in lower-priority sources; the tree handed to '
                     'validation is compared with the model, the validated configuration with the single-dict reference')
    # ---- K-configure-seq: configure() is a function of (file, options): several calls on the same file in one process
    n = ctx.n(30, 250)
    seq_cases, smeta = [], []
    for i in range(n):
        s = settings(r)
        fmt = r.choice(['yaml', 'json', 'toml'])
        steps = []
        for _ in range(r.randint(2, 4)):
            if r.random() < 0.35:
                steps.append(None)
            else:
                steps.append(split_sources(r, settings(r))[1] or None)
        if all(x is None for x in steps):
            steps[0] = split_sources(r, settings(r))[1] or {'generate': {'cpp': {'out': 'elsewhere'}}}
        seq_cases.append({'k': 'configure_seq', 'fmt': fmt, 'file': s, 'steps': steps, 'shared_api': i % 2 == 0})
        for st in steps:
            seq_cases.append({'k': 'configure', 'fmt': fmt, 'file': s, 'options': st or {}, 'opts': [], 'env': {}})   # the call on its own, fresh process state
        smeta.append((s, fmt, steps))
    ok, res = run_impl('config_ops', {'cases': seq_cases}, timeout=1200)
    if not ok:
        ctx.broken.append({'kind': 'harness', 'name': 'config_ops driver (sequences)', 'detail': str(res)}); return
    items, keep, pos = [], [], 0
    sdist = {'sequences': len(smeta), 'calls': 0, 'file_only_calls': 0, 'shared_api': sum(1 for c in seq_cases if c.get('shared_api'))}
    for (s, fmt, steps) in smeta:
        seq = res['results'][pos]; singles = res['results'][pos + 1: pos + 1 + len(steps)]; pos += 1 + len(steps)
        if seq.get('r') != 'seq':
            ctx.broken.append({'kind': 'harness', 'name': 'config_ops configure_seq', 'detail': json.dumps(seq)[:600]}); return
        for k_, (st, a, b) in enumerate(zip(steps, seq['steps'], singles)):
            sdist['calls'] += 1; sdist['file_only_calls'] += st is None
            case = {'file': s, 'fmt': fmt, 'calls_so_far': steps[:k_ + 1], 'shared_api': None}
            if a['r'] == 'internal':
                internal_violation(ctx, case, a, 'configure'); continue
            if a['r'] != b['r'] or (a['r'] == 'ok' and a['v']['config'] != b['v']['config']):
                ctx.add_violation({'kind': 'configure-depends-on-earlier-calls', 'file_only': st is None},
                                  'call %d on the same file gives a different configuration than the same call on its own (earlier overrides leak or '
                                  'the result is cached)' % (k_ + 1), dict(case, observed=a.get('v', a), expected=b.get('v', b)))
            if a['r'] == 'ok' and a['v'].get('tree') is not None:
                items.append('(%s, %s, (@nil string), OTree %s)' % (ckvs(s), ckvs(st or {}), cflat(a['v']['tree'])))
                keep.append(case)
    bad = coq_check(ctx, 'configure_seq', 'conf_ok', items)
    if bad is not None:
        ctx.add_corr('K-configure-seq', len(items), len(smeta), [keep[i] for i in bad], keep[:1], sdist,
                     '2-4 configure() calls on ONE configuration file in one process (alternately on one API object and on fresh ones), with and '
                     'without option overrides: the tree handed to validation is compared with the model for every call, the validated configuration '
                     'with the same call made on its own')
    # ---- corruptions: must be refused with 141 naming the key (oracle only)
    n = ctx.n(80, 600)
    cor, cmeta = [], []
    for _ in range(n):
        s = settings(r)
        gen = s['generate']
        g = r.choice([k for k in gen if isinstance(gen[k], dict)])
        kind = r.choice(['unknown_key', 'unknown_section', 'list_for_path', 'bad_style', 'missing_required', 'dict_for_scalar',
                         'raw_yaml', 'raw_json', 'raw_toml', 'toplevel_list', 'empty_file', 'dir', 'missing', 'bad_ext'])
        c = {'k': 'configure', 'fmt': 'yaml', 'file': None, 'options': {}, 'opts': [], 'env': {}}
        key = None
        if kind == 'unknown_key':
            gen[g]['bogus_key'] = 'x'; key = 'generate.%s.bogus_key' % g; c['file'] = s
        elif kind == 'unknown_section':
            s['generat'] = {'x': '1'}; key = 'generat'; c['file'] = s
        elif kind == 'list_for_path':
            gen[g]['out'] = ['a', 'b']; key = 'generate.%s.out' % g; c['file'] = s
        elif kind == 'bad_style':
            gen['cpp'] = dict(FULL['cpp'], identifier={'type': 'Weird-Case'}); key = 'generate.cpp.identifier.type'; c['file'] = s
        elif kind == 'missing_required':
            gen['java'] = {'out': 'o'}; key = 'generate.java.package'; c['options'] = s
        elif kind == 'dict_for_scalar':
            gen['cpp'] = dict(FULL['cpp'], header_extension={'a': 'b'}); key = 'generate.cpp.header_extension'; c['file'] = s
            c['fmt'] = r.choice(['json', 'toml', 'yaml'])
        elif kind == 'raw_yaml':
            c['raw_file'] = 'generate: [unclosed\n  cpp: {out: x\n'; c['fmt'] = 'yaml'
        elif kind == 'raw_json':
            c['raw_file'] = '{"generate": {"cpp": {"out": "x"}'; c['fmt'] = 'json'
        elif kind == 'raw_toml':
            c['raw_file'] = '[generate.cpp\nout = "x"\n'; c['fmt'] = 'toml'
        elif kind == 'toplevel_list':
            c['raw_file'] = '- a\n- b\n'; c['options'] = s
        elif kind == 'empty_file':
            c['raw_file'] = ''; c['options'] = s; kind = 'empty_file_ok'
        elif kind == 'dir':
            c['dir_as_file'] = True
        elif kind == 'missing':
            c['fmt'] = 'yaml'; c['raw_file'] = None; c['file'] = None; c['missing'] = True
        elif kind == 'bad_ext':
            c['fmt'] = 'ini'; c['raw_file'] = 'x=1'
        cor.append(c); cmeta.append((kind, key))
    ok, res = run_impl('config_ops', {'cases': [c for c in cor if not c.get('missing')]}, timeout=1200)
    if ok:
        it = iter(res['results'])
        kinds = {}
        for c, (kind, key) in zip(cor, cmeta):
            if c.get('missing'):
                continue
            o = next(it)
            kinds[kind] = kinds.get(kind, 0) + 1
            if o['r'] == 'internal':
                internal_violation(ctx, c, o, 'configure(%s)' % kind)
            elif kind == 'empty_file_ok':
                if o['r'] != 'ok':
                    ctx.add_violation({'kind': 'empty-file-refused'}, 'empty file + valid options refused', {'case': c, 'observed': o})
            elif o['r'] == 'ok':
                ctx.add_violation({'kind': 'invalid-config-accepted', 'corruption': kind},
                                  'configuration with %s (%s) was accepted silently' % (kind, key), {'case': c, 'key': key})
            elif o['exc']['code'] != 141:
                ctx.add_violation({'kind': 'wrong-code', 'corruption': kind, 'code': o['exc']['code']},
                                  '%s refused with code %s' % (kind, o['exc']['code']), {'case': c, 'observed': o})
            elif key and key not in o['exc']['desc']:
                ctx.add_violation({'kind': 'key-not-named', 'corruption': kind},
                                  'diagnostic for %s does not name %s: %s' % (kind, key, o['exc']['desc']), {'case': c, 'observed': o})
        ctx.extra_cov['corruptions'] = kinds
    else:
        ctx.broken.append({'kind': 'harness', 'name': 'config_ops driver (corruptions)', 'detail': str(res)})
    # ---- K-lattice: subsets of generator keys x requested targets
    gkeys = list(FULL)
    subsets = [list(c) for k in range(len(gkeys) + 1) for c in itertools.combinations(gkeys, k)]
    targets = ['cpp', 'cppcli', 'java', 'objc', 'yaml', 'nope']
    combos = [(s, t) for s in subsets for t in targets]
    exhaustive = ctx.thorough
    if not exhaustive:
        combos = r.sample(combos, 120)
    combos += [(None, 'cpp')]   # no generate section at all
    lcases = [{'k': 'lattice', 'full': FULL, 'keys': s or [], 'target': t, 'has_generate': s is not None} for s, t in combos]
    ok, res = run_impl('config_ops', {'cases': lcases}, timeout=2400)
    if not ok:
        ctx.broken.append({'kind': 'harness', 'name': 'config_ops driver', 'detail': str(res)}); return
    items, keep = [], []
    def to_out(o):
        if o['r'] == 'ok':
            return 'AOk'
        e = o['exc']
        if o['r'] == 'app' and e['code'] == 141:
            import re
            m = re.search(r"'([\w.]+)'", e['desc'])
            return 'AConfig %s' % cstr(m.group(1) if m else '?')
        if o['r'] == 'app' and e['code'] == 120:
            return 'AUnknownTarget'
        return None
    for c, o in zip(lcases, res['results']):
        if 'configure' in o:
            if c['keys'] == [] and c['has_generate'] and o['configure']['r'] == 'app':
                continue   # an empty generate section is refused by validation already ("provide a config")
            if o['configure']['r'] == 'internal':
                internal_violation(ctx, c, o['configure'], 'configure')
            continue
        po = to_out(o['parse'])
        if o['parse']['r'] == 'internal':
            internal_violation(ctx, {'keys': c['keys'], 'target': c['target']}, o['parse'], 'parse')
            continue
        go = None
        if 'generate' in o:
            if o['generate']['r'] == 'internal':
                e = o['generate']['exc']
                # the marshalling models of every other generator read <decl>.cpp.*; the yaml target dumps the models of all configured generators
                needs_cpp = 'cpp' not in c['keys'] and (c['target'] in ('java', 'objc', 'cppcli') or
                                                        (c['target'] == 'yaml' and any(k in c['keys'] for k in ('java', 'jni', 'objc', 'objcpp', 'cppcli'))))
                ctx.add_violation({'kind': 'internal-error', 'where': 'generate', 'cpp_generator_missing': needs_cpp},
                                  "generate('%s') with generators %s configured ended in %s: %s" % (c['target'], c['keys'], e.get('cls'), e.get('msg')),
                                  {'keys': c['keys'], 'target': c['target'], 'observed': o['generate']})
                go = None
            else:
                go = to_out(o['generate'])
        # oracle: the documented lattice (docs: a target needs all of its generators configured)
        SPEC = {'cpp': ['cpp'], 'cppcli': ['cppcli'], 'java': ['java', 'jni'], 'objc': ['objc', 'objcpp'], 'yaml': ['yaml']}
        if c['has_generate']:
            want_parse_ok = all(g in c['keys'] for t, gs in SPEC.items() if t in c['keys'] for g in gs)
            if (o['parse']['r'] == 'ok') != want_parse_ok:
                ctx.add_violation({'kind': 'lattice-parse', 'accepted': o['parse']['r'] == 'ok'},
                                  'parse() with generator sections %s was %s' % (c['keys'], 'accepted' if o['parse']['r'] == 'ok' else 'refused: ' + o['parse']['exc']['desc']),
                                  {'keys': c['keys'], 'observed': o['parse']})
            if 'generate' in o and o['generate']['r'] != 'internal':
                want = c['target'] in SPEC and all(g in c['keys'] for g in SPEC[c['target']])
                if (o['generate']['r'] == 'ok') != want:
                    ctx.add_violation({'kind': 'lattice-generate', 'accepted': o['generate']['r'] == 'ok'},
                                      "generate('%s') with generator sections %s was %s" % (c['target'], c['keys'], o['generate']['r']),
                                      {'keys': c['keys'], 'target': c['target'], 'observed': o['generate']})
        if po is None or (go is None and 'generate' in o and o['generate']['r'] != 'internal'):
            ctx.add_violation({'kind': 'wrong-diagnostic', 'where': 'lattice'}, 'unexpected diagnostic class: %s' % json.dumps(o)[:300], {'case': c})
            continue
        items.append('(%s, %s, %s, %s, %s)' % (cbool(c['has_generate']), cstrs(c['keys']), cstr(c['target']), '(%s)' % po, '(Some (%s))' % go if go else 'None'))
        keep.append((c, o))
    bad = coq_check(ctx, 'lattice', 'lat_ok', items)
    if bad is not None:
        ctx.add_corr('K-lattice', len(items), len(items), [{'keys': keep[i][0]['keys'], 'target': keep[i][0]['target'], 'impl': keep[i][1]} for i in bad],
                     [{'keys': keep[0][0]['keys'], 'target': keep[0][0]['target']}], {'exhaustive': exhaustive, 'subsets': len(subsets)},
                     'subsets of the 7 generator keys x {5 targets, unknown name} through configure/parse/generate '
                     '(%s)' % ('all 128x6' if exhaustive else '120 sampled; thorough tier enumerates all 128x6'))
    ctx.extra_cov['exhaustive'] = exhaustive
