"""Abstract IDL programs: generator (seeded, mostly valid by construction), printer with random layouts,
ground-truth walkers, and mutators.  Everything derives from the random.Random instance passed in."""
import copy

PRIMS = ['bool', 'i8', 'i16', 'i32', 'i64', 'f32', 'f64', 'string', 'binary', 'date']
COLLS = {'list': 1, 'set': 1, 'map': 2}
BUILTIN_KIND = {**{p: 'primitive' for p in PRIMS}, **{c: 'collection' for c in COLLS}}
KEYWORDS = {'namespace', 'enum', 'flags', 'static', 'const', 'main', 'interface', 'record', 'deriving', 'function',
            'property', 'async', 'error', 'throws'}
ALL_TARGETS = ['cpp', 'cppcli', 'java', 'objc', 'yaml']
NAME_POOL = ['foo', 'bar', 'baz', 'item', 'node', 'my_type', 'T1', 'Color', 'state', 'res_code', 'Evt', 'cfg', 'x1',
             'thing', 'other', 'val', 'shape', 'Kind', 'rec_a', 'rec_b', 'iface', 'cb', 'err', 'fn_t']
NS_POOL = ['a', 'b', 'c', 'ns1', 'inner', 'Outer', 'x_y', 'ns', 'ns10']
MEMBER_POOL = ['a', 'b', 'c', 'd', 'first', 'second', 'x', 'y', 'value', 'count', 'name_', 'is_ok', 'data', 'idx', 'k1',
               'on_event', 'do_it', 'get_v', 'm1', 'm2']


# ----------------------------------------------------------------------------- reference resolver (ground truth
def py_resolve(table, site_ns, spelling):
    """Lexical scoping reference: table is a dict dotted-key -> anything."""
    if spelling.startswith('.'):
        return table.get(spelling[1:])
    ns = list(site_ns)
    while True:
        k = '.'.join(ns + [spelling])
        if k in table:
            return table[k]
        if not ns:
            return None
        ns.pop()


# ----------------------------------------------------------------------------- generator
class Gen:
    def __init__(self, rng, max_decls=8, max_depth=3, p_comment=0.3, targets=None, allow_functions=True,
                 shadowing=0.5, multi_file=0.3, p_deprecated=0.15, default_deriving=(), acyclic=False):
        self.r = rng
        self.max_decls = max_decls
        self.max_depth = max_depth
        self.p_comment = p_comment
        self.p_deprecated = p_deprecated
        self.targets = targets or ALL_TARGETS
        self.allow_functions = allow_functions
        self.shadowing = shadowing
        self.multi_file = multi_file
        self.default_deriving = list(default_deriving)
        self.acyclic = acyclic      # user types only refer to declarations that come earlier in stub order (no recursive types)
        self.current = None

    # -- skeleton: namespaces + declaration stubs
    def skeleton(self):
        r = self.r
        stubs = []  # (ns tuple, name, kind)
        used = set(BUILTIN_KIND)  # dotted keys in use

        def fresh(ns, pool):
            for _ in range(50):
                n = r.choice(pool)
                if r.random() < 0.2:
                    n = n + str(r.randint(0, 9))
                k = '.'.join(list(ns) + [n])
                if k not in used and n not in KEYWORDS:
                    used.add(k)
                    return n
            n = 'u%d' % len(used)
            used.add('.'.join(list(ns) + [n]))
            return n

        budget = [r.randint(1, self.max_decls)]

        def items(ns, depth):
            out = []
            n_items = r.randint(1, 4) if depth else r.randint(1, 5)
            for _ in range(n_items):
                if budget[0] <= 0:
                    break
                if depth < self.max_depth and r.random() < 0.3:
                    segs = [r.choice(NS_POOL) for _ in range(1 if r.random() < 0.7 else 2)]
                    sub = items(tuple(list(ns) + segs), depth + 1)
                    out.append({'k': 'namespace', 'name': '.'.join(segs), 'comment': self.comment(False), 'items': sub})
                else:
                    kind = r.choice(['enum', 'flags', 'record', 'record', 'interface', 'interface', 'function', 'error']
                                    if self.allow_functions else ['enum', 'flags', 'record', 'record', 'interface', 'error'])
                    pool = NAME_POOL[:6] if r.random() < self.shadowing else NAME_POOL
                    name = fresh(ns, pool)
                    budget[0] -= 1
                    stub = {'k': kind, 'name': name, '_ns': list(ns)}
                    stubs.append(stub)
                    out.append(stub)
            return out

        top = items((), 0)
        if not stubs:
            stub = {'k': 'enum', 'name': fresh((), NAME_POOL), '_ns': []}
            stubs.append(stub)
            top.append(stub)
        return top, stubs

    def comment(self, allow_cmd=True):
        r = self.r
        if r.random() >= self.p_comment:
            return None
        words = ['some', 'text', 'about', 'this', 'thing', 'with `code`', '*emph*', 'x < y', 'a/b', 'don\'t', '100%']
        lines = [' '.join(r.choice(words) for _ in range(r.randint(1, 4))) for _ in range(r.randint(1, 3))]
        if allow_cmd and r.random() < self.p_deprecated:
            lines.append('@deprecated' + (' use other' if r.random() < 0.6 else ''))
        return lines

    # -- type references
    def spell(self, table, site_ns, tns, tname):
        cands = ['.' + '.'.join(tns + [tname])]
        for k in range(len(tns) + 1):
            s = '.'.join(tns[k:] + [tname])
            hit = py_resolve(table, site_ns, s)
            if hit is not None and hit[0] == tns and hit[1] == tname:
                cands.append(s)
        # prefer relative spellings
        if len(cands) > 1 and self.r.random() < 0.8:
            return self.r.choice(cands[1:])
        return self.r.choice(cands)

    def data_type(self, table, site_ns, allowed, depth=0, allow_opt=True, allow_coll=True):
        """allowed: set of kinds permitted at the top of this reference."""
        r = self.r
        kinds = []
        if 'primitive' in allowed:
            kinds += ['primitive'] * 4
        if 'collection' in allowed and allow_coll and depth < 3:
            kinds += ['collection'] * 2
        user = [v for v in table.values() if v[2] in allowed and v[2] not in ('primitive', 'collection')]
        if self.acyclic and self.current is not None:
            user = [v for v in user if self.order.get('.'.join(v[0] + [v[1]]), 10 ** 9) < self.current]
        if user:
            kinds += ['user'] * 4
        k = r.choice(kinds)
        opt = allow_opt and r.random() < 0.2
        if k == 'primitive':
            return {'k': 'data', 'name': r.choice(PRIMS), 'params': [], 'opt': opt}
        if k == 'collection':
            c = r.choice(list(COLLS))
            inner_allowed = {'primitive', 'collection', 'record', 'enum', 'flags'} if depth < 2 else {'primitive'}
            if c == 'map':
                key = self.data_type(table, site_ns, {'primitive', 'enum'}, depth + 1, False, False)
                ps = [key, self.data_type(table, site_ns, inner_allowed, depth + 1)]
            else:
                ps = [self.data_type(table, site_ns, inner_allowed, depth + 1, allow_opt=(c == 'list'))]
            return {'k': 'data', 'name': c, 'params': ps, 'opt': opt}
        tns, tname, tkind = r.choice(user)
        return {'k': 'data', 'name': self.spell(table, site_ns, tns, tname), 'params': [], 'opt': opt}

    def params(self, table, site_ns, lo=0, hi=3):
        r = self.r
        names = r.sample(MEMBER_POOL, r.randint(lo, hi))
        return [{'name': n, 'type': self.type_ref(table, site_ns, {'primitive', 'collection', 'record', 'enum', 'flags',
                                                                   'interface', 'function'})} for n in names]

    def throws(self, table, site_ns):
        r = self.r
        errs = [v for v in table.values() if v[2] == 'error']
        if self.acyclic and self.current is not None:
            errs = [v for v in errs if self.order.get('.'.join(v[0] + [v[1]]), 10 ** 9) < self.current]
        if r.random() < 0.6:
            return None
        if not errs or r.random() < 0.3:
            return []
        chosen = r.sample(errs, min(len(errs), r.randint(1, 2)))
        return [{'k': 'data', 'name': self.spell(table, site_ns, e[0], e[1]), 'params': [], 'opt': False} for e in chosen]

    def fn_type(self, table, site_ns, named=False):
        r = self.r
        with_kw = named or r.random() < 0.5
        targets = None
        if with_kw:
            targets = self.target_flags(allow_empty=True)
        return {'k': 'fn', 'targets': targets, 'params': self.params(table, site_ns, 0, 2),
                'throws': self.throws(table, site_ns),
                'ret': self.type_ref(table, site_ns, {'primitive', 'collection', 'record', 'enum'}, allow_fn=False)
                if r.random() < 0.6 else None}

    def type_ref(self, table, site_ns, allowed, allow_fn=True):
        if allow_fn and self.allow_functions and 'function' in allowed and self.r.random() < 0.08:
            return self.fn_type(table, site_ns)
        return self.data_type(table, site_ns, allowed)

    def target_flags(self, allow_empty=True):
        r = self.r
        x = r.random()
        if allow_empty and x < 0.4:
            return []
        if x < 0.6:
            return ['+' + r.choice(self.targets)]
        if x < 0.75:
            return ['-' + r.choice(self.targets)]
        if x < 0.8:
            return ['+any']
        n = r.randint(2, 3)
        return [r.choice('+-') + r.choice(self.targets) for _ in range(n)]

    # -- fill bodies
    def fill(self, stub, table):
        r = self.r
        ns = stub['_ns']
        k = stub['k']
        stub['comment'] = self.comment()
        if k == 'enum':
            names = r.sample(MEMBER_POOL, r.randint(0, 5))
            stub['items'] = [{'name': n, 'comment': self.comment()} for n in names]
        elif k == 'flags':
            names = r.sample(MEMBER_POOL, r.randint(0, 6))
            stub['flags'] = [{'name': n, 'comment': self.comment(),
                              'mod': r.choice([None, None, None, 'none', 'all'])} for n in names]
        elif k == 'record':
            deriving = r.choice(getattr(self, 'deriving_choices', None) or [None, None, [], ['eq'], ['ord'], ['eq', 'ord'], ['ord', 'eq'], ['eq', 'eq']])
            allowed = {'primitive', 'record', 'enum', 'flags', 'function'}
            if not ((deriving and 'ord' in deriving) or 'ord' in self.default_deriving):
                allowed |= {'collection'}
            names = r.sample(MEMBER_POOL, r.randint(0, 5))
            stub['fields'] = [{'name': n, 'comment': self.comment(),
                               'type': self.data_type(table, ns, allowed)} for n in names]
            stub['deriving'] = deriving
            stub['targets'] = self.target_flags()
        elif k == 'interface':
            tf = self.target_flags()
            cpp_only = tf == ['+cpp']
            stub['targets'] = tf
            stub['main'] = cpp_only and r.random() < 0.3
            members = []
            for n in r.sample(MEMBER_POOL, r.randint(0, 4)):
                if r.random() < 0.15:
                    members.append({'k': 'prop', 'name': n, 'comment': self.comment(),
                                    'type': self.type_ref(table, ns, {'primitive', 'record', 'enum', 'collection'})})
                else:
                    static = cpp_only and r.random() < 0.3
                    members.append({'k': 'method', 'name': n, 'comment': self.comment(), 'static': static,
                                    'const': (not static) and r.random() < 0.25, 'async': r.random() < 0.2,
                                    'params': self.params(table, ns), 'throws': self.throws(table, ns),
                                    'ret': self.type_ref(table, ns, {'primitive', 'collection', 'record', 'enum', 'flags',
                                                                     'interface'}, allow_fn=False)
                                    if r.random() < 0.6 else None})
            stub['members'] = members
        elif k == 'function':
            stub['fn'] = self.fn_type(table, ns, named=True)
        elif k == 'error':
            codes = []
            for n in r.sample(MEMBER_POOL, r.randint(0, 4)):
                ps = None
                if r.random() < 0.5:
                    ps = [{'name': m, 'type': self.data_type(table, ns, {'primitive', 'record', 'enum'})}
                          for m in r.sample(MEMBER_POOL, r.randint(0, 3))]
                codes.append({'name': n, 'comment': self.comment(), 'params': ps})
            stub['codes'] = codes

    def program(self):
        import os
        r = self.r
        top, stubs = self.skeleton()
        full = {b: ([], b, BUILTIN_KIND[b]) for b in BUILTIN_KIND}
        for s in stubs:
            full['.'.join(s['_ns'] + [s['name']])] = (s['_ns'], s['name'], s['k'])
        self.order = {'.'.join(s['_ns'] + [s['name']]): i for i, s in enumerate(stubs)}
        root = 'main.pydjinni'
        files = {root: {'loads': [], 'items': top}}
        owner = {id(x): root for x in top}
        parent = {}
        # split: move some top-level items into imported files (a tree of imports)
        if len(top) >= 2 and r.random() < self.multi_file:
            n_files = r.randint(1, min(3, len(top) - 1))
            paths = [r.choice(['', 'sub/', 'inc/']) + 'lib%d.pydjinni' % i for i in range(n_files)]
            keep = list(top)
            r.shuffle(keep)
            for p in paths:
                owner[id(keep.pop())] = p
            while len(keep) > 1 and r.random() < 0.4:
                owner[id(keep.pop())] = r.choice(paths)
            files[root]['items'] = [x for x in top if owner[id(x)] == root]
            for i, p in enumerate(paths):
                par = root if i == 0 or r.random() < 0.5 else r.choice(paths[:i])
                parent[p] = par
                files[p] = {'loads': [], 'items': [x for x in top if owner[id(x)] == p]}
            for p, par in parent.items():
                # spelled relative to the importing file's directory (found by the 2nd search candidate)
                rel = os.path.relpath(p, os.path.dirname(par) or '.')
                files[par]['loads'].append({'k': 'import', 'path': rel})
        # a file sees its own declarations and those of its transitive imports
        def closure(p):
            out = {p}
            for q, par in parent.items():
                if par == p:
                    out |= closure(q)
            return out
        for p, f in files.items():
            vis_files = closure(p)
            vis_ids = set()
            for q in vis_files:
                for d, _ in walk_items(files[q]['items']):
                    vis_ids.add(id(d))
            table = View(full, {k for k, v in full.items() if v[2] in ('primitive', 'collection')} |
                         {'.'.join(s['_ns'] + [s['name']]) for s in stubs if id(s) in vis_ids})
            for d, _ in walk_items(f['items']):
                self.current = self.order.get('.'.join(d['_ns'] + [d['name']]))
                self.fill(d, table)
        self.current = None
        return {'files': files, 'root': root}


class View(dict):
    """Full declaration table (used to judge spellings) with a visible subset (candidate targets)."""
    def __init__(self, full, visible):
        super().__init__(full)
        self.visible = visible
    def values(self):
        return [v for k, v in self.items() if k in self.visible]


# ----------------------------------------------------------------------------- printer
WORDY = set('abcdefghijklmnopqrstuvwxyzABCDEFGHIJKLMNOPQRSTUVWXYZ0123456789_.+-@"')


class Layout:
    """Token stream -> text.  mode 'canon': single spaces, one declaration per line.  mode 'random': any
    whitespace between tokens, nothing where the lexer allows adjacency."""
    def __init__(self, rng=None, mode='canon'):
        self.r = rng
        self.mode = mode
        self.out = []
        self.need_nl = False
        self.nl = 0          # newlines emitted so far

    def ws(self, required):
        if self.mode == 'canon' or self.r is None:
            return ' '
        x = self.r.random()
        if not required and x < 0.35:
            return ''
        return self.r.choice([' ', ' ', '  ', '\n', '\n  ', '\t', ' \n', '\r\n'])

    def tok(self, t):
        prev = self.out[-1] if self.out else ''
        if self.need_nl:
            self.out.append('\n' + ('' if self.mode == 'canon' or self.r is None else self.r.choice(['', ' ', '\t', '\n'])))
            self.need_nl = False
            self.nl += self.out[-1].count('\n')
        elif prev:
            required = prev[-1] in WORDY and t[0] in WORDY
            # '-' followed by '>' would lex as ARROW; '+x'/'-x' followed by letters extends the TARGET token
            if prev[-1] == '-' and t[0] == '>':
                required = True
            self.out.append(self.ws(required))
            self.nl += self.out[-1].count('\n')
        self.out.append(t)
        return self.nl + 1   # line of this token

    def comment(self, lines):
        if not lines:
            return
        for ln in lines:
            pad = '' if self.mode == 'canon' or self.r is None else self.r.choice(['', ' ', '  '])
            self.tok('#' + pad + ln if self.mode != 'canon' else '# ' + ln)
            self.need_nl = True

    def newline_hint(self):
        if self.mode == 'canon':
            self.need_nl = True

    def text(self):
        return ''.join(self.out) + '\n'


def p_type(L, t):
    if t['k'] == 'fn':
        p_fn(L, t)
        return
    L.tok(t['name'])
    if t['params']:
        L.tok('<')
        for i, p in enumerate(t['params']):
            if i:
                L.tok(',')
            p_type(L, p)
        L.tok('>')
    if t['opt']:
        L.tok('?')


def p_params(L, ps, sep=','):
    L.tok('(')
    for i, p in enumerate(ps):
        if i and sep:
            L.tok(sep)
        L.tok(p['name'])
        L.tok(':')
        p_type(L, p['type'])
    L.tok(')')


def p_throws(L, th):
    if th is None:
        return
    L.tok('throws')
    for i, t in enumerate(th):
        if i:
            L.tok(',')
        p_type(L, t)


def p_fn(L, f):
    if f['targets'] is not None:
        L.tok('function')
        for t in f['targets']:
            L.tok(t)
    p_params(L, f['params'])
    p_throws(L, f['throws'])
    if f['ret'] is not None:
        L.tok('->')
        p_type(L, f['ret'])


def p_item(L, d):
    k = d['k']
    L.comment(d.get('comment'))
    if k == 'namespace':
        L.tok('namespace'); L.tok(d['name']); L.tok('{'); L.newline_hint()
        for it in d['items']:
            p_item(L, it)
        L.tok('}'); L.newline_hint()
        return
    d['_line'] = L.tok(d['name']); L.tok('=')
    if k == 'enum':
        L.tok('enum'); L.tok('{')
        for it in d['items']:
            L.comment(it.get('comment'))
            L.tok(it['name']); L.tok(';')
        L.tok('}')
    elif k == 'flags':
        L.tok('flags'); L.tok('{')
        for it in d['flags']:
            L.comment(it.get('comment'))
            L.tok(it['name'])
            if it['mod'] is not None:
                L.tok('='); L.tok(it['mod'])
            L.tok(';')
        L.tok('}')
    elif k == 'record':
        L.tok('record')
        for t in d['targets']:
            L.tok(t)
        L.tok('{')
        for f in d['fields']:
            L.comment(f.get('comment'))
            L.tok(f['name']); L.tok(':'); p_type(L, f['type']); L.tok(';')
        L.tok('}')
        if d['deriving'] is not None:
            L.tok('deriving'); L.tok('(')
            for i, x in enumerate(d['deriving']):
                if i:
                    L.tok(',')
                L.tok(x)
            L.tok(')')
    elif k == 'interface':
        if d['main']:
            L.tok('main')
        L.tok('interface')
        for t in d['targets']:
            L.tok(t)
        L.tok('{')
        for m in d['members']:
            L.comment(m.get('comment'))
            if m['k'] == 'prop':
                L.tok('property'); L.tok(m['name']); L.tok(':'); p_type(L, m['type']); L.tok(';')
            else:
                if m['static']:
                    L.tok('static')
                if m['const']:
                    L.tok('const')
                if m['async']:
                    L.tok('async')
                L.tok(m['name'])
                p_params(L, m['params'])
                p_throws(L, m['throws'])
                if m['ret'] is not None:
                    L.tok('->'); p_type(L, m['ret'])
                L.tok(';')
        L.tok('}')
    elif k == 'function':
        p_fn(L, d['fn']); L.tok(';')
    elif k == 'error':
        L.tok('error'); L.tok('{')
        for c in d['codes']:
            L.comment(c.get('comment'))
            L.tok(c['name'])
            if c['params'] is not None:
                p_params(L, c['params'], sep=None)
            L.tok(';')
        L.tok('}')
    L.newline_hint()


def print_file(f, rng=None, mode='canon'):
    L = Layout(rng, mode)
    for ld in f['loads']:
        L.tok('@import' if ld['k'] == 'import' else '@extern')
        L.tok('"' + ld['path'] + '"')
        L.newline_hint()
    for it in f['items']:
        p_item(L, it)
    return L.text()


def print_program(prog, rng=None, mode='canon'):
    return {p: print_file(f, rng, mode) for p, f in prog['files'].items()}


# ----------------------------------------------------------------------------- ground truth walkers
def walk_items(items, ns=()):
    """Yield (decl, ns list) for every declaration stub in source order (namespaces flattened)."""
    for it in items:
        if it['k'] == 'namespace':
            yield from walk_items(it['items'], tuple(list(ns) + it['name'].split('.')))
        else:
            yield it, list(ns)


def type_refs_of(t, out):
    """Data type references in the order visitDataType appends them to type_refs (post-order)."""
    if t is None:
        return
    if t['k'] == 'fn':
        # visitFunction: return type first, then parameters, then throwing
        type_refs_of(t['ret'], out)
        for p in t['params']:
            type_refs_of(p['type'], out)
        for th in (t['throws'] or []):
            type_refs_of(th, out)
        return
    for p in t['params']:
        type_refs_of(p, out)
    out.append(t)


def decl_refs(d):
    out = []
    k = d['k']
    if k == 'record':
        for f in d['fields']:
            type_refs_of(f['type'], out)
    elif k == 'interface':
        for m in d['members']:
            if m['k'] == 'method':
                for p in m['params']:
                    type_refs_of(p['type'], out)
                type_refs_of(m['ret'], out)
                for th in (m['throws'] or []):
                    type_refs_of(th, out)
        for m in d['members']:
            if m['k'] == 'prop':
                type_refs_of(m['type'], out)
    elif k == 'function':
        type_refs_of(d['fn'], out)
    elif k == 'error':
        for c in d['codes']:
            for p in (c['params'] or []):
                type_refs_of(p['type'], out)
    return out


def strip_private(x):
    if isinstance(x, dict):
        return {k: strip_private(v) for k, v in x.items() if not k.startswith('_')}
    if isinstance(x, list):
        return [strip_private(v) for v in x]
    return x
