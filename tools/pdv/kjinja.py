"""K-jinja: sliced template fragments rendered by Jinja itself on the real marshalling objects vs the TIR interpreter
(coq/Jinja/Interp.v) on the translated template (coq/Gen/Templates.v) and the dumped environment."""
import json, re
from . import coqtool
from .common import run_impl
from .emit import *

PRE = '''From Coq Require Import List String Ascii ZArith Bool.
From PDV Require Import Lib.StrUtil Jinja.Tir Jinja.Inline Jinja.Interp Jinja.Slice Gen.Templates.
Import ListNotations. Open Scope string_scope. Open Scope list_scope.
Definition render_m (g : gencfg) (attr : string) (k : option nat) (t base : list stmt) (env : list (string * val)) (counter : Z) : string :=
  match (match k with Some i => nth_for attr i t | None => if String.eqb (substring 0 3 attr) "if:" then find_if_tag (substring 3 (String.length attr) attr) t else find_for_in attr t end) with
  | Some f => snd (execs g (inline 4 (macros_of base ++ macros_of t) [f]) (mkst (("counter", VNs "counter") :: env) [("counter", [("value", VInt counter)])]))
  | None => "<fragment not found>"
  end.
Definition render (g : gencfg) (attr : string) (k : option nat) (t : list stmt) (env : list (string * val)) (counter : Z) : string :=
  match (match k with Some i => nth_for attr i t | None => if String.eqb (substring 0 3 attr) "if:" then find_if_tag (substring 3 (String.length attr) attr) t else find_for_in attr t end) with
  | Some f => snd (exec g f (mkst (("counter", VNs "counter") :: env) [("counter", [("value", VInt counter)])]))
  | None => "<fragment not found>"
  end.
Fixpoint bad_idx (i : nat) (cs : list (string * string)) : list nat :=
  match cs with [] => [] | c :: t => if String.eqb (fst c) (snd c) then bad_idx (S i) t else i :: bad_idx (S i) t end.
'''


def cval(v):
    if isinstance(v, dict):
        if '__undef__' in v or '__error__' in v:
            return 'VUndef'
        return 'VObj %s' % clist(['(%s, %s)' % (cstr(k), cval(x)) for k, x in v.items()])
    if isinstance(v, list):
        return 'VList %s' % clist([cval(x) for x in v])
    if isinstance(v, bool):
        return 'VBool %s' % cbool(v)
    if v is None:
        return 'VNone'
    if isinstance(v, int):
        return 'VInt (%d)%%Z' % v
    return 'VStr %s' % cstr(str(v))


def tname(gen, rel):
    return 't_' + re.sub(r'[^A-Za-z0-9]', '_', gen + '_' + rel)


def run(ctx, name, cases, shard=150):
    """cases: dicts for impl/jinja_frag.py. Returns (mismatches, renders) where renders is a flat list of dicts
    {fragment, decl, text, env, case}."""
    ok, res = run_impl('jinja_frag', {'cases': cases}, timeout=1800)
    if not ok:
        ctx.broken.append({'kind': 'harness', 'name': 'jinja_frag driver', 'detail': str(res)[-1500:]})
        return None, None
    flat, pairs = [], []
    for c, o in zip(cases, res['results']):
        if o['outcome'] != 'ok':
            ctx.broken.append({'kind': 'harness', 'name': 'jinja_frag case', 'detail': o.get('msg', '')[-800:]})
            continue
        for fo in o['fragments']:
            fr = fo['fragment']
            cm = fo['comment']
            g = '(mkgencfg %s %s %s)' % (copt(cm['start'], cstr), copt(cm['end'], cstr), cstr(cm['prefix']))
            for rd in fo['renders']:
                rec = {'fragment': fr, 'decl': rd['decl'], 'text': rd.get('text'), 'error': rd.get('error'), 'env': rd['env'], 'files': c['files']}
                flat.append(rec)
                if rd.get('text') is None:
                    continue
                env = clist(['(%s, %s)' % (cstr(k), cval(v)) for k, v in rd['env'].items()])
                sel = cstr('if:' + fr['if_tag'] if 'if_tag' in fr else fr['attr'])
                if fr.get('macros'):
                    pairs.append(('(render_m %s %s %s %s %s %s (%d)%%Z, %s)' % (g, sel, copt(fr.get('index'), cnat), tname(fr['gen'], fr['template']),
                                                                                tname(fr['gen'], 'base.jinja2'), env, fr.get('counter_init', 0), cstr(rd['text'])), rec))
                else:
                    pairs.append(('(render %s %s %s %s %s (%d)%%Z, %s)' % (g, sel, copt(fr.get('index'), cnat), tname(fr['gen'], fr['template']), env,
                                                                           fr.get('counter_init', 0), cstr(rd['text'])), rec))
    mism = []
    for s in range(0, len(pairs), shard):
        body = PRE + 'Definition cases := %s.\nEval vm_compute in (bad_idx 0 cases).\n' % clist([p for p, _ in pairs[s:s + shard]])
        rc, out, err = coqtool.run_cases('kjinja_' + name, body)
        bad = coqtool.parse_nat_list(out) if rc == 0 else None
        if bad is None:
            ctx.broken.append({'kind': 'correspondence', 'name': 'K-jinja/%s (coqc failed)' % name, 'detail': (err + out)[-1500:]})
            return None, flat
        mism += [pairs[s + i][1] for i in bad]
    return mism, flat
