"""./check <id> quick|thorough — decide one property: regenerate Gen/, build the Coq development, compile
Props/<id>.v, run the property's correspondence(s) against /repo's working tree, search for a failing input
when a proof or correspondence broke, match known findings, write evidence, print VIOLATION lines."""
import importlib, json, os, random, sys, time, traceback
from pathlib import Path
from . import coqtool
from .common import VERIF, REPO, load_known_findings, sig_matches, write_replay


class Ctx:
    def __init__(self, pid, tier, seed):
        self.pid, self.tier, self.seed = pid, tier, seed
        self.rng = random.Random((seed * 1000003) ^ hash_str(pid))
        self.log = []
        self.corr = []          # correspondences: dict(name, cases, nontrivial, mismatches, samples, dist)
        self.violations = []    # concrete failing inputs of the property on the implementation
        self.broken = []        # things that no longer check (theorem / Gen file / correspondence), with detail
        self.notes = []
        self.proof = None
        self.build = None
        self.extra_cov = {}

    @property
    def thorough(self):
        return self.tier == 'thorough'

    def n(self, quick, thorough):
        return thorough if self.thorough else quick

    def add_corr(self, name, cases, nontrivial, mismatches, samples, dist=None, rule=''):
        self.corr.append({'name': name, 'cases': cases, 'nontrivial': nontrivial, 'mismatches': mismatches,
                          'samples': samples[:3], 'distribution': dist or {}, 'rule': rule})
        self.log.append('correspondence %s: %d cases, %d non-trivial, %d mismatches' % (name, cases, nontrivial, len(mismatches)))
        if mismatches:
            self.broken.append({'kind': 'correspondence', 'name': name, 'count': len(mismatches),
                                'first': mismatches[:3]})

    def add_violation(self, sig, what, replay):
        """A concrete input/history on which the real implementation fails the property (judged by the oracle)."""
        key = json.dumps(sig, sort_keys=True)
        for v in self.violations:
            if v['key'] == key:
                v['count'] += 1
                return
        self.violations.append({'key': key, 'sig': sig, 'what': what, 'replay': replay, 'count': 1})


def hash_str(s):
    h = 0
    for c in s:
        h = (h * 131 + ord(c)) & 0xffffffff
    return h


def run(pid, tier, seed):
    t0 = time.time()
    ctx = Ctx(pid, tier, seed)
    mod = importlib.import_module('pdv.props.' + pid.lower())
    with coqtool.Lock():
        ctx.build = coqtool.build(ctx.log)
        forbidden = coqtool.forbidden_scan()
        ctx.proof = coqtool.check_props(pid, ctx.log)
        if forbidden:
            ctx.proof['ok'] = False
            ctx.proof['error'] = 'forbidden constructs: ' + '; '.join(forbidden[:10])
        if tier == 'thorough' and ctx.proof.get('ok'):
            # independent re-check of the compiled property file and everything it depends on, and its axiom summary
            import subprocess, re as _re
            try:
                p_ = subprocess.run(['timeout', '1500', 'coqchk', '-silent', '-o', '-R', '.', 'PDV', 'PDV.Props.%s' % pid], cwd=str(VERIF / 'coq'),
                                    capture_output=True, text=True)
                out_ = p_.stdout + p_.stderr
                m_ = _re.search(r'\* Axioms:\s*(.*?)\n\s*\n', out_, flags=_re.S)
                ctx.extra_cov['coqchk'] = {'exit': p_.returncode, 'axioms': (m_.group(1).strip() if m_ else 'not reported')[:600]}
                ctx.log.append('coqchk Props/%s: exit %d, axioms: %s' % (pid, p_.returncode, ctx.extra_cov['coqchk']['axioms'][:80]))
                if p_.returncode != 0:
                    ctx.broken.append({'kind': 'proof', 'name': 'coqchk PDV.Props.%s' % pid, 'detail': out_[-1500:]})
            except Exception as e_:  # noqa
                ctx.broken.append({'kind': 'harness', 'name': 'coqchk', 'detail': str(e_)[:500]})
        for t, st in ctx.build['translators'].items():
            if not st['ok']:
                ctx.broken.append({'kind': 'translator', 'name': t, 'detail': st['msg'][-1500:]})
        if not ctx.proof['ok']:
            ctx.broken.append({'kind': 'proof', 'name': 'Props/%s.v' % pid, 'detail': ctx.proof['error'][-2500:],
                               'build_errors': ctx.build.get('errors', {})})
        try:
            mod.run(ctx)
        except Exception:  # a harness failure must not look like a pass
            ctx.broken.append({'kind': 'harness', 'name': 'pdv.props.%s' % pid.lower(), 'detail': traceback.format_exc()[-3000:]})
    return finish(ctx, mod, t0)


def finish(ctx, mod, t0):
    pid = ctx.pid
    known = [k for k in load_known_findings() if k.get('property') == pid and k.get('status', 'open') == 'open']
    lines = []
    rc = 0
    reported_known = set()
    n_new = 0
    for v in ctx.violations:
        k = next((k for k in known if sig_matches(k['sig'], v['sig'])), None)
        if k is not None:
            if k['id'] not in reported_known:
                reported_known.add(k['id'])
                lines.append('KNOWN-FINDING: property=%s %s' % (pid, k['what']))
            continue
        n_new += 1
        path = write_replay(pid, {'property': pid, 'signature': v['sig'], 'what': v['what'], 'replay': v['replay'],
                                  'seed': ctx.seed, 'tier': ctx.tier, 'occurrences': v['count']})
        lines.append('VIOLATION property=%s replay=%s' % (pid, path))
        rc = 1
    # something no longer checks and no (new) concrete failing input explains it
    if ctx.broken and n_new == 0:
        # a break that is fully explained by known findings is still a break of the machinery: report it
        path = write_replay(pid, {'property': pid, 'no_longer_checks': ctx.broken, 'seed': ctx.seed, 'tier': ctx.tier,
                                  'note': 'no concrete failing input of the property was found by the search; '
                                          'the listed theorem / generated file / correspondence no longer checks'})
        lines.append('VIOLATION property=%s replay=%s no-failing-input-found' % (pid, path))
        rc = 1
    wall = time.time() - t0
    write_evidence(ctx, mod, wall, n_new + (1 if ctx.broken and n_new == 0 else 0), sorted(reported_known))
    for l in ctx.log:
        print('[pdv] ' + l)
    for n in ctx.notes:
        print('[pdv] note: ' + n)
    for l in lines:
        print(l)
    print('[pdv] %s %s: %s in %.1fs' % (pid, ctx.tier, 'PASS' if rc == 0 else 'FAIL', wall))
    return rc


def write_evidence(ctx, mod, wall, n_viol, known_reported):
    pr = ctx.proof or {}
    theorems = pr.get('theorems', [])
    ok = bool(pr.get('ok'))
    axioms = sorted({a for l in pr.get('assumptions', {}).values() for a in l})
    cases = sum(c['cases'] for c in ctx.corr)
    nontriv = sum(c['nontrivial'] for c in ctx.corr)
    samples = []
    for c in ctx.corr:
        for s in c['samples'][:2]:
            samples.append({'correspondence': c['name'], 'case': s})
    if not samples:
        samples = [{'theorem': t} for t in theorems[:3]] or [{'note': 'no cases'}]
    cov = {
        'obligations': max(1, len(theorems)),
        'discharged': len(theorems) if ok else 0,
        'checker_cmd': 'coqc -R coq PDV coq/Props/%s.v  (after: coq_makefile -f _CoqProject && make -k -j16 in /verif/coq)' % ctx.pid,
        'trusted_base': getattr(mod, 'TRUSTED', []) + [
            'Coq 8.16.1 kernel incl. vm_compute (no native_compute)',
            'axioms reported by Print Assumptions: ' + (', '.join(axioms) if axioms else 'none (Closed under the global context)'),
            'translators tools/pdv/translate_*.py (regenerate coq/Gen from /repo on every run)',
            'correspondence harness tools/pdv (generators, canonicalisation, Coq literal printer)'],
        'theorems': theorems,
        'examples': pr.get('examples', []),
        'assumptions_per_theorem': pr.get('assumptions', {}),
        'evaluations': max(1, cases),
        'distinct_nontrivial': max(2, nontriv) if cases else 2,
        'rule': '; '.join('%s: %s' % (c['name'], c['rule']) for c in ctx.corr if c['rule']) or 'see correspondences',
        'samples': samples,
        'traces_validated_against_impl': cases,
        'correspondences': [{k: c[k] for k in ('name', 'cases', 'nontrivial', 'distribution')} | {'mismatches': len(c['mismatches'])}
                            for c in ctx.corr],
        'build': {'files': len((ctx.build or {}).get('files', [])), 'failed': (ctx.build or {}).get('failed', []),
                  'wall_s': (ctx.build or {}).get('wall_s')},
        'known_findings_reported': known_reported,
        'no_longer_checks': [{'kind': b['kind'], 'name': b['name']} for b in ctx.broken],
    }
    cov.update(ctx.extra_cov)
    ev = {
        'property_id': ctx.pid, 'tier': ctx.tier, 'seed': ctx.seed, 'level': 'proof', 'coverage': cov,
        'assumptions': getattr(mod, 'ASSUMPTIONS', []),
        'wall_s': round(wall, 2), 'violations': n_viol,
    }
    d = VERIF / 'evidence'
    d.mkdir(exist_ok=True)
    (d / ('%s.json' % ctx.pid)).write_text(json.dumps(ev, indent=1, default=str))


def main(argv):
    if len(argv) < 2:
        print('usage: check <property-id> [quick|thorough]')
        return 2
    if argv[1] == 'setup':
        log = []
        with coqtool.Lock():
            b = coqtool.build(log)
        for l in log:
            print('[pdv] ' + l)
        for f, e in (b.get('errors') or {}).items():
            print('[pdv] build error: ' + e[:500])
        return 0 if b['ok'] else 1
    pid = argv[1].upper()
    tier = argv[2] if len(argv) > 2 else os.environ.get('VERIF_TIER', 'quick')
    seed = int(os.environ.get('VERIF_SEED', '1'))
    return run(pid, tier, seed)


if __name__ == '__main__':
    sys.exit(main(sys.argv))
