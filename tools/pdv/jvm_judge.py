"""javac + javap as judges of what the generated Java really declares (classes, members, JVM descriptors), and a scraper
for what the generated JNI C++ looks up / exports."""
import re, shutil, subprocess, tempfile
from pathlib import Path


def split_top(s):
    out, depth, cur = [], 0, ''
    for ch in s:
        if ch == '<':
            depth += 1
        elif ch == '>':
            depth -= 1
        if ch == ',' and depth == 0:
            out.append(cur); cur = ''
        else:
            cur += ch
    return out + [cur]


def compile_java(tree, prefix='out/java/'):
    """tree: {relpath: text}. Returns (ok, err, workdir); caller removes workdir."""
    work = Path(tempfile.mkdtemp(prefix='pdv-jvm-'))
    files = []
    for rel, text in tree.items():
        if rel.startswith(prefix) and rel.endswith('.java'):
            p = work / 'src' / rel[len(prefix):]
            p.parent.mkdir(parents=True, exist_ok=True)
            p.write_text(text)
            files.append(str(p))
    # a record with the +java target is generated as <Name>Base and the user supplies <Name>: supply the obvious subclass
    for rel, text in tree.items():
        m = re.search(r'(?s)package ([\w.]+);.*?class (\w+?)(Base|_base)\b.*?public \2\3\((.*?)\)\s*\{', text) if rel.startswith(prefix) and re.search(r'(Base|_base)\.java$', rel) else None
        if m:
            pkg, name, suffix, params = m.group(1), m.group(2), m.group(3), [x.strip() for x in split_top(m.group(4)) if x.strip()]
            target = rel[:-len(suffix + '.java')] + '.java'
            if target in tree:
                continue
            args = ', '.join(x.split()[-1] for x in params)
            p = work / 'src' / target[len(prefix):]
            p.write_text('package %s;\npublic class %s extends %s%s { public %s(%s) { super(%s); } }\n' % (pkg, name, name, suffix, name, ', '.join(params), args))
            files.append(str(p))
    if any('pdvann.' in t for r_, t in tree.items() if r_.startswith(prefix)):
        for nm in ('NotNull', 'Nullable'):
            p = work / 'src' / 'pdvann' / (nm + '.java')
            p.parent.mkdir(parents=True, exist_ok=True)
            p.write_text('package pdvann;\nimport java.lang.annotation.*;\n@Target({ElementType.TYPE_USE, ElementType.TYPE_PARAMETER})\npublic @interface %s {}\n' % nm)
            files.append(str(p))
    (work / 'cls').mkdir()
    if not files:
        return True, '', work
    p = subprocess.run(['javac', '-nowarn', '-Xlint:none', '-proc:none', '-d', str(work / 'cls')] + files, capture_output=True, text=True, timeout=600)
    return p.returncode == 0, (p.stderr or p.stdout)[-3000:], work


def javap(work):
    """{binary class name with / and $: {'fields': {name: (desc, flags)}, 'methods': {(name, desc): flags}, 'header': str}}"""
    cls = work / 'cls'
    names = [str(p.relative_to(cls))[:-6].replace('/', '.') for p in cls.rglob('*.class')]
    out = {}
    if not names:
        return out
    p = subprocess.run(['javap', '-s', '-p', '-cp', str(cls)] + names, capture_output=True, text=True, timeout=600)
    cur = None
    last = None
    for line in p.stdout.splitlines():
        m = re.match(r'^(?:[\w\s]*?)(?:class|interface|enum)\s+([\w.$]+)(?:<.*?>)?(\s+(extends|implements)\s.*)?\s*\{\s*$', line)
        if m and not line.startswith(' '):
            cur = m.group(1).replace('.', '/')
            out[cur] = {'fields': {}, 'methods': {}, 'header': line.strip()}
            continue
        if cur is None:
            continue
        s = line.strip()
        if s.startswith('descriptor:') and last is not None:
            desc = s.split(':', 1)[1].strip()
            flags, name, is_method = last
            if is_method:
                out[cur]['methods'][(name, desc)] = flags
            else:
                out[cur]['fields'][name] = (desc, flags)
            last = None
        elif s.endswith(';') and s != '}':
            decl = s[:-1]
            is_method = '(' in decl
            head = decl.split('(')[0] if is_method else decl
            head = re.sub(r'<[^()]*>', '', head)                 # drop generics
            toks = head.split()
            name = toks[-1]
            flags = set(t for t in toks[:-1] if t in ('public', 'private', 'protected', 'static', 'final', 'native', 'abstract', 'synchronized'))
            if is_method and name.replace('.', '/') == cur:      # constructor
                name = '<init>'
            elif is_method and '.' in name:
                name = '<init>'
            last = (flags, name, is_method)
    return out


def mangle(s):
    """JNI short-name mangling of a binary class name (with / and $) or a method name"""
    out = []
    for ch in s:
        if ch in '/.':
            out.append('_')
        elif ch == '_':
            out.append('_1')
        elif ch == ';':
            out.append('_2')
        elif ch == '[':
            out.append('_3')
        elif ch.isascii() and (ch.isalnum()):
            out.append(ch)
        else:
            out.append('_0%04x' % ord(ch))
    return ''.join(out)


def ctype_of(desc):
    """the C type the JNI specification prescribes for a native-method parameter / result of that descriptor"""
    return {'I': 'jint', 'J': 'jlong', 'Z': 'jboolean', 'B': 'jbyte', 'S': 'jshort', 'C': 'jchar', 'F': 'jfloat', 'D': 'jdouble', 'V': 'void',
            'Ljava/lang/String;': 'jstring', '[B': 'jbyteArray', 'Ljava/lang/Class;': 'jclass', 'Ljava/lang/Throwable;': 'jthrowable'}.get(desc, 'jobject')


def split_desc(desc):
    """'(ILjava/lang/String;[B)V' -> (['I', 'Ljava/lang/String;', '[B'], 'V')"""
    assert desc[0] == '('
    params, i = [], 1
    while desc[i] != ')':
        j = i
        while desc[j] == '[':
            j += 1
        if desc[j] == 'L':
            j = desc.index(';', j)
        params.append(desc[i:j + 1])
        i = j + 1
    return params, desc[i + 1:]


def compatible_ctype(declared, desc):
    want = ctype_of(desc)
    if declared == want:
        return True
    # every reference type is a jobject in C; the specific aliases are interchangeable with jobject at the ABI level
    return want in ('jstring', 'jbyteArray', 'jclass', 'jthrowable') and declared == 'jobject'


def scrape_jni(tree, prefix='out/jni/'):
    """lookups: [(file, class_descriptor or None, kind, name, sig)], exports: [(file, symbol, ret ctype, [param ctypes])]"""
    lookups, exports, findclass = [], [], []
    # C++ class -> descriptor from  X::findClass() { return jniFindClass("...") }
    by_cpp_class = {}
    for rel, text in tree.items():
        if not rel.startswith(prefix):
            continue
        for m in re.finditer(r'auto (\w+)::findClass\(\)[^{]*\{\s*return ::pydjinni::jniFindClass\("([^"]*)"\);', text):
            by_cpp_class[(rel.rsplit('.', 1)[0], m.group(1))] = m.group(2)
    for rel, text in tree.items():
        if not rel.startswith(prefix) or ('/pydjinni/' in rel and not re.search(r'/(schedule|completion)\.\w+$', rel)):
            continue
        flat = re.sub(r'"\s*\n\s*', '"', text)       # the <init> signature literal is split over lines by the template
        flat = re.sub(r'\(\s*\n\s*', '(', flat)
        # split into C++ class blocks so that each lookup is bound to the clazz of its own class
        blocks = re.split(r'(?m)^(?:class|struct)\s+(\w+)\s+final', flat)
        chunks = [(None, blocks[0])] + [(blocks[i], blocks[i + 1]) for i in range(1, len(blocks) - 1, 2)]
        for cname, chunk in chunks:
            cls = None
            for m in re.finditer(r'jniFindClass\("([^"]*)"\)|jniGet(Static)?(Method|Field)ID\(\s*(\w+)(?:\.get\(\))?\s*,\s*"([^"]*)"\s*,\s*"([^"]*)"\s*\)|clazz\s*\{\s*findClass\(\)\s*\}', re.sub(r'"\s+', '"', chunk) if False else chunk):
                if m.group(0).startswith('jniFindClass'):
                    cls = m.group(1)
                    findclass.append((rel, cls))
                elif m.group(0).startswith('clazz'):
                    cls = by_cpp_class.get((rel.rsplit('.', 1)[0], cname))
                else:
                    vm = re.search(r'auto\s+%s\s*=\s*::pydjinni::jniFindClass\("([^"]*)"\)' % re.escape(m.group(4)), chunk)
                    owner = cls if m.group(4) == 'clazz' else vm.group(1) if vm else '?' + m.group(4)
                    lookups.append((rel, owner, ('static-' if m.group(2) else '') + m.group(3).lower(), m.group(5), re.sub(r'\s+', '', m.group(6))))
        for m in re.finditer(r'JNIEXPORT\s+(\w+)\s+JNICALL\s+(\w+)\s*\(([^)]*)\)', flat):
            params = [re.sub(r'/\*.*?\*/', '', p).strip() for p in m.group(3).split(',')]
            ptypes = [p.split()[0].rstrip('*') + ('*' if '*' in p.split()[0] or (len(p.split()) > 1 and p.split()[1].startswith('*')) else '') for p in params if p]
            exports.append((rel, m.group(2), m.group(1), ptypes))
    return lookups, exports, findclass


def judge_jni(tree):
    """Compare what the JNI C++ looks up / exports with what javac says the generated Java declares.
    Returns (issues, stats); issue = dict(kind=..., ...)."""
    issues = []
    ok, err, work = compile_java(tree)
    try:
        if not ok:
            return [{'kind': 'java-does-not-compile', 'detail': err[-800:]}], {}
        jp = javap(work)
    finally:
        shutil.rmtree(work, ignore_errors=True)
    lookups, exports, findclass = scrape_jni(tree)
    for rel, cls in findclass:
        if cls.startswith('java/'):
            continue
        if cls not in jp:
            issues.append({'kind': 'class-not-found', 'file': rel, 'class': cls, 'java_classes': sorted(jp)[:12]})
    for rel, cls, kind, name, sig in lookups:
        if cls is None or cls.startswith('?'):
            issues.append({'kind': 'lookup-without-class', 'file': rel, 'name': name, 'owner': cls}); continue
        if cls.startswith('java/'):
            continue
        c = jp.get(cls)
        if c is None:
            continue   # reported by class-not-found
        if kind.endswith('method'):
            fl = c['methods'].get((name, sig))
            sup, seen = c, 0
            while fl is None and sup is not None and seen < 8:        # inherited members
                m = re.search(r'extends\s+([\w.$]+)', sup['header'])
                if not m:
                    break
                sname = m.group(1).replace('.', '/')
                if sname in ('java/lang/Exception', 'java/lang/RuntimeException', 'java/lang/Throwable') and (name, sig) == ('getMessage', '()Ljava/lang/String;'):
                    fl = {'public'}
                sup = jp.get(sname); seen += 1
                if fl is None and sup is not None:
                    fl = sup['methods'].get((name, sig))
            if fl is None:
                cands = [d for (n, d) in c['methods'] if n == name]
                issues.append({'kind': 'method-not-found', 'sub': 'descriptor-differs' if cands else 'no-such-name', 'file': rel, 'class': cls,
                               'name': name, 'looked_up': sig, 'declared': cands})
            elif ('static' in fl) != kind.startswith('static'):
                issues.append({'kind': 'method-staticness', 'file': rel, 'class': cls, 'name': name})
        else:
            f = c['fields'].get(name)
            sup, seen = c, 0
            while f is None and sup is not None and seen < 8:
                m = re.search(r'extends\s+([\w.$]+)', sup['header'])
                sup = jp.get(m.group(1).replace('.', '/')) if m else None
                seen += 1
                if sup is not None:
                    f = sup['fields'].get(name)
            if f is None or f[0] != sig:
                issues.append({'kind': 'field-not-found', 'sub': 'descriptor-differs' if f else 'no-such-name', 'file': rel, 'class': cls, 'name': name,
                               'looked_up': sig, 'declared': f and f[0]})
    natives = {}
    for cls, c in jp.items():
        for (name, desc), fl in c['methods'].items():
            if 'native' in fl:
                natives.setdefault('Java_' + mangle(cls) + '_' + mangle(name), []).append((cls, name, desc, fl))
    exp = {}
    for rel, sym, ret, ptypes in exports:
        if sym.startswith('Java_'):
            exp.setdefault(sym, []).append((rel, ret, ptypes))
    for sym, decls in natives.items():
        cls, name, desc, fl = decls[0]
        es = exp.get(sym, [])
        if len(decls) > 1:
            continue    # overloaded natives need long names; the generators never overload
        if len(es) != 1:
            near = [s for s in exp if s.lower().replace('_1', '_').replace('_00024', '') .endswith(name.lower().replace('_', '')) or name in s]
            issues.append({'kind': 'native-without-export' if not es else 'native-with-several-exports', 'class': cls, 'method': name,
                           'expected_symbol': sym, 'similar_exports': sorted(near)[:4],
                           'nested': '$' in cls, 'name_has_underscore': '_' in name})
            continue
        rel, ret, ptypes = es[0]
        params, rdesc = split_desc(desc)
        want_second = 'jclass' if 'static' in fl else 'jobject'
        if len(ptypes) != len(params) + 2 or ptypes[0] != 'JNIEnv*' or ptypes[1] != want_second:
            issues.append({'kind': 'native-c-arity', 'class': cls, 'method': name, 'descriptor': desc, 'c_params': ptypes, 'file': rel}); continue
        for i, (ct, d) in enumerate(zip(ptypes[2:], params)):
            if not compatible_ctype(ct, d):
                issues.append({'kind': 'native-c-type', 'where': 'parameter', 'class': cls, 'method': name, 'index': i, 'java_descriptor': d, 'c_type': ct,
                               'expected_c_type': ctype_of(d), 'file': rel, 'boxed_primitive': d.startswith('Ljava/lang/') and ct != 'jobject'})
        if not compatible_ctype(ret, rdesc):
            issues.append({'kind': 'native-c-type', 'where': 'result', 'class': cls, 'method': name, 'java_descriptor': rdesc, 'c_type': ret,
                           'expected_c_type': ctype_of(rdesc), 'file': rel, 'boxed_primitive': rdesc.startswith('Ljava/lang/') and ret != 'jobject'})
    for sym, es in exp.items():
        if sym not in natives:
            issues.append({'kind': 'export-without-native', 'symbol': sym, 'file': es[0][0]})
    stats = {'classes': len(jp), 'lookups': len(lookups), 'find_class': len(findclass), 'natives': sum(len(v) for v in natives.values()), 'exports': len(exp)}
    return issues, stats
