"""Build the Coq development (after regenerating coq/Gen from /repo), compile a Props file, run cases files."""
import fcntl, os, re, subprocess, time
from pathlib import Path
from .common import VERIF, COQ, REPO, PY, impl_env

TRANSLATORS = ['translate_tables', 'translate_templates', 'translate_grammar']
COQ_WARN = ['-w', '-notation-overridden,-deprecated-hint-without-locality,-deprecated,-ambiguous-paths']


class Lock:
    def __enter__(self):
        COQ.mkdir(exist_ok=True)
        self.f = open(COQ / '.lock', 'w')
        fcntl.flock(self.f, fcntl.LOCK_EX)
        return self
    def __exit__(self, *a):
        fcntl.flock(self.f, fcntl.LOCK_UN)
        self.f.close()


def project_files():
    fs = []
    for d in ['Lib', 'Gen', 'Idl', 'Marshal', 'Jinja', 'Lang', 'Sys']:
        fs += sorted(str(p.relative_to(COQ)) for p in (COQ / d).glob('*.v'))
    return fs


def run_translators(log):
    """Regenerate coq/Gen/*.v from /repo's working tree.  A failing translator removes its outputs (fail closed)."""
    status = {}
    for t in TRANSLATORS:
        script = VERIF / 'tools' / 'pdv' / (t + '.py')
        if not script.exists():
            continue
        t0 = time.time()
        p = subprocess.run([PY, '-B', str(script), str(COQ / 'Gen')], capture_output=True, text=True,
                           env=impl_env(), timeout=600)
        status[t] = {'ok': p.returncode == 0, 'wall_s': round(time.time() - t0, 2),
                     'msg': (p.stdout[-2000:] + p.stderr[-3000:]) if p.returncode != 0 else p.stdout[-500:]}
        log.append('translator %s: %s' % (t, 'ok' if p.returncode == 0 else 'FAILED'))
    return status


def build(log, jobs=16, timeout=1500):
    """Translate + full .vo build of everything except Props/ and cases/.  Returns dict with per-file status."""
    t0 = time.time()
    tr = run_translators(log)
    files = project_files()
    proj = '-R . PDV\n' + ''.join('-arg %s\n' % a for a in COQ_WARN) + '\n'.join(files) + '\n'
    pf = COQ / '_CoqProject'
    if not pf.exists() or pf.read_text() != proj:
        pf.write_text(proj)
    mk = subprocess.run(['coq_makefile', '-f', '_CoqProject', '-o', 'Makefile'], cwd=COQ, capture_output=True, text=True)
    if mk.returncode != 0:
        return {'ok': False, 'translators': tr, 'failed': files, 'errors': mk.stderr, 'wall_s': time.time() - t0}
    try:
        p = subprocess.run(['timeout', str(timeout), 'make', '-k', '-j%d' % jobs], cwd=COQ, capture_output=True, text=True)
        out = p.stdout + p.stderr
    except Exception as e:  # noqa
        out = 'make failed to run: %s' % e
    # everything still out of date after make -k is broken or depends on something broken
    dry = subprocess.run(['make', '-k', '-n'], cwd=COQ, capture_output=True, text=True)
    stale = sorted(set(re.findall(r'COQC (\S+\.v)', dry.stdout)))
    for f in stale:
        vo = COQ / (f[:-2] + '.vo')
        if vo.exists():
            vo.unlink()
    errors = {}
    for m in re.finditer(r'File "\./([^"]+)", line (\d+), characters [^\n]*\n((?:(?!File ")[^\n]*\n){0,12})', out):
        if 'Error' in m.group(3):
            errors.setdefault(m.group(1), '%s:%s %s' % (m.group(1), m.group(2), m.group(3).strip()[:1500]))
    log.append('coq build: %d files, %d stale/broken, %.1fs' % (len(files), len(stale), time.time() - t0))
    return {'ok': not stale, 'translators': tr, 'failed': stale, 'errors': errors, 'files': files,
            'wall_s': round(time.time() - t0, 2)}


def coqc(relpath, timeout=900):
    p = subprocess.run(['timeout', str(timeout), 'coqc', '-R', '.', 'PDV'] + COQ_WARN + [relpath], cwd=COQ,
                       capture_output=True, text=True)
    return p.returncode, p.stdout, p.stderr


def check_props(pid, log):
    """Compile Props/<pid>.v on top of the built libraries; collect theorem names and Print Assumptions output."""
    rel = 'Props/%s.v' % pid
    src = (COQ / rel).read_text()
    theorems = re.findall(r'^(?:Theorem|Corollary)\s+(\w+)', src, re.M)
    examples = re.findall(r'^Example\s+(\w+)', src, re.M)
    t0 = time.time()
    rc, out, err = coqc(rel)
    assumptions = {}
    # "Print Assumptions X." outputs either "Closed under the global context" or "Axioms:\n name : type ..."
    blocks = re.split(r'(?=Closed under the global context|Axioms:)', out)
    blocks = [b for b in blocks if b.startswith('Closed') or b.startswith('Axioms:')]
    printed = re.findall(r'^Print Assumptions\s+(\w+)', src, re.M)
    for name, b in zip(printed, blocks):
        if b.startswith('Closed'):
            assumptions[name] = []
        else:
            assumptions[name] = re.findall(r'^\s*([\w.]+)\s*:', b[len('Axioms:'):], re.M)
    ok = rc == 0
    log.append('Props/%s.v: %s (%d theorems, %.1fs)' % (pid, 'ok' if ok else 'FAILED', len(theorems), time.time() - t0))
    return {'ok': ok, 'theorems': theorems, 'examples': examples, 'assumptions': assumptions,
            'error': (err + out)[-3000:] if not ok else '', 'wall_s': round(time.time() - t0, 2)}


def forbidden_scan():
    """No Admitted/admit/Axiom/Parameter/... anywhere in the development."""
    bad = []
    pat = re.compile(r'\b(Admitted|admit|Axiom|Axioms|Parameter|Parameters|Conjecture|Hypothesis|Variable|Unset Guard Checking|'
                     r'Unset Positivity Checking|Unset Universe Checking|bypass_check|Admit Obligations|type-in-type)\b')
    for d in ['Lib', 'Gen', 'Idl', 'Marshal', 'Jinja', 'Lang', 'Sys', 'Props']:
        for f in sorted((COQ / d).glob('*.v')):
            depth = 0
            for i, line in enumerate(f.read_text().splitlines(), 1):
                code = re.sub(r'\(\*.*?\*\)', '', line)
                if re.match(r'\s*Section\b', code):
                    depth += 1
                if re.match(r'\s*End\b', code) and depth:
                    depth -= 1
                for m in pat.finditer(code):
                    w = m.group(1)
                    if w in ('Variable', 'Hypothesis') and depth > 0:
                        continue  # section-local: discharged as explicit premises
                    bad.append('%s:%d %s' % (f.relative_to(COQ), i, w))
    return bad


def run_cases(name, vtext, timeout=900):
    """Compile a generated cases file; returns (rc, stdout, stderr).  The file is removed afterwards."""
    d = COQ / 'cases'
    d.mkdir(exist_ok=True)
    base = '%s_%d' % (name, os.getpid())
    f = d / (base + '.v')
    f.write_text(vtext)
    try:
        return coqc('cases/%s.v' % base, timeout)
    finally:
        for ext in ('.v', '.vo', '.vok', '.vos', '.glob', '.aux'):
            q = d / (base + ext)
            if q.exists():
                q.unlink()
        aux = d / ('.' + base + '.aux')
        if aux.exists():
            aux.unlink()


def parse_nat_list(out: str, marker='= '):
    """Parse the result of `Eval vm_compute in (… : list nat)` from coqc output."""
    m = re.search(r'=\s*\[([^\]]*)\]', out, re.S)
    if not m:
        if re.search(r'=\s*\[\s*\]', out):
            return []
        return None
    body = m.group(1).strip()
    if not body:
        return []
    return [int(x.replace('%nat', '').strip()) for x in body.split(';')]
