"""Shared paths, subprocess helpers, evidence and finding handling for the pdv checks."""
import hashlib, json, os, random, shutil, subprocess, sys, tempfile, time
from pathlib import Path

VERIF = Path(__file__).resolve().parents[2]
REPO = Path(os.environ.get('PDV_REPO', '/repo'))
COQ = VERIF / 'coq'
PY = '/venv/bin/python'
GUARD = 'PYDJINNI_VERIF'


def impl_env(hashseed='0', extra=None):
    env = dict(os.environ)
    env['PYTHONPATH'] = str(REPO / 'src')
    env['PYTHONHASHSEED'] = str(hashseed)
    env['PYTHONDONTWRITEBYTECODE'] = '1'
    env[GUARD] = '1'
    env.pop('PYTHONSTARTUP', None)
    if extra:
        env.update(extra)
    return env


def run_impl(driver: str, payload, timeout=600, hashseed='0', extra_env=None, cwd=None):
    """Run tools/pdv/impl/<driver>.py under the repo's interpreter against /repo's working tree.
    payload (JSON) on stdin, JSON on stdout.  Returns (ok, result_or_error_text)."""
    script = VERIF / 'tools' / 'pdv' / 'impl' / (driver + '.py')
    try:
        p = subprocess.run([PY, '-B', str(script)], input=json.dumps(payload), capture_output=True, text=True,
                           timeout=timeout, env=impl_env(hashseed, extra_env), cwd=cwd)
    except subprocess.TimeoutExpired:
        return False, 'timeout after %ss' % timeout
    if p.returncode != 0:
        return False, 'driver exit %d\n%s' % (p.returncode, p.stderr[-4000:])
    out = p.stdout
    k = out.rfind('\n@@RESULT@@')
    if k < 0:
        return False, 'no result marker\n' + p.stderr[-4000:]
    try:
        return True, json.loads(out[k + len('\n@@RESULT@@'):])
    except Exception as e:  # noqa
        return False, 'bad json: %s' % e


class Scratch:
    """A scratch directory outside /repo and /verif, removed on exit."""
    def __init__(self, tag='pdv'):
        self.path = Path(tempfile.mkdtemp(prefix='%s-%d-' % (tag, os.getpid()), dir='/tmp'))
    def __enter__(self):
        return self.path
    def __exit__(self, *a):
        shutil.rmtree(self.path, ignore_errors=True)


def sha(s) -> str:
    if isinstance(s, str):
        s = s.encode()
    return hashlib.sha256(s).hexdigest()[:12]


def load_known_findings():
    p = VERIF / 'known_findings.json'
    if not p.exists():
        return []
    return json.loads(p.read_text()).get('findings', [])


def sig_matches(known_sig: dict, sig: dict) -> bool:
    """A known finding matches a detected violation when every key of its signature is equal."""
    def eq(k, v):
        if isinstance(v, list):          # a list in a known signature means "one of"
            return sig.get(k) in v
        return sig.get(k) == v
    return all(eq(k, v) for k, v in known_sig.items())


def write_replay(pid: str, content: dict) -> Path:
    d = VERIF / 'evidence' / 'replay'
    d.mkdir(parents=True, exist_ok=True)
    body = json.dumps(content, indent=1, sort_keys=True, default=str)
    p = d / ('%s-%s.json' % (pid, sha(body)))
    p.write_text(body)
    return p
