"""Translator: reflect tables out of /repo's working tree into coq/Gen/*.v (definitions only, fail closed).
Run under /venv/bin/python with PYTHONPATH=/repo/src.  usage: translate_tables.py <GenDir>"""
import sys, os, inspect, warnings, logging
warnings.filterwarnings('ignore')
sys.path.insert(0, os.path.join(os.path.dirname(__file__), '..'))
from pdv.emit import *

HEADER = '(* GENERATED from /repo by tools/pdv/translate_tables.py on every run - do not edit, not committed *)\n' \
         'From Coq Require Import List String.\nImport ListNotations.\nOpen Scope string_scope.\n\n'


def write_if_changed(path, text):
    if os.path.exists(path) and open(path).read() == text:
        return
    with open(path, 'w') as f:
        f.write(text)


def target_table(api):
    rows = []
    for key, t in api.generation_targets.items():
        gens = [g.key for g in t.generator_instances]
        rows.append('(%s, %s)' % (cstr(key), cstrs(gens)))
    gen_rows = []
    for key, t in api.generation_targets.items():
        for g in t.generator_instances:
            gen_rows.append('(%s, (%s, %s))' % (cstr(g.key), cbool(g.writes_header), cbool(g.writes_source)))
    pk = ['(%s, %s)' % (cstr(k), clist(['(%s, %s)' % (cstr(str(p)), cstrs([str(a) for a in archs])) for p, archs in t.platforms.items()]))
          for k, t in api.package_targets.items()]
    return HEADER + 'Definition targets : list (string * list string) :=\n  %s.\n\n' % clist(rows) + \
        'Definition generators : list (string * (bool * bool)) :=\n  %s.\n\n' % clist(gen_rows) + \
        'Definition package_targets : list (string * list (string * list string)) :=\n  %s.\n' % clist(pk)


def return_codes():
    import pydjinni.exceptions as ex
    from pydjinni.exceptions import ApplicationException, return_codes
    # import every module that declares exception classes so the registry is complete
    import pydjinni.parser.parser, pydjinni.parser.resolver, pydjinni.generator.generator, pydjinni.builder.target  # noqa
    import pydjinni.generator.validator  # noqa
    seen = []
    def walk(cls):
        for sub in cls.__subclasses__():
            if sub.__module__.startswith('pydjinni.') and not sub.__module__.startswith('pydjinni_init'):
                code = sub.__dict__.get('code', getattr(sub, 'code', None))
                seen.append((sub.__qualname__, int(code) if code is not None else 0, (sub.__doc__ or '').strip()))
            walk(sub)
    walk(ApplicationException)
    seen = sorted(set(seen))
    rows = ['(%s, %s, %s)' % (cstr(n), cnat(c), cstr(d)) for n, c, d in seen]
    table = ['(%s, %s)' % (cnat(c), cstr(d or '')) for c, d in sorted(return_codes.items())]
    return HEADER + 'Definition exception_classes : list (string * nat * string) :=\n  %s.\n\n' % clist(rows) + \
        'Definition return_codes : list (nat * string) :=\n  %s.\n' % clist(table)


PRIMS = {'primitive': 'PPrimitive', 'collection': 'PCollection', 'interface': 'PInterface', 'record': 'PRecord', 'enum': 'PEnum',
         'flags': 'PFlags', 'function': 'PFunction', 'error': 'PError'}


def builtins(api):
    rows = []
    for t in api.internal_types:
        rows.append('(%s, %s, %s, %s)' % (cstr(str(t.name)), cstrs([str(x) for x in t.namespace]), cstr(str(t.primitive.value)), cstrs(list(t.params))))
    keys = list(api.generation_targets.keys())
    return HEADER + '(* name, namespace, primitive kind, generic parameter names *)\n' \
        'Definition builtin_types : list (string * list string * string * list string) :=\n  %s.\n\n' % clist(rows) + \
        'Definition target_keys : list string := %s.\n' % cstrs(keys)


def external_attrs(api):
    """every attribute of the built-in types' external-type models, per generator, as strings"""
    rows = []
    for t in api.internal_types:
        gens = []
        for g in ('cpp', 'java', 'jni', 'objc', 'objcpp', 'cppcli'):
            m = getattr(t, g, None)
            if m is None:
                continue
            d = m.model_dump(mode='json') if hasattr(m, 'model_dump') else dict(m)
            attrs = []
            for k in sorted(d):
                v = d[k]
                if isinstance(v, bool):
                    v = 'true' if v else 'false'
                elif v is None:
                    v = ''
                attrs.append('(%s, %s)' % (cstr(k), cstr(str(v))))
            gens.append('(%s, %s)' % (cstr(g), clist(attrs)))
        rows.append('(%s, %s)' % (cstr(str(t.name)), clist(gens)))
    return HEADER + '(* built-in type -> generator -> attribute -> value (external_types.py tables) *)\n' \
        'Definition builtin_attrs : list (string * list (string * list (string * string))) :=\n  %s.\n' % clist(rows)


def typedef_reads():
    """every  <expr>.type_def.<gen>.<attr>  attribute chain in the generators' Python code: what is read THROUGH a type reference"""
    import ast, glob
    gens = {'cpp', 'java', 'jni', 'objc', 'objcpp', 'cppcli', 'yaml'}
    rows = set()
    import pydjinni
    root = os.path.join(os.path.dirname(pydjinni.__file__), 'generator')
    for f in sorted(glob.glob(os.path.join(root, '**', '*.py'), recursive=True)):
        try:
            tree = ast.parse(open(f).read())
        except SyntaxError:
            raise
        for n in ast.walk(tree):
            if isinstance(n, ast.Attribute) and isinstance(n.value, ast.Attribute) and n.value.attr in gens and \
               isinstance(n.value.value, ast.Attribute) and n.value.value.attr == 'type_def':
                rows.add((os.path.relpath(f, root), n.value.attr, n.attr))
    out = ['(%s, %s, %s)' % (cstr(a), cstr(b), cstr(c)) for a, b, c in sorted(rows)]
    return HEADER + '(* file, generator, attribute: reads of the form  X.type_def.<generator>.<attribute>  in generator/**/*.py *)\n' \
        'Definition typedef_reads_py : list (string * string * string) :=\n  %s.\n' % clist(out)


def set_attrs():
    """names of marshalling attributes whose declared type is a set (iteration order depends on the hash seed)"""
    import ast, glob, pydjinni
    root = os.path.dirname(pydjinni.__file__)
    names = set()
    for f in sorted(glob.glob(os.path.join(root, '**', '*.py'), recursive=True)):
        tree = ast.parse(open(f).read())
        for n in ast.walk(tree):
            if isinstance(n, (ast.FunctionDef, ast.AnnAssign)):
                ann = n.returns if isinstance(n, ast.FunctionDef) else n.annotation
                if ann is not None and ast.unparse(ann).replace(' ', '').startswith('set['):
                    names.add(n.name if isinstance(n, ast.FunctionDef) else (n.target.id if isinstance(n.target, ast.Name) else ast.unparse(n.target)))
    return HEADER + '(* attributes / functions annotated as returning a set, anywhere in pydjinni *)\n' \
        'Definition set_attrs : list string := %s.\n' % cstrs(sorted(names))


def marshal_attrs(api):
    """per generator: every attribute name of every marshalling class and external-type model (what a template may read after .<generator>.)"""
    rows = []
    for t in api.generation_targets.values():
        for gi in t.generator_instances:
            names = set()
            classes = list(getattr(gi, 'marshal_models', {}).values())
            ext = getattr(gi, 'external_type_model', None)
            if ext is not None:
                classes.append(ext)
            seen = set()
            while classes:
                c = classes.pop()
                if c in seen or not isinstance(c, type):
                    continue
                seen.add(c)
                for n in dir(c):
                    if not n.startswith('_'):
                        names.add(n)
                for n in getattr(c, 'model_fields', {}):
                    names.add(n)
                for v_ in vars(c).values():          # nested marshalling classes (JniInterface.JniMethod, ...)
                    if isinstance(v_, type):
                        classes.append(v_)
            rows.append('(%s, %s)' % (cstr(gi.key), cstrs(sorted(names))))
    return HEADER + '(* generator key -> attribute names of its marshalling classes (reflected with dir()) *)\n' \
        'Definition marshal_attrs : list (string * list string) :=\n  %s.\n' % clist(rows)


def main(outdir):
    os.makedirs(outdir, exist_ok=True)
    from pydjinni import API
    api = API()
    write_if_changed(os.path.join(outdir, 'TargetTable.v'), target_table(api))
    write_if_changed(os.path.join(outdir, 'ReturnCodes.v'), return_codes())
    write_if_changed(os.path.join(outdir, 'Builtins.v'), builtins(api))
    write_if_changed(os.path.join(outdir, 'ExternalTypes.v'), external_attrs(api))
    write_if_changed(os.path.join(outdir, 'TypeDefReads.v'), typedef_reads())
    write_if_changed(os.path.join(outdir, 'SetAttrs.v'), set_attrs())
    write_if_changed(os.path.join(outdir, 'MarshalAttrs.v'), marshal_attrs(api))
    print('tables ok')


if __name__ == '__main__':
    try:
        main(sys.argv[1])
    except Exception:
        # fail closed: remove outputs so everything that depends on them stops building
        for f in ('TargetTable.v', 'ReturnCodes.v', 'Builtins.v', 'ExternalTypes.v', 'TypeDefReads.v', 'SetAttrs.v', 'MarshalAttrs.v'):
            p = os.path.join(sys.argv[1], f)
            if os.path.exists(p):
                os.unlink(p)
        raise
