"""Compilers as judges of well-formedness of generated code: g++ -fsyntax-only per C++/JNI header and source, javac for all Java."""
import os, re, shutil, subprocess, tempfile
from concurrent.futures import ThreadPoolExecutor
from pathlib import Path
from . import jvm_judge

JDK = '/usr/lib/jvm/java-17-openjdk-amd64/include'
MARKERS = [r'(?m)^\s*//>', r'(?m)^\s*//\?', r'/\*>', r'\{%', r'%\}', r'\{\{\s*[\w\"(]', r'[\w\")]\s*\}\}', r'/\*#', r'#\*/']


def norm_err(line):
    m = re.search(r'(fatal error|error): (.*)', line)
    msg = m.group(2) if m else line
    msg = re.sub(r'‘[^’]*’', '‘_’', msg)
    msg = re.sub(r"'[^']*'", "'_'", msg)
    return msg[:90]


def gxx(work, rel, incs):
    p = subprocess.run(['g++', '-std=c++20', '-fsyntax-only', '-w', '-x', 'c++'] + sum((['-I', str(i)] for i in incs), []) + [str(work / rel)],
                       capture_output=True, text=True, timeout=300)
    if p.returncode == 0:
        return None
    errs = [l for l in p.stderr.splitlines() if 'error' in l]
    line_text = ''
    m = re.match(r'(/[^:]+):(\d+):', errs[0]) if errs else None
    if m:
        try:
            line_text = open(m.group(1)).read().splitlines()[int(m.group(2)) - 1][:600]
        except Exception:  # noqa
            pass
    return (errs[:4] or [p.stderr[-300:]]), line_text


def judge_tree(tree, cpp_user_headers=()):
    """tree: {relpath: text} with support library. Returns (issues, stats)."""
    issues, stats = [], {'cpp_files': 0, 'jni_files': 0, 'java_files': 0, 'scanned_files': 0}
    work = Path(tempfile.mkdtemp(prefix='pdv-c01-'))
    try:
        for rel, text in tree.items():
            if rel.startswith('out/'):
                p = work / rel
                p.parent.mkdir(parents=True, exist_ok=True)
                p.write_text(text)
        for rel, text in cpp_user_headers:
            p = work / rel
            if not p.exists():
                p.parent.mkdir(parents=True, exist_ok=True)
                p.write_text(text)
        jobs = []
        for rel in sorted(tree):
            if '/pydjinni/' in rel and not re.search(r'/(schedule|completion)\.\w+$', rel):
                continue
            if rel.startswith('out/cpp/') and rel.endswith(('.hpp', '.cpp')):
                jobs.append(('cpp', rel, [work / 'out/cpp']))
            elif rel.startswith('out/jni/') and rel.endswith(('.hpp', '.cpp')):
                jobs.append(('jni', rel, [work / 'out/jni', work / 'out/cpp', JDK, JDK + '/linux']))
        with ThreadPoolExecutor(max_workers=4) as ex:
            results = list(ex.map(lambda j: gxx(work, j[1], j[2]), jobs))
        for (lang, rel, _), errs in zip(jobs, results):
            stats[lang + '_files'] += 1
            if errs:
                errs, line_text = errs
                issues.append({'kind': 'does-not-compile', 'lang': lang, 'file': rel, 'message': norm_err(errs[0]), 'errors': errs, 'line_text': line_text})
    finally:
        shutil.rmtree(work, ignore_errors=True)
    ok, err, jw = jvm_judge.compile_java(tree)
    shutil.rmtree(jw, ignore_errors=True)
    stats['java_files'] = sum(1 for r_ in tree if r_.startswith('out/java/') and r_.endswith('.java'))
    if not ok:
        lines = [l for l in err.splitlines() if 'error:' in l or 'symbol:' in l]
        issues.append({'kind': 'does-not-compile', 'lang': 'java', 'file': (lines[0].split(':')[0].split('/src/')[-1] if lines else '?'),
                       'message': norm_err(lines[0]) if lines else err[-100:], 'errors': lines[:4]})
    for rel, text in tree.items():
        if not rel.startswith('out/') or '/pydjinni/' in rel:
            continue
        stats['scanned_files'] += 1
        for m in MARKERS:
            mm = re.search(m, text)
            if mm:
                line = text[:mm.start()].count('\n')
                issues.append({'kind': 'unrendered-marker', 'file': rel, 'marker': m, 'line': text.splitlines()[line][:160], 'generator': rel.split('/')[1]})
                break
    return issues, stats
