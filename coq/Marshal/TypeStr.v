(* The structural type-string computations of the four API generators:
   cpp/type.py:_type_specifier, java/type.py:compute_data_type, objc/type.py:type_decl, cppcli/type.py:typename,
   as functions of what they read from the referenced type definitions. *)
From Coq Require Import List String Ascii Bool Arith.
From PDV Require Import Lib.StrUtil.
Import ListNotations.
Open Scope string_scope.

Inductive tkind := KInterface | KFunction | KOther.
Record tinfo := mktinfo {
  t_kind : tkind;
  cpp_typename : string; cpp_by_value : bool;
  java_typename : string; java_boxed : string;
  objc_typename : string; objc_boxed : string; objc_pointer : bool;
  cli_typename : string; cli_reference : bool
}.
Inductive tr := TR (opt : bool) (ty : tinfo) (args : list tr).

Definition is_interface (t : tinfo) := match t_kind t with KInterface => true | _ => false end.
Definition is_function (t : tinfo) := match t_kind t with KFunction => true | _ => false end.

Section Maps.
  Variable f : tr -> string.
  Fixpoint map_tr (l : list tr) : list string := match l with [] => [] | a :: r => f a :: map_tr r end.
End Maps.

(* ---- C++ ---- *)
(* the inner type of a reference: typename<args>, shared_ptr for interfaces, optional otherwise (not for functions) *)
Fixpoint cpp_inner (notnull : option string) (use_notnull : bool) (r : tr) {struct r} : string :=
  match r with
  | TR opt ty args =>
      let base := cpp_typename ty ++
                  match args with
                  | [] => ""
                  | _ => "<" ++ join ", " ((fix go (l : list tr) : list string := match l with [] => [] | a :: t => cpp_inner notnull false a :: go t end) args) ++ ">"
                  end in
      if is_interface ty then
        let sp := "std::shared_ptr<" ++ base ++ ">" in
        match notnull with
        | Some nn => if use_notnull && negb opt then nn ++ "<" ++ sp ++ ">" else sp
        | None => sp
        end
      else if opt && negb (is_function ty) then "std::optional<" ++ base ++ ">"
      else base
  end.
Definition cpp_spec (notnull : option string) (is_parameter use_notnull : bool) (r : option tr) : string :=
  match r with
  | None => "void"
  | Some (TR opt ty args as x) =>
      let out := cpp_inner notnull use_notnull x in
      if is_parameter && negb (cpp_by_value ty) then "const " ++ out ++ " &" else out
  end.

(* ---- Java (no annotations) ---- *)
Fixpoint java_type (boxed : bool) (r : tr) {struct r} : string :=
  match r with
  | TR opt ty args =>
      (if boxed || opt then java_boxed ty else java_typename ty) ++
      match args with
      | [] => ""
      | _ => "<" ++ join ", " ((fix go (l : list tr) : list string := match l with [] => [] | a :: t => java_type true a :: go t end) args) ++ ">"
      end
  end.

(* ---- Objective-C ---- *)
Fixpoint replace_first (pat rep s : string) (fuel : nat) : string :=
  match fuel with
  | 0 => s
  | S f => if starts_with pat s then rep ++ substring (String.length pat) (String.length s) s
           else match s with EmptyString => EmptyString | String c r => String c (replace_first pat rep r f) end
  end.
(* str.replace replaces every occurrence; a block type contains exactly one "(^)" at top level or nested ones too: model all *)
Fixpoint replace_all (pat rep s : string) (fuel : nat) : string :=
  match fuel with
  | 0 => s
  | S f => if starts_with pat s then rep ++ replace_all pat rep (substring (String.length pat) (String.length s) s) f
           else match s with EmptyString => EmptyString | String c r => String c (replace_all pat rep r f) end
  end.
Fixpoint objc_decl (parameter boxed : bool) (r : tr) {struct r} : string :=
  match r with
  | TR opt ty args =>
      let tn0 := if boxed || opt then objc_boxed ty else objc_typename ty in
      let generics := match args with
                      | [] => ""
                      | _ => "<" ++ join ", " ((fix go (l : list tr) : list string := match l with [] => [] | a :: t => objc_decl false true a :: go t end) args) ++ ">"
                      end in
      let tn1 := if is_interface ty && parameter then "id<" ++ tn0 ++ ">" else tn0 in
      let pointer := if is_interface ty && parameter then false else objc_pointer ty in
      let tn2 := if is_function ty then replace_all "(^)" ("(^ " ++ (if opt then "_Nullable" else "_Nonnull") ++ ")") tn1 (S (String.length tn1)) else tn1 in
      tn2 ++ generics ++ (if pointer || boxed || (opt && negb (is_function ty)) then " *" else "")
  end.

(* ---- C++/CLI ---- *)
Fixpoint cli_type (r : tr) {struct r} : string :=
  match r with
  | TR opt ty args =>
      let o1 := if opt && negb (cli_reference ty) then "System::Nullable<" ++ cli_typename ty ++ ">" else cli_typename ty in
      o1 ++
      match args with
      | [] => ""
      | _ => "<" ++ join ", " ((fix go (l : list tr) : list string := match l with [] => [] | a :: t => cli_type a :: go t end) args) ++ ">"
      end ++ (if cli_reference ty then "^" else "")
  end.
Definition cli_typename_of (r : option tr) (async : bool) : string :=
  match r with
  | Some x => if async then "System::Threading::Tasks::Task<" ++ cli_type x ++ ">^" else cli_type x
  | None => if async then "System::Threading::Tasks::Task^" else "void"
  end.

(* ---- C++ method specifiers ---- *)
Definition prefix_specifiers (has_ret const static implementation : bool) : string :=
  (if has_ret && const then "[[nodiscard]] " else "") ++ (if static then "static " else if negb implementation then "virtual " else "").
Definition postfix_specifiers (const noexcept static implementation : bool) : string :=
  (if const then " const" else "") ++ (if noexcept then " noexcept" else "") ++ (if negb static && negb implementation then " = 0" else "").

(* ---- Objective-C block type of a function (ObjcFunction.typename) ---- *)
Definition objc_annotation_macro (r : tr) : string :=
  match r with
  | TR opt ty _ => if opt && negb (is_function ty) then "_Nullable" else if objc_pointer ty then "_Nonnull" else ""
  end.
Definition objc_block_typename (ret : option tr) (params : list tr) (noexcept : bool) : string :=
  (match ret with Some r => objc_decl false false r | None => "void" end) ++ " (^)(" ++
  join ", " (List.app (map (fun p => objc_decl true false p ++ " " ++ objc_annotation_macro p) params)
                      (if noexcept then [] else ["NSError* _Nullable * _Nonnull"])) ++ ")".
