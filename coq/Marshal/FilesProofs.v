From Coq Require Import List String Ascii Bool Arith Lia.
From PDV Require Import Lib.StrUtil Marshal.Ident Marshal.IdentProofs Marshal.Files Sys.Writer Sys.WriterProofs.
Import ListNotations.
Open Scope string_scope. Open Scope list_scope.

Lemma length_app_s (u v : string) : String.length (u ++ v)%string = String.length u + String.length v.
Proof. induction u as [|x u IH]; cbn; [reflexivity | now rewrite IH]. Qed.

Lemma app_inv_tail_s (t a b : string) : (a ++ t)%string = (b ++ t)%string -> a = b.
Proof.
  revert b. induction a as [|x a IH]; intros b H.
  - destruct b as [|y b]; [reflexivity|]. exfalso.
    apply (f_equal String.length) in H. cbn in H. rewrite length_app_s in H. lia.
  - destruct b as [|y b].
    + exfalso. apply (f_equal String.length) in H. cbn in H. rewrite length_app_s in H. lia.
    + cbn in H. injection H as -> H. f_equal. now apply IH.
Qed.

Definition slash : ascii := "/"%char.
Definition seg_ok (s : string) : Prop := has_char slash s = false.

(* C15 (cpp, cppcli): distinct (namespace, converted file name) pairs are written to distinct files *)
Theorem ns_file_injective file ext ns name ns' name' :
  Forall seg_ok ns -> Forall seg_ok ns' ->
  seg_ok (conv file name ++ "." ++ ext) -> seg_ok (conv file name' ++ "." ++ ext) ->
  ns_file file ext ns name = ns_file file ext ns' name' ->
  ns = ns' /\ conv file name = conv file name'.
Proof.
  unfold ns_file, pjoin_rel. intros F1 F2 S1 S2 E.
  change "/" with (String slash "") in E. apply (join_inj slash) in E.
  - apply app_inj_tail in E as [-> E]. split; [reflexivity|]. now apply app_inv_tail_s in E.
  - destruct ns; discriminate.
  - destruct ns'; discriminate.
  - apply Forall_app. split; [exact F1 | now constructor].
  - apply Forall_app. split; [exact F2 | now constructor].
Qed.

(* ... and for identifiers that are already in the canonical lower-case form the declaration itself is determined *)
Theorem cpp_file_injective ext ns name ns' name' :
  Forall seg_ok ns -> Forall seg_ok ns' ->
  seg_ok (lower name ++ "." ++ ext) -> seg_ok (lower name' ++ "." ++ ext) ->
  lower name = name -> lower name' = name' ->
  ns_file (SSnake, None) ext ns name = ns_file (SSnake, None) ext ns' name' -> ns = ns' /\ name = name'.
Proof.
  intros F1 F2 S1 S2 L1 L2 E. unfold ns_file, conv in *. cbn [fst snd] in *. rewrite !convert_snake in *.
  destruct (ns_file_injective (SSnake, None) ext ns name ns' name' F1 F2) as [Hn Hc];
    try (unfold conv; cbn [fst snd]; rewrite convert_snake; assumption).
  - unfold ns_file, conv. cbn [fst snd]. rewrite !convert_snake. exact E.
  - split; [exact Hn|]. unfold conv in Hc. cbn [fst snd] in Hc. rewrite !convert_snake in Hc. congruence.
Qed.

(* REFUTED: the generators whose file name ignores the namespace write two different declarations to one path *)
Theorem flat_file_collides file ext : exists ns ns' name, ns <> ns' /\ flat_file file ext ns name = flat_file file ext ns' name.
Proof. exists ["a"], ["b"], "foo". split; [discriminate | reflexivity]. Qed.

Theorem objcpp_file_collides ext : exists ns ns' name, ns <> ns' /\ objcpp_file ext ns name = objcpp_file ext ns' name.
Proof. exists ["a"], ["b"], "foo". split; [discriminate | reflexivity]. Qed.

Theorem yaml_file_collides : exists ns ns' name, ns <> ns' /\ yaml_file ns name = yaml_file ns' name.
Proof. exists ["a"], ["b"], "foo". split; [discriminate | reflexivity]. Qed.

(* REFUTED: objc glues namespace and name without a separator *)
Theorem objc_file_collides :
  exists ns name ns' name', (ns, name) <> (ns', name') /\
    objc_file "" (SPascal, None) "h" ns name = objc_file "" (SPascal, None) "h" ns' name'.
Proof. exists ["a"], "b_c", ["a"; "b"], "c". split; [discriminate | vm_compute; reflexivity]. Qed.

(* REFUTED: identifier-style conversion is not injective (names differing only in case / separators) *)
Theorem style_conversion_collides :
  exists name name', name <> name' /\ ns_file (SSnake, None) "hpp" ["n"] name = ns_file (SSnake, None) "hpp" ["n"] name'.
Proof. exists "Foo", "foo". split; [discriminate | vm_compute; reflexivity]. Qed.

(* writer level: when the written paths are pairwise distinct no path ever receives two contents *)
Theorem single_writer ops keys :
  NoDup (written_paths ops) ->
  forall p c1 c2, In (p, c1) (w_log (run ops (init keys))) -> In (p, c2) (w_log (run ops (init keys))) -> c1 = c2.
Proof.
  intros Hnd p c1 c2 H1 H2. pose proof (writes_confined ops keys) as E. rewrite <- E in Hnd.
  remember (w_log (run ops (init keys))) as l. clear - Hnd H1 H2.
  induction l as [|[q c] l IH]; [destruct H1|]. cbn in Hnd. inversion Hnd as [|? ? Hnin Hnd']; subst.
  destruct H1 as [H1|H1], H2 as [H2|H2].
  - congruence.
  - exfalso. injection H1 as -> ->. apply Hnin. apply in_map_iff. now exists (p, c2).
  - exfalso. injection H2 as -> ->. apply Hnin. apply in_map_iff. now exists (p, c1).
  - now apply IH.
Qed.
