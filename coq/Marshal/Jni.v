(* Model of the name/descriptor computations of generator/java/jni/type.py and of the Java-side type strings of
   generator/java/java/type.py (compute_data_type / compute_return_type without annotations). *)
From Coq Require Import List String Ascii Bool Arith.
From PDV Require Import Lib.StrUtil.
Import ListNotations.
Open Scope string_scope.

(* what the two generators know about a type (built-in table row, or computed for a declared type) *)
Record tyinfo := mktyinfo {
  ti_sig : string;          (* jni.type_signature *)
  ti_boxed_sig : string;    (* jni.boxed_type_signature *)
  ti_native : string;       (* jni.typename (jint, jobject, ...) *)
  ti_java : string;         (* java.typename *)
  ti_java_boxed : string    (* java.boxed *)
}.

(* a type reference: optional flag, the type, generic arguments *)
Inductive tref := TRef (opt : bool) (ty : tyinfo) (args : list tref).
Definition tr_opt (r : tref) := match r with TRef o _ _ => o end.
Definition tr_ty (r : tref) := match r with TRef _ t _ => t end.
Definition tr_args (r : tref) := match r with TRef _ _ a => a end.

(* ---- jni/type.py ---- *)
Definition ref_sig (r : tref) : string := if tr_opt r then ti_boxed_sig (tr_ty r) else ti_sig (tr_ty r).
Definition type_signature (params : list tref) (ret : option tref) (async : bool) : string :=
  "(" ++ concat "" (map ref_sig params) ++ ")" ++
  (if async then "Ljava/util/concurrent/CompletableFuture;" else match ret with Some r => ref_sig r | None => "V" end).

Fixpoint replace1 (c : ascii) (rep : string) (s : string) : string :=
  match s with EmptyString => EmptyString | String a r => (if Ascii.eqb a c then rep else String a "") ++ replace1 c rep r end.
Definition seg_mangle (s : string) : string := replace1 "$"%char "_00024" (replace1 "_"%char "_1" s).
Definition jni_prefix (segs : list string) : string := join "_" ("Java" :: map seg_mangle segs).
Definition class_descriptor (pkg name : string) : string := join "/" (split_on "."%char pkg ++ [name])%list.
Definition decl_type_signature (pkg name : string) : string := "L" ++ class_descriptor pkg name ++ ";".
Definition decl_jni_prefix (pkg name : string) : string := jni_prefix (split_on "."%char pkg ++ [name])%list.

Definition is_array_like (native : string) : bool := String.eqb native "jstring" || String.eqb native "jbyteArray".
Definition get_typename (r : tref) : string :=
  if tr_opt r && negb (is_array_like (ti_native (tr_ty r))) then "jobject" else ti_native (tr_ty r).
Definition return_type_spec (ret : option tref) (async : bool) : string :=
  if async then "jobject" else match ret with Some r => get_typename r | None => "void" end.
(* the exported symbol of a method of the C++ proxy, as the interface source template composes it *)
Definition proxy_symbol (pkg name : string) (static : bool) (method : string) : string :=
  decl_jni_prefix pkg name ++ "_00024CppProxy_" ++ (if static then "" else "native_1") ++ replace1 "_"%char "_1" method.

(* ---- java/type.py (no nullable/nonnull annotations configured) ---- *)
Fixpoint data_type (boxed : bool) (r : tref) {struct r} : string :=
  match r with
  | TRef opt ty args =>
      (if boxed || opt then ti_java_boxed ty else ti_java ty) ++
      match args with
      | [] => ""
      | _ => "<" ++ join ", " ((fix go (l : list tref) : list string := match l with [] => [] | a :: t => data_type true a :: go t end) args) ++ ">"
      end
  end.
Definition return_type (ret : option tref) (async : bool) : string :=
  let out := match ret with Some r => data_type async r | None => if async then "Void" else "void" end in
  if async then "java.util.concurrent.CompletableFuture" ++ "<" ++ out ++ ">" else out.
Definition decl_java_typename (pkg name : string) : string := pkg ++ "." ++ name.
