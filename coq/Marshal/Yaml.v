(* The YAML target: what generate_type_dict exports for a declared type (the BaseExternalType fields plus, per generator, the
   fields of that generator's external-type model, None values dropped) and what @extern loads back. The YAML text layer
   (PyYAML dump / safe_load) and pydantic validation are identities on this tree and are trusted. *)
From Coq Require Import List String Ascii Bool Arith.
From PDV Require Import Lib.StrUtil.
Import ListNotations.
Open Scope string_scope. Open Scope list_scope.

Inductive scalar := SStr (s : string) | SBool (b : bool).
Inductive ynode := YScalar (v : scalar) | YList (l : list string) | YMap (kvs : list (string * scalar)).
Definition ydoc := list (string * ynode).

Record ext := mkext {
  e_name : string; e_namespace : list string; e_primitive : string; e_params : list string;
  e_deprecated : scalar;                          (* false | true | message *)
  e_comment : option string;
  e_targets : list (string * list (string * scalar))     (* generator -> field -> value; absent (None) fields are not listed *)
}.

Definition base_keys : list string := ["name"; "namespace"; "primitive"; "params"; "deprecated"; "comment"].

Definition export (e : ext) : ydoc :=
  [("name", YScalar (SStr (e_name e))); ("namespace", YList (e_namespace e)); ("primitive", YScalar (SStr (e_primitive e)));
   ("params", YList (e_params e)); ("deprecated", YScalar (e_deprecated e))] ++
  (match e_comment e with Some c => [("comment", YScalar (SStr c))] | None => [] end) ++
  map (fun t => (fst t, YMap (snd t))) (e_targets e).

Fixpoint lookup (k : string) (d : ydoc) : option ynode :=
  match d with [] => None | (k', v) :: r => if String.eqb k k' then Some v else lookup k r end.
Definition mem (k : string) (l : list string) : bool := existsb (String.eqb k) l.

Definition import (d : ydoc) : option ext :=
  match lookup "name" d, lookup "namespace" d, lookup "primitive" d, lookup "params" d, lookup "deprecated" d with
  | Some (YScalar (SStr n)), Some (YList ns), Some (YScalar (SStr p)), Some (YList ps), Some (YScalar dep) =>
      match lookup "comment" d with
      | Some (YScalar (SStr c)) =>
          Some (mkext n ns p ps dep (Some c)
                      (flat_map (fun kv => match snd kv with YMap m => if mem (fst kv) base_keys then [] else [(fst kv, m)] | _ => [] end) d))
      | None =>
          Some (mkext n ns p ps dep None
                      (flat_map (fun kv => match snd kv with YMap m => if mem (fst kv) base_keys then [] else [(fst kv, m)] | _ => [] end) d))
      | _ => None
      end
  | _, _, _, _, _ => None
  end.

Definition wf (e : ext) : bool := forallb (fun t => negb (mem (fst t) base_keys)) (e_targets e).
