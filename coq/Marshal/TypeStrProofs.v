From Coq Require Import List String Ascii Bool Arith.
From PDV Require Import Lib.StrUtil Marshal.TypeStr.
Import ListNotations.
Open Scope string_scope.

(* nested induction over type references *)
Section TrInd.
  Variable P : tr -> Prop.
  Hypothesis step : forall o ty args, Forall P args -> P (TR o ty args).
  Fixpoint tr_ind' (r : tr) : P r :=
    match r with
    | TR o ty args => step o ty args ((fix go (l : list tr) : Forall P l :=
                                         match l with [] => Forall_nil P | a :: t => Forall_cons a (tr_ind' a) (go t) end) args)
    end.
End TrInd.

Definition generics (l : list string) : string := match l with [] => "" | _ => "<" ++ join ", " l ++ ">" end.

Lemma map_tr_generics f args :
  match args with [] => "" | _ => "<" ++ join ", " (map_tr f args) ++ ">" end = generics (map_tr f args).
Proof. destruct args; reflexivity. Qed.

Lemma map_tr_ext f g l : Forall (fun a => f a = g a) l -> map_tr f l = map_tr g l.
Proof. induction 1 as [|a t Ha _ IH]; cbn; [reflexivity|]. now rewrite Ha, IH. Qed.

(* ---------------- C++ ---------------- *)
Definition cpp_wrap (notnull : option string) (use_notnull opt : bool) (ty : tinfo) (argstrs : list string) : string :=
  let base := cpp_typename ty ++ generics argstrs in
  if is_interface ty then
    let sp := "std::shared_ptr<" ++ base ++ ">" in
    match notnull with Some nn => if use_notnull && negb opt then nn ++ "<" ++ sp ++ ">" else sp | None => sp end
  else if opt && negb (is_function ty) then "std::optional<" ++ base ++ ">" else base.

(* the type written for a reference is built from the strings of its arguments and the row of its head type only *)
Theorem cpp_compositional nn u o ty args :
  cpp_inner nn u (TR o ty args) = cpp_wrap nn u o ty (map_tr (cpp_inner nn false) args).
Proof.
  cbn [cpp_inner].
  change ((fix go (l : list tr) : list string := match l with [] => [] | a :: t => cpp_inner nn false a :: go t end) args)
    with (map_tr (cpp_inner nn false) args).
  unfold cpp_wrap. rewrite map_tr_generics. reflexivity.
Qed.

Theorem cpp_unique nn (F : bool -> tr -> string) :
  (forall u o ty args, F u (TR o ty args) = cpp_wrap nn u o ty (map_tr (F false) args)) ->
  forall r u, F u r = cpp_inner nn u r.
Proof.
  intros HF. induction r as [o ty args IH] using tr_ind'. intros u.
  rewrite HF, cpp_compositional. f_equal. apply map_tr_ext.
  apply Forall_forall. intros a Ha. rewrite Forall_forall in IH. apply (IH a Ha false).
Qed.

Theorem cpp_optional_wraps_once nn u ty args : is_interface ty = false -> is_function ty = false ->
  cpp_inner nn u (TR true ty args) = "std::optional<" ++ cpp_inner nn u (TR false ty args) ++ ">".
Proof. intros H1 H2. rewrite !cpp_compositional. unfold cpp_wrap. rewrite H1, H2. cbn [andb negb]. reflexivity. Qed.

Theorem cpp_interface_is_shared_ptr u o ty args : is_interface ty = true ->
  cpp_inner None u (TR o ty args) = "std::shared_ptr<" ++ (cpp_typename ty ++ generics (map_tr (cpp_inner None false) args)) ++ ">".
Proof. intros H. rewrite cpp_compositional. unfold cpp_wrap. now rewrite H. Qed.

Theorem cpp_parameter_by_reference nn u o ty args :
  cpp_spec nn true u (Some (TR o ty args)) =
  if cpp_by_value ty then cpp_inner nn u (TR o ty args) else "const " ++ cpp_inner nn u (TR o ty args) ++ " &".
Proof. unfold cpp_spec. destruct (cpp_by_value ty); reflexivity. Qed.

(* ---------------- Java ---------------- *)
Definition java_wrap (boxed opt : bool) (ty : tinfo) (argstrs : list string) : string :=
  (if boxed || opt then java_boxed ty else java_typename ty) ++ generics argstrs.

Theorem java_compositional b o ty args : java_type b (TR o ty args) = java_wrap b o ty (map_tr (java_type true) args).
Proof.
  cbn [java_type].
  change ((fix go (l : list tr) : list string := match l with [] => [] | a :: t => java_type true a :: go t end) args)
    with (map_tr (java_type true) args).
  unfold java_wrap. now rewrite map_tr_generics.
Qed.

Theorem java_unique (F : bool -> tr -> string) :
  (forall b o ty args, F b (TR o ty args) = java_wrap b o ty (map_tr (F true) args)) -> forall r b, F b r = java_type b r.
Proof.
  intros HF. induction r as [o ty args IH] using tr_ind'. intros b.
  rewrite HF, java_compositional. f_equal. apply map_tr_ext.
  apply Forall_forall. intros a Ha. rewrite Forall_forall in IH. apply (IH a Ha true).
Qed.

Theorem java_optional_is_boxed b ty args : java_type b (TR true ty args) = java_type true (TR false ty args).
Proof. rewrite !java_compositional. unfold java_wrap. now rewrite orb_true_r. Qed.

(* ---------------- Objective-C ---------------- *)
Definition objc_wrap (parameter boxed opt : bool) (ty : tinfo) (argstrs : list string) : string :=
  let tn0 := if boxed || opt then objc_boxed ty else objc_typename ty in
  let tn1 := if is_interface ty && parameter then "id<" ++ tn0 ++ ">" else tn0 in
  let pointer := if is_interface ty && parameter then false else objc_pointer ty in
  let tn2 := if is_function ty then replace_all "(^)" ("(^ " ++ (if opt then "_Nullable" else "_Nonnull") ++ ")") tn1 (S (String.length tn1)) else tn1 in
  tn2 ++ generics argstrs ++ (if pointer || boxed || (opt && negb (is_function ty)) then " *" else "").

Theorem objc_compositional p b o ty args : objc_decl p b (TR o ty args) = objc_wrap p b o ty (map_tr (objc_decl false true) args).
Proof.
  cbn [objc_decl].
  change ((fix go (l : list tr) : list string := match l with [] => [] | a :: t => objc_decl false true a :: go t end) args)
    with (map_tr (objc_decl false true) args).
  unfold objc_wrap. now rewrite map_tr_generics.
Qed.

Theorem objc_unique (F : bool -> bool -> tr -> string) :
  (forall p b o ty args, F p b (TR o ty args) = objc_wrap p b o ty (map_tr (F false true) args)) -> forall r p b, F p b r = objc_decl p b r.
Proof.
  intros HF. induction r as [o ty args IH] using tr_ind'. intros p b.
  rewrite HF, objc_compositional. f_equal. apply map_tr_ext.
  apply Forall_forall. intros a Ha. rewrite Forall_forall in IH. apply (IH a Ha false true).
Qed.

(* ---------------- C++/CLI ---------------- *)
Definition cli_wrap (opt : bool) (ty : tinfo) (argstrs : list string) : string :=
  (if opt && negb (cli_reference ty) then "System::Nullable<" ++ cli_typename ty ++ ">" else cli_typename ty) ++
  generics argstrs ++ (if cli_reference ty then "^" else "").

Theorem cli_compositional o ty args : cli_type (TR o ty args) = cli_wrap o ty (map_tr cli_type args).
Proof.
  cbn [cli_type].
  change ((fix go (l : list tr) : list string := match l with [] => [] | a :: t => cli_type a :: go t end) args) with (map_tr cli_type args).
  unfold cli_wrap. now rewrite map_tr_generics.
Qed.

Theorem cli_unique (F : tr -> string) :
  (forall o ty args, F (TR o ty args) = cli_wrap o ty (map_tr F args)) -> forall r, F r = cli_type r.
Proof.
  intros HF. induction r as [o ty args IH] using tr_ind'.
  rewrite HF, cli_compositional. f_equal. now apply map_tr_ext.
Qed.

Theorem cli_reference_types_ignore_optional ty args : cli_reference ty = true -> cli_type (TR true ty args) = cli_type (TR false ty args).
Proof. intros H. rewrite !cli_compositional. unfold cli_wrap. now rewrite H, andb_false_r. Qed.

(* ---------------- C++ method specifiers (finite) ---------------- *)
Theorem cpp_specifiers has_ret const noexcept static :
  let pre := prefix_specifiers has_ret const static false in
  let post := postfix_specifiers const noexcept static false in
  pre = (if has_ret && const then "[[nodiscard]] " else "") ++ (if static then "static " else "virtual ") /\
  post = (if const then " const" else "") ++ (if noexcept then " noexcept" else "") ++ (if static then "" else " = 0").
Proof. destruct has_ret, const, noexcept, static; split; reflexivity. Qed.

Definition contains (needle hay : string) : bool :=
  (fix go (h : string) (fuel : nat) : bool :=
     match fuel with
     | 0 => false
     | S f => if starts_with needle h then true else match h with EmptyString => false | String _ r => go r f end
     end) hay (S (String.length hay)).

Theorem cpp_specifiers_iff : forall has_ret const noexcept static : bool,
  let pre := prefix_specifiers has_ret const static false in
  let post := postfix_specifiers const noexcept static false in
  contains "static " pre = static /\ contains "virtual " pre = negb static /\ contains " = 0" post = negb static /\
  contains " const" post = const /\ contains " noexcept" post = noexcept /\ contains "[[nodiscard]]" pre = (has_ret && const).
Proof. intros [] [] [] []; vm_compute; repeat split; reflexivity. Qed.

(* a throwing function type always carries the NSError out-parameter as its last block parameter, a non-throwing one never *)
Theorem objc_block_error_parameter ret params :
  exists pre, objc_block_typename ret params false = (pre ++ "NSError* _Nullable * _Nonnull)")%string.
Proof.
  unfold objc_block_typename. set (l := map _ params).
  exists ((match ret with Some r => objc_decl false false r | None => "void" end) ++ " (^)(" ++ (match l with [] => "" | _ => join ", " l ++ ", " end))%string.
  destruct l as [|a l']; [cbn [app join]; now rewrite !app_assoc_s|].
  rewrite join_app_single by discriminate. now rewrite !app_assoc_s.
Qed.
