From Coq Require Import List String Ascii Bool Arith Lia.
From PDV Require Import Lib.StrUtil Lang.Jvm Marshal.Jni Gen.ExternalTypes.
Import ListNotations.
Open Scope string_scope.

(* ---------- descriptors ---------- *)
Lemma erase_generics_app b x : erase_generics (b ++ String "<"%char x) = erase_generics b.
Proof. induction b as [|c r IH]; cbn [append erase_generics]; [reflexivity|]. destruct (Ascii.eqb c "<"); [reflexivity | now rewrite IH]. Qed.

Lemma descriptor_generic b x : descriptor_of_src (b ++ "<" ++ x) = descriptor_of_src b.
Proof. unfold descriptor_of_src. change ("<" ++ x) with (String "<"%char x). now rewrite erase_generics_app. Qed.

Lemma erase_generics_id s : has_char "<"%char s = false -> erase_generics s = s.
Proof.
  induction s as [|c r IH]; cbn; [reflexivity|]. intros H. apply orb_false_iff in H as [Hc Hr].
  rewrite Hc. now rewrite IH.
Qed.

Lemma strip_array_none s : has_char "["%char s = false -> strip_array s = None.
Proof.
  induction s as [|c r IH]; [reflexivity|]. cbn [has_char]. intros H. apply orb_false_iff in H as [Hc Hr].
  cbn [strip_array]. rewrite (IH Hr).
  destruct (String.eqb (String c r) "[]") eqn:E; [|reflexivity].
  apply String.eqb_eq in E. injection E as -> _. discriminate Hc.
Qed.

Lemma prim_desc_dotted s : has_char "."%char s = true -> prim_desc s = None.
Proof.
  intros H. unfold prim_desc.
  repeat match goal with
         | |- context [String.eqb s ?k] => let E := fresh "E" in destruct (String.eqb s k) eqn:E;
             [apply String.eqb_eq in E; rewrite E in H; discriminate H|]
         end.
  reflexivity.
Qed.

Lemma dots_to_slashes_app a b : dots_to_slashes (a ++ b) = dots_to_slashes a ++ dots_to_slashes b.
Proof. induction a as [|c r IH]; cbn; [reflexivity | now rewrite IH]. Qed.
Lemma dots_to_slashes_nodot s : has_char "."%char s = false -> dots_to_slashes s = s.
Proof.
  induction s as [|c r IH]; cbn; [reflexivity|]. intros H. apply orb_false_iff in H as [Hc Hr]. rewrite Hc. now rewrite IH.
Qed.
Lemma dots_to_slashes_split s : dots_to_slashes s = join "/" (split_on "."%char s).
Proof.
  induction s as [|c r IH]; [reflexivity|]. cbn [dots_to_slashes split_on].
  destruct (Ascii.eqb c ".") eqn:E.
  - pose proof (split_on_nonempty "."%char r) as Hne. destruct (split_on "."%char r) as [|p ps] eqn:Es; [contradiction|].
    rewrite join_cons_cons. cbn [append]. now rewrite IH.
  - pose proof (split_on_nonempty "."%char r) as Hne. destruct (split_on "."%char r) as [|p ps] eqn:Es; [contradiction|].
    rewrite IH. destruct ps; reflexivity.
Qed.

(* the descriptor javac gives a declared class  pkg.Name  is L pkg/Name ;  - what jni/type.py computes from the same
   package and name (names are identifiers: no '.', '<', '[') *)
Definition plain (s : string) : bool := negb (has_char "."%char s) && negb (has_char "<"%char s) && negb (has_char "["%char s).
Definition plain_pkg (s : string) : bool := negb (has_char "<"%char s) && negb (has_char "["%char s).

Theorem decl_descriptor pkg name : plain_pkg pkg = true -> plain name = true ->
  descriptor_of_src (decl_java_typename pkg name) = decl_type_signature pkg name.
Proof.
  unfold plain_pkg, plain, decl_java_typename, decl_type_signature, class_descriptor.
  intros Hp Hn. apply andb_true_iff in Hp as [Hp1 Hp2]. apply andb_true_iff in Hn as [Hn Hn3]. apply andb_true_iff in Hn as [Hn1 Hn2].
  apply negb_true_iff in Hp1, Hp2, Hn1, Hn2, Hn3.
  unfold descriptor_of_src.
  assert (Hlt : has_char "<"%char (pkg ++ "." ++ name) = false) by (rewrite !has_char_app, Hp1, Hn2; reflexivity).
  assert (Hbr : has_char "["%char (pkg ++ "." ++ name) = false) by (rewrite !has_char_app, Hp2, Hn3; reflexivity).
  assert (Hdot : has_char "."%char (pkg ++ "." ++ name) = true) by (rewrite !has_char_app; cbn; now rewrite orb_true_r).
  rewrite (erase_generics_id _ Hlt), (strip_array_none _ Hbr).
  unfold elem_descriptor. rewrite (prim_desc_dotted _ Hdot). unfold class_internal_name. rewrite Hdot.
  f_equal. f_equal.
  rewrite !dots_to_slashes_app. cbn [dots_to_slashes Ascii.eqb Bool.eqb append]. rewrite (dots_to_slashes_nodot _ Hn1).
  rewrite dots_to_slashes_split. rewrite join_app_single by apply split_on_nonempty. reflexivity.
Qed.

(* flags: Java declares java.util.EnumSet<pkg.Name> *)
Lemma flags_descriptor x : descriptor_of_src ("java.util.EnumSet" ++ "<" ++ x) = "Ljava/util/EnumSet;".
Proof. now rewrite descriptor_generic. Qed.

(* the two generators agree on a type *)
Definition agrees (t : tyinfo) : Prop :=
  descriptor_of_src (ti_java t) = ti_sig t /\ descriptor_of_src (ti_java_boxed t) = ti_boxed_sig t.
Definition agreesb (t : tyinfo) : bool :=
  String.eqb (descriptor_of_src (ti_java t)) (ti_sig t) && String.eqb (descriptor_of_src (ti_java_boxed t)) (ti_boxed_sig t).
Lemma agreesb_ok t : agreesb t = true -> agrees t.
Proof. unfold agreesb, agrees. intros H. apply andb_true_iff in H as [H1 H2]. now apply String.eqb_eq in H1, H2. Qed.

Lemma data_type_descriptor b r : agrees (tr_ty r) ->
  descriptor_of_src (data_type b r) = if b || tr_opt r then ti_boxed_sig (tr_ty r) else ti_sig (tr_ty r).
Proof.
  destruct r as [opt ty args]. cbn [tr_ty tr_opt]. intros [H1 H2].
  cbn [data_type]. destruct args as [|a args'].
  - rewrite app_nil_r_s. destruct (b || opt); assumption.
  - rewrite descriptor_generic. destruct (b || opt); assumption.
Qed.

Lemma concat_sigs params : Forall (fun r => agrees (tr_ty r)) params ->
  concat "" (map ref_sig params) = concat "" (map descriptor_of_src (map (data_type false) params)).
Proof.
  induction 1 as [|r l Hr _ IH]; [reflexivity|]. cbn [map concat].
  destruct l as [|r2 l2].
  - cbn [map concat]. rewrite (data_type_descriptor false r Hr). reflexivity.
  - cbn [map] in *. cbn [concat] in *. rewrite IH. rewrite (data_type_descriptor false r Hr). reflexivity.
Qed.

(* every method / constructor lookup: the signature string the JNI side passes = the descriptor of the Java member as
   the Java side declares it, for ANY parameter list, optional or not, generic or not, asynchronous or not *)
Theorem method_signature_agrees params ret async :
  Forall (fun r => agrees (tr_ty r)) params -> (forall r, ret = Some r -> agrees (tr_ty r)) ->
  type_signature params ret async = method_descriptor (map (data_type false) params) (return_type ret async).
Proof.
  intros Hp Hr. unfold type_signature, method_descriptor. rewrite (concat_sigs params Hp). f_equal. f_equal. f_equal.
  unfold return_type. destruct async.
  - now rewrite descriptor_generic.
  - destruct ret as [r|]; [|reflexivity]. rewrite (data_type_descriptor false r (Hr r eq_refl)). reflexivity.
Qed.

(* field lookups *)
Theorem field_signature_agrees r : agrees (tr_ty r) -> ref_sig r = descriptor_of_src (data_type false r).
Proof. intros H. now rewrite (data_type_descriptor false r H). Qed.

(* ---------- built-in table (regenerated from /repo) ---------- *)
Definition attr (g a : string) (row : list (string * list (string * string))) : string :=
  match find (fun p => String.eqb (fst p) g) row with
  | Some (_, attrs) => match find (fun p => String.eqb (fst p) a) attrs with Some (_, v) => v | None => "" end
  | None => ""
  end.
Definition builtin_info (row : list (string * list (string * string))) : tyinfo :=
  mktyinfo (attr "jni" "type_signature" row) (attr "jni" "boxed_type_signature" row) (attr "jni" "typename" row)
           (attr "java" "typename" row) (attr "java" "boxed" row).
Definition builtin_infos : list tyinfo := map (fun p => builtin_info (snd p)) builtin_attrs.

Theorem builtins_agree : Forall agrees builtin_infos.
Proof.
  apply Forall_forall. intros t Hin. apply agreesb_ok.
  assert (H : forallb agreesb builtin_infos = true) by (vm_compute; reflexivity).
  rewrite forallb_forall in H. now apply H.
Qed.

(* ---------- C types of native prototypes ---------- *)
Definition native_agrees (t : tyinfo) : bool :=
  ctype_ok (ti_native t) (ti_sig t) && ctype_ok (if is_array_like (ti_native t) then ti_native t else "jobject") (ti_boxed_sig t).

Theorem native_param_ctype r : native_agrees (tr_ty r) = true -> ctype_ok (get_typename r) (ref_sig r) = true.
Proof.
  unfold native_agrees, get_typename, ref_sig. intros H. apply andb_true_iff in H as [H1 H2].
  destruct (tr_opt r); cbn [andb]; [|exact H1].
  destruct (is_array_like (ti_native (tr_ty r))); exact H2.
Qed.

Theorem builtins_native_agree : forallb native_agrees builtin_infos = true.
Proof. vm_compute. reflexivity. Qed.

Lemma ctype_of_class x : ctype_ok "jobject" ("L" ++ x) = true.
Proof.
  unfold ctype_ok, ctype_of. cbn [append String.eqb Ascii.eqb Bool.eqb].
  destruct (String.eqb _ _); reflexivity.
Qed.

Theorem decl_native_agrees pkg name jt jb :
  native_agrees (mktyinfo (decl_type_signature pkg name) (decl_type_signature pkg name) "jobject" jt jb) = true.
Proof.
  unfold native_agrees, decl_type_signature. cbn [ti_native ti_sig ti_boxed_sig is_array_like String.eqb Ascii.eqb Bool.eqb orb].
  now rewrite ctype_of_class.
Qed.

(* ---------- native symbol names ---------- *)
Definition alnum (c : ascii) : bool :=
  let n := nat_of_ascii c in (Nat.leb 48 n && Nat.leb n 57) || (Nat.leb 65 n && Nat.leb n 90) || (Nat.leb 97 n && Nat.leb n 122).
Fixpoint all_chars (p : ascii -> bool) (s : string) : bool := match s with EmptyString => true | String c r => p c && all_chars p r end.
Definition jident (s : string) : bool := all_chars (fun c => alnum c || Ascii.eqb c "_"%char || Ascii.eqb c "$"%char) s.
Definition jmethod (s : string) : bool := all_chars (fun c => alnum c || Ascii.eqb c "_"%char) s.

Lemma replace1_app c rep a b : replace1 c rep (a ++ b) = replace1 c rep a ++ replace1 c rep b.
Proof. induction a as [|x r IH]; cbn; [reflexivity|]. now rewrite IH, app_assoc_s. Qed.
Lemma mangle_app a b : mangle (a ++ b) = mangle a ++ mangle b.
Proof. induction a as [|x r IH]; cbn; [reflexivity|]. now rewrite IH, app_assoc_s. Qed.

Lemma alnum_mangle c : alnum c = true -> mangle_char c = String c "" /\ Ascii.eqb c "_" = false /\ Ascii.eqb c "$" = false.
Proof.
  intros H. unfold mangle_char.
  assert (Hne : forall k, alnum k = false -> Ascii.eqb c k = false).
  { intros k Hk. destruct (Ascii.eqb c k) eqn:E; [|reflexivity]. apply Ascii.eqb_eq in E. subst. congruence. }
  rewrite (Hne "/"%char), (Hne "."%char), (Hne "_"%char), (Hne ";"%char), (Hne "["%char), (Hne "$"%char) by reflexivity.
  repeat split; reflexivity.
Qed.

Lemma seg_mangle_mangle s : jident s = true -> seg_mangle s = mangle s.
Proof.
  unfold seg_mangle. induction s as [|c r IH]; [reflexivity|]. cbn [jident all_chars]. intros H.
  apply andb_true_iff in H as [Hc Hr]. cbn [replace1 mangle]. rewrite replace1_app. rewrite (IH Hr). f_equal.
  destruct (alnum c) eqn:Ea.
  - destruct (alnum_mangle c Ea) as (-> & -> & E2). cbn [replace1]. rewrite E2. reflexivity.
  - cbn [orb] in Hc. destruct (Ascii.eqb c "_") eqn:E1.
    + apply Ascii.eqb_eq in E1. subst c. reflexivity.
    + cbn [orb] in Hc. apply Ascii.eqb_eq in Hc. subst c. reflexivity.
Qed.

Lemma method_mangle s : jmethod s = true -> replace1 "_"%char "_1" s = mangle s.
Proof.
  induction s as [|c r IH]; [reflexivity|]. cbn [jmethod all_chars]. intros H.
  apply andb_true_iff in H as [Hc Hr]. cbn [replace1 mangle]. rewrite (IH Hr). f_equal.
  destruct (alnum c) eqn:Ea.
  - destruct (alnum_mangle c Ea) as (-> & -> & _). reflexivity.
  - cbn [orb] in Hc. apply Ascii.eqb_eq in Hc. subst c. reflexivity.
Qed.

Lemma mangle_join segs : mangle (join "/" segs) = join "_" (map mangle segs).
Proof.
  induction segs as [|a l IH]; [reflexivity|]. destruct l as [|b l'].
  - reflexivity.
  - rewrite join_cons_cons. cbn [map]. rewrite join_cons_cons. rewrite !mangle_app, IH. reflexivity.
Qed.

Theorem jni_prefix_is_mangled segs : segs <> [] -> Forall (fun s => jident s = true) segs ->
  jni_prefix segs = "Java_" ++ mangle (join "/" segs).
Proof.
  intros Hne HF. unfold jni_prefix. rewrite mangle_join.
  assert (E : map seg_mangle segs = map mangle segs).
  { induction HF as [|x l Hx _ IH]; [reflexivity|]. cbn [map]. rewrite (seg_mangle_mangle x Hx).
    destruct l; [reflexivity|]. now rewrite IH by discriminate. }
  rewrite E. destruct segs as [|a l]; [contradiction|]. reflexivity.
Qed.

(* the symbol exported for a method of <pkg>.<Name>$CppProxy is the JNI short name of that native method *)
Theorem proxy_symbol_is_jni_name pkg name static method :
  Forall (fun s => jident s = true) (split_on "."%char pkg ++ [name])%list -> jmethod method = true ->
  proxy_symbol pkg name static method =
  native_symbol (join "/" (split_on "."%char pkg ++ [name])%list ++ "$CppProxy") ((if static then "" else "native_") ++ method).
Proof.
  intros HF Hm. unfold proxy_symbol, decl_jni_prefix, native_symbol.
  rewrite jni_prefix_is_mangled; [|destruct (split_on "."%char pkg); discriminate | exact HF].
  rewrite !mangle_app. rewrite (method_mangle _ Hm). destruct static; cbn [mangle mangle_char append Ascii.eqb Bool.eqb orb]; now rewrite !app_assoc_s.
Qed.

(* REFUTED without escaping: what the template printed before fix (method name pasted verbatim) *)
Example unescaped_method_name_refuted :
  ("native_1" ++ "do_it")%string <> mangle ("native_" ++ "do_it").
Proof. vm_compute. discriminate. Qed.
