(* Relative output file names of the per-declaration files of each generator (the `header` / `source` properties of
   generator/*/*/type.py and yaml's generator), parameterised by the identifier styles / extensions of the configuration. *)
From Coq Require Import List String Ascii Bool Arith.
From PDV Require Import Lib.StrUtil Marshal.Ident.
Import ListNotations.
Open Scope string_scope. Open Scope list_scope.

Definition istyle := (style * option string)%type.          (* IdentifierStyle: case + optional prefix *)
Definition conv (st : istyle) (s : string) : string := convert (fst st) (snd st) s.

Definition pjoin_rel (segs : list string) : string := join "/" segs.

(* cpp / cppcli: PurePosixPath(namespace...) / f"{name.convert(file)}.{ext}" *)
Definition ns_file (file : istyle) (ext : string) (ns : list string) (name : string) : string :=
  pjoin_rel (ns ++ [(conv file name ++ "." ++ ext)%string]).

(* jni: PurePosixPath(f"{name.convert(file)}.{ext}") - the namespace is not part of the name *)
Definition flat_file (file : istyle) (ext : string) (ns : list string) (name : string) : string :=
  (conv file name ++ "." ++ ext)%string.

(* java: package segments + converted namespace, then the converted type name *)
Definition java_file (package : list string) (pkg ty : istyle) (ns : list string) (name : string) : string :=
  pjoin_rel (package ++ map (conv pkg) ns ++ [(conv ty name ++ ".java")%string]).

(* objc: type_prefix + convert(type, '_'.join(namespace)) + convert(type, name) *)
Definition objc_name (prefix : string) (ty : istyle) (ns : list string) (name : string) : string :=
  (prefix ++ conv ty (join "_" ns) ++ conv ty name)%string.
Definition objc_file (prefix : string) (ty : istyle) (ext : string) (ns : list string) (name : string) : string :=
  (objc_name prefix ty ns name ++ "." ++ ext)%string.

(* objcpp: f"{name}+Private.{ext}" with name = decl.name.convert(pascal) *)
Definition objcpp_file (ext : string) (ns : list string) (name : string) : string :=
  (convert SPascal None name ++ "+Private." ++ ext)%string.

(* yaml: f"{type_def.name}.yaml" *)
Definition yaml_file (ns : list string) (name : string) : string := (name ++ ".yaml")%string.
