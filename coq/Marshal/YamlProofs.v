From Coq Require Import List String Ascii Bool Arith.
From PDV Require Import Lib.StrUtil Marshal.Yaml Jinja.Tir Gen.Templates Gen.ExternalTypes Gen.TypeDefReads.
Import ListNotations.
Open Scope string_scope. Open Scope list_scope.

Lemma targets_back ts : forallb (fun t : string * list (string * scalar) => negb (mem (fst t) base_keys)) ts = true ->
  flat_map (fun kv : string * ynode => match snd kv with YMap m => if mem (fst kv) base_keys then [] else [(fst kv, m)] | _ => [] end)
           (map (fun t => (fst t, YMap (snd t))) ts) = ts.
Proof.
  induction ts as [|[g m] r IH]; [reflexivity|]. cbn [forallb map flat_map fst snd]. intros H. apply andb_true_iff in H as [H1 H2].
  apply negb_true_iff in H1. rewrite H1. cbn [app]. now rewrite IH.
Qed.

(* whatever is exported loads back to the same type record: name, namespace, kind, parameters, deprecation, comment and every
   per-generator field *)
Theorem import_export e : wf e = true -> import (export e) = Some e.
Proof.
  destruct e as [n ns p ps dep c ts]. unfold wf, export, import. cbn [e_name e_namespace e_primitive e_params e_deprecated e_comment e_targets].
  intros H. destruct c as [c|].
  - cbn [app lookup String.eqb Ascii.eqb Bool.eqb flat_map fst snd]. rewrite (targets_back ts H). reflexivity.
  - cbn [app lookup String.eqb Ascii.eqb Bool.eqb flat_map fst snd].
    assert (L : lookup "comment" (map (fun t : string * list (string * scalar) => (fst t, YMap (snd t))) ts) = None).
    { clear - H. induction ts as [|[g m] r IH]; [reflexivity|]. cbn [forallb fst] in H. apply andb_true_iff in H as [H1 H2].
      cbn [map lookup fst snd]. destruct (String.eqb "comment" g) eqn:E.
      - apply String.eqb_eq in E. subst g. discriminate H1.
      - now apply IH. }
    rewrite L. rewrite (targets_back ts H). reflexivity.
Qed.

(* ---- what dependants read through a type reference ---- *)
(* attribute chains  X.type_def.<gen>.<attr>  in the translated templates (X is anything: field.type_ref, parameter.type_ref, a loop variable) *)
Definition gens : list string := ["cpp"; "java"; "jni"; "objc"; "objcpp"; "cppcli"].
Fixpoint expr_reads (e : expr) {struct e} : list (string * string) :=
  let go := (fix go (l : list expr) : list (string * string) := match l with [] => [] | x :: r => expr_reads x ++ go r end) in
  let gokw := (fix gokw (l : list (string * expr)) : list (string * string) := match l with [] => [] | (_, x) :: r => expr_reads x ++ gokw r end) in
  match e with
  | EAttr (EAttr (EAttr x "type_def") g) a => (if mem g gens then [(g, a)] else []) ++ expr_reads x
  | EAttr x _ => expr_reads x
  | EItem a b => expr_reads a ++ expr_reads b
  | EConcat l | EListLit l => go l
  | ECond c t f => expr_reads c ++ expr_reads t ++ match f with Some x => expr_reads x | None => [] end
  | ENot x => expr_reads x
  | EAnd a b | EOr a b | ECmp _ a b | EBin _ a b => expr_reads a ++ expr_reads b
  | EFilter _ x args kw => expr_reads x ++ go args ++ gokw kw
  | ETest _ x args => expr_reads x ++ go args
  | ECall f args kw => expr_reads f ++ go args ++ gokw kw
  | _ => []
  end.
Fixpoint stmt_reads (s : stmt) {struct s} : list (string * string) :=
  let go := (fix go (l : list stmt) : list (string * string) := match l with [] => [] | x :: r => stmt_reads x ++ go r end) in
  match s with
  | SOut l => flat_map expr_reads l
  | SIf c t elifs f => expr_reads c ++ go t ++
                       (fix ge (l : list (expr * list stmt)) : list (string * string) := match l with [] => [] | (c', b) :: r => expr_reads c' ++ go b ++ ge r end) elifs ++ go f
  | SFor _ it test body => expr_reads it ++ match test with Some t => expr_reads t | None => [] end ++ go body
  | SSet _ e | SSetNs _ _ e => expr_reads e
  | SCallBlock c body => expr_reads c ++ go body
  | SBlock _ body | SMacro _ _ _ body => go body
  | _ => []
  end.
Definition template_reads : list (string * string) := flat_map (fun t : string * string * list stmt => flat_map stmt_reads (snd t)) all_templates.

(* the exported fields of a generator = the fields of its external-type model (the rows of the built-in table list them all) *)
Definition exported (g a : string) : bool :=
  match builtin_attrs with
  | (_, row) :: _ => match find (fun p => String.eqb (fst p) g) row with Some (_, attrs) => mem a (map fst attrs) | None => false end
  | [] => false
  end.

(* variables bound to a referenced type definition:  {% set v = X.type_def %}  and what is then read from them *)
Fixpoint stmt_aliases (s : stmt) {struct s} : list string :=
  let go := (fix go (l : list stmt) : list string := match l with [] => [] | x :: r => stmt_aliases x ++ go r end) in
  match s with
  | SSet v (EAttr _ "type_def") => [v]
  | SIf _ t elifs f => go t ++ (fix ge (l : list (expr * list stmt)) : list string := match l with [] => [] | (_, b) :: r => go b ++ ge r end) elifs ++ go f
  | SFor _ _ _ body | SCallBlock _ body | SBlock _ body | SMacro _ _ _ body => go body
  | _ => []
  end.
Section Alias.
  Variable vars : list string.
  Fixpoint expr_alias_reads (e : expr) {struct e} : list (string * string) :=
    let go := (fix go (l : list expr) : list (string * string) := match l with [] => [] | x :: r => expr_alias_reads x ++ go r end) in
    let gokw := (fix gokw (l : list (string * expr)) : list (string * string) := match l with [] => [] | (_, x) :: r => expr_alias_reads x ++ gokw r end) in
    match e with
    | EAttr (EAttr (EVar v) g) a => if mem v vars then (if mem g gens then [(g, a)] else [("", g)]) else []
    | EAttr (EVar v) a => if mem v vars then (if mem a gens then [] else [("", a)]) else []
    | EAttr x _ => expr_alias_reads x
    | EItem a b => expr_alias_reads a ++ expr_alias_reads b
    | EConcat l | EListLit l => go l
    | ECond c t f => expr_alias_reads c ++ expr_alias_reads t ++ match f with Some x => expr_alias_reads x | None => [] end
    | ENot x => expr_alias_reads x
    | EAnd a b | EOr a b | ECmp _ a b | EBin _ a b => expr_alias_reads a ++ expr_alias_reads b
    | EFilter _ x args kw => expr_alias_reads x ++ go args ++ gokw kw
    | ETest _ x args => expr_alias_reads x ++ go args
    | ECall f args kw => expr_alias_reads f ++ go args ++ gokw kw
    | _ => []
    end.
  Fixpoint stmt_alias_reads (s : stmt) {struct s} : list (string * string) :=
    let go := (fix go (l : list stmt) : list (string * string) := match l with [] => [] | x :: r => stmt_alias_reads x ++ go r end) in
    match s with
    | SOut l => flat_map expr_alias_reads l
    | SIf c t elifs f => expr_alias_reads c ++ go t ++
                         (fix ge (l : list (expr * list stmt)) : list (string * string) := match l with [] => [] | (c', b) :: r => expr_alias_reads c' ++ go b ++ ge r end) elifs ++ go f
    | SFor _ it test body => expr_alias_reads it ++ match test with Some t => expr_alias_reads t | None => [] end ++ go body
    | SSet _ e | SSetNs _ _ e => expr_alias_reads e
    | SCallBlock c body => expr_alias_reads c ++ go body
    | SBlock _ body | SMacro _ _ _ body => go body
    | _ => []
    end.
End Alias.
Definition template_alias_reads : list (string * string) :=
  flat_map (fun t : string * string * list stmt =>
              let vars := flat_map stmt_aliases (snd t) in flat_map (stmt_alias_reads vars) (snd t)) all_templates.
Definition base_exported (a : string) : bool := mem a base_keys.
Fixpoint dedup (l : list (string * string)) : list (string * string) :=
  match l with [] => [] | x :: r => if existsb (fun y => String.eqb (fst x) (fst y) && String.eqb (snd x) (snd y)) r then dedup r else x :: dedup r end.
Definition unexported_reads : list (string * string) :=
  filter (fun p => negb (if String.eqb (fst p) "" then base_exported (snd p) else exported (fst p) (snd p)))
         (dedup (template_reads ++ template_alias_reads)).
