From Coq Require Import List String Ascii Bool Arith Lia.
From PDV Require Import Lib.StrUtil Marshal.Ident.
Import ListNotations.
Open Scope string_scope. Open Scope list_scope.

(* join after split is the identity *)
Lemma join_split_id c s : join (String c "") (split_on c s) = s.
Proof.
  induction s as [|a s IH]; [reflexivity|]. cbn [split_on].
  destruct (Ascii.eqb_spec a c) as [->|Hne].
  - destruct (split_on c s) as [|p ps] eqn:E; [exfalso; now apply (split_on_nonempty c s)|].
    rewrite join_cons_cons, IH. reflexivity.
  - destruct (split_on c s) as [|p ps] eqn:E; [exfalso; now apply (split_on_nonempty c s)|].
    destruct ps as [|q qs].
    + cbn in IH. cbn. now rewrite IH.
    + rewrite join_cons_cons in IH. rewrite join_cons_cons, <- IH. reflexivity.
Qed.

(* a per-character map that fixes the separator and never produces it commutes with split *)
Lemma split_smap f c s :
  f c = c -> (forall a, a <> c -> f a <> c) ->
  split_on c (smap f s) = map (smap f) (split_on c s).
Proof.
  intros Hc Hn. induction s as [|a s IH]; [reflexivity|]. cbn [smap split_on].
  destruct (Ascii.eqb_spec a c) as [->|Hne].
  - rewrite Hc, Ascii.eqb_refl, IH. reflexivity.
  - destruct (Ascii.eqb_spec (f a) c) as [E|_]; [exfalso; now apply (Hn a Hne)|].
    rewrite IH. destruct (split_on c s); reflexivity.
Qed.

Lemma lower_a_us : lower_a us = us. Proof. reflexivity. Qed.
Lemma upper_a_us : upper_a us = us. Proof. reflexivity. Qed.

Lemma all_ascii (P : ascii -> Prop) : (forall n, n < 256 -> P (ascii_of_nat n)) -> forall a, P a.
Proof. intros H a. rewrite <- (ascii_nat_embedding a). apply H. apply nat_ascii_bounded. Qed.

Lemma lower_a_not_us a : a <> us -> lower_a a <> us.
Proof.
  unfold lower_a. destruct (is_upper a) eqn:E; [|auto]. intros _ H.
  unfold is_upper in E. apply andb_true_iff in E as [E1 E2]. apply Nat.leb_le in E1, E2.
  apply (f_equal nat_of_ascii) in H. rewrite nat_ascii_embedding in H by lia. cbn in H. lia.
Qed.

Lemma upper_a_not_us a : a <> us -> upper_a a <> us.
Proof.
  unfold upper_a. destruct (is_lower a) eqn:E; [|auto]. intros _ H.
  unfold is_lower in E. apply andb_true_iff in E as [E1 E2]. apply Nat.leb_le in E1, E2.
  apply (f_equal nat_of_ascii) in H. rewrite nat_ascii_embedding in H by lia. cbn in H. lia.
Qed.

Lemma join_map_smap f sep l : smap f sep = sep -> join sep (map (smap f) l) = smap f (join sep l).
Proof.
  intros Hs. assert (Happ : forall a b, smap f (a ++ b) = (smap f a ++ smap f b)%string).
  { induction a as [|x a IHa]; intros b; cbn; [reflexivity | now rewrite IHa]. }
  induction l as [|x l IH]; [reflexivity|]. destruct l as [|y l']; [reflexivity|].
  cbn [map]. rewrite !join_cons_cons. cbn [map] in IH. rewrite IH, !Happ, Hs. reflexivity.
Qed.

(* C02: snake_case is the lower-cased identifier, TRAIN_CASE the upper-cased one, 'none' leaves it alone *)
Theorem convert_snake s : convert SSnake None s = lower s.
Proof.
  unfold convert. destruct (split_on us s) as [|t rest] eqn:E; [exfalso; now apply (split_on_nonempty us s)|].
  change (convert_token SSnake true t :: map (convert_token SSnake false) rest) with (map (smap lower_a) (t :: rest)).
  rewrite <- E. cbn [link]. change "_" with (String us ""). rewrite join_map_smap by reflexivity.
  rewrite join_split_id. reflexivity.
Qed.

Theorem convert_train s : convert STrain None s = upper s.
Proof.
  unfold convert. destruct (split_on us s) as [|t rest] eqn:E; [exfalso; now apply (split_on_nonempty us s)|].
  change (convert_token STrain true t :: map (convert_token STrain false) rest) with (map (smap upper_a) (t :: rest)).
  rewrite <- E. cbn [link]. change "_" with (String us ""). rewrite join_map_smap by reflexivity.
  rewrite join_split_id. reflexivity.
Qed.

Theorem convert_none p s : convert SNone p s = match p with Some q => (q ++ s)%string | None => s end.
Proof. reflexivity. Qed.

(* kebab-case: the lower-cased identifier with every '_' replaced by '-' *)
Definition us_to_dash (a : ascii) : ascii := if Ascii.eqb a us then "-"%char else a.
Lemma join_dash_split s : join "-" (split_on us s) = smap us_to_dash s.
Proof.
  induction s as [|a s IH]; [reflexivity|]. cbn [split_on smap]. unfold us_to_dash at 1.
  destruct (Ascii.eqb_spec a us) as [->|Hne].
  - destruct (split_on us s) as [|p ps] eqn:E; [exfalso; now apply (split_on_nonempty us s)|].
    rewrite join_cons_cons, IH. reflexivity.
  - destruct (split_on us s) as [|p ps] eqn:E; [exfalso; now apply (split_on_nonempty us s)|].
    destruct ps as [|q qs].
    + cbn in IH. cbn. now rewrite IH.
    + rewrite join_cons_cons in IH. rewrite join_cons_cons, <- IH. reflexivity.
Qed.

Theorem convert_kebab s : convert SKebab None s = smap us_to_dash (lower s).
Proof.
  unfold convert. destruct (split_on us s) as [|t rest] eqn:E; [exfalso; now apply (split_on_nonempty us s)|].
  change (convert_token SKebab true t :: map (convert_token SKebab false) rest) with (map (smap lower_a) (t :: rest)).
  rewrite <- E. cbn [link].
  rewrite <- (split_smap lower_a us s lower_a_us lower_a_not_us). apply join_dash_split.
Qed.

(* PascalCase / camelCase: the capitalised words glued together, the first word lower-cased for camel *)
Theorem convert_pascal s : convert SPascal None s = join "" (map capitalize (split_on us s)).
Proof.
  unfold convert. destruct (split_on us s) as [|t rest] eqn:E; [exfalso; now apply (split_on_nonempty us s)|]. reflexivity.
Qed.

Theorem convert_camel s :
  convert SCamel None s = match split_on us s with
                          | t :: rest => join "" (lower t :: map capitalize rest)
                          | [] => ""
                          end.
Proof. unfold convert. destruct (split_on us s); reflexivity. Qed.

(* the separator discipline: PascalCase and camelCase output contains no '_' *)
Lemma has_char_smap_lower s : has_char us s = false -> has_char us (lower s) = false.
Proof.
  induction s as [|a s IH]; [reflexivity|]. intros H. cbn [has_char] in H. apply orb_false_iff in H as [Ha Hs].
  change (has_char us (lower (String a s))) with (Ascii.eqb (lower_a a) us || has_char us (lower s)).
  rewrite (IH Hs), orb_false_r. destruct (Ascii.eqb_spec (lower_a a) us) as [E|]; [|reflexivity].
  exfalso. apply (lower_a_not_us a); [|exact E]. intros ->. now rewrite Ascii.eqb_refl in Ha.
Qed.

Lemma has_char_capitalize s : has_char us s = false -> has_char us (capitalize s) = false.
Proof.
  destruct s as [|a s]; [reflexivity|]. intros H. cbn [has_char] in H. apply orb_false_iff in H as [Ha Hs].
  change (has_char us (capitalize (String a s))) with (Ascii.eqb (upper_a a) us || has_char us (lower s)).
  rewrite (has_char_smap_lower s Hs), orb_false_r. destruct (Ascii.eqb_spec (upper_a a) us) as [E|]; [|reflexivity].
  exfalso. apply (upper_a_not_us a); [|exact E]. intros ->. now rewrite Ascii.eqb_refl in Ha.
Qed.

Lemma split_pieces_free c s : Forall (fun p => has_char c p = false) (split_on c s).
Proof.
  induction s as [|a s IH]; cbn [split_on]; [repeat constructor|].
  destruct (Ascii.eqb_spec a c) as [->|Hne]; [constructor; [reflexivity | exact IH]|].
  destruct (split_on c s) as [|p ps]; [repeat constructor; cbn; destruct (Ascii.eqb_spec a c); [contradiction | reflexivity]|].
  inversion IH; subst. constructor; [|assumption]. cbn. destruct (Ascii.eqb_spec a c); [contradiction | assumption].
Qed.

Lemma has_char_join_empty c l : Forall (fun p => has_char c p = false) l -> has_char c (join "" l) = false.
Proof.
  induction l as [|x l IH]; intros H; [reflexivity|]. inversion H; subst. destruct l as [|y l']; [assumption|].
  rewrite join_cons_cons. cbn [append]. rewrite has_char_app. rewrite H2. cbn. now apply IH.
Qed.

Theorem convert_pascal_no_underscore s : has_char us (convert SPascal None s) = false.
Proof.
  rewrite convert_pascal. apply has_char_join_empty.
  pose proof (split_pieces_free us s) as H. induction H; cbn; constructor; [now apply has_char_capitalize | assumption].
Qed.
