(* Model of src/pydjinni/parser/identifier.py: IdentifierType.convert for the six identifier styles (ASCII). *)
From Coq Require Import List String Ascii Bool Arith.
From PDV Require Import Lib.StrUtil.
Import ListNotations.
Open Scope string_scope. Open Scope list_scope.

Inductive style := SNone | SCamel | SPascal | SSnake | SKebab | STrain.

Definition is_upper (a : ascii) : bool := let n := nat_of_ascii a in Nat.leb 65 n && Nat.leb n 90.
Definition is_lower (a : ascii) : bool := let n := nat_of_ascii a in Nat.leb 97 n && Nat.leb n 122.
Definition is_digit (a : ascii) : bool := let n := nat_of_ascii a in Nat.leb 48 n && Nat.leb n 57.
Definition lower_a (a : ascii) : ascii := if is_upper a then ascii_of_nat (nat_of_ascii a + 32) else a.
Definition upper_a (a : ascii) : ascii := if is_lower a then ascii_of_nat (nat_of_ascii a - 32) else a.

Fixpoint smap (f : ascii -> ascii) (s : string) : string :=
  match s with EmptyString => "" | String a r => String (f a) (smap f r) end.
Definition lower (s : string) : string := smap lower_a s.        (* str.lower() *)
Definition upper (s : string) : string := smap upper_a s.        (* str.upper() *)
Definition capitalize (s : string) : string :=                   (* str.capitalize() *)
  match s with EmptyString => "" | String a r => String (upper_a a) (lower r) end.

Definition us : ascii := "_"%char.

Definition convert_token (st : style) (first : bool) (tok : string) : string :=
  match st, first with
  | SCamel, true | SSnake, _ | SKebab, _ => lower tok
  | SCamel, false | SPascal, _ => capitalize tok
  | STrain, _ => upper tok
  | SNone, _ => tok
  end.

Definition link (st : style) : string :=
  match st with STrain | SSnake => "_" | SKebab => "-" | _ => "" end.

(* convert(style) with an optional prefix *)
Definition convert (st : style) (prefix : option string) (s : string) : string :=
  let tokens := match st with SNone => [s] | _ => split_on us s end in
  let out := match tokens with
             | [] => ""
             | t :: rest => join (link st) (convert_token st true t :: map (convert_token st false) rest)
             end in
  match prefix with Some p => (p ++ out)%string | None => out end.

(* str.title() as JavaFunction.name uses it for anonymous functions: every letter after a non-letter is upper-cased *)
Definition is_alpha (a : ascii) : bool := is_upper a || is_lower a.
Fixpoint title_aux (prev_alpha : bool) (s : string) : string :=
  match s with
  | EmptyString => ""
  | String a r => String (if prev_alpha then lower_a a else upper_a a) (title_aux (is_alpha a) r)
  end.
Definition title (s : string) : string := title_aux false s.
