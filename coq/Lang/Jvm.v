(* JVM / JNI specification fragments the generated code must agree with:
   - the field descriptor of a Java source type as javac computes it (JVMS 4.3.2; generics erased, java.lang implicit),
   - the method descriptor (JVMS 4.3.3),
   - the short native-method name of the JNI specification ("Resolving Native Method Names"),
   - the C type of a native-method parameter/result (JNI "Primitive Types" / "Reference Types"). *)
From Coq Require Import List String Ascii Bool Arith.
From PDV Require Import Lib.StrUtil.
Import ListNotations.
Open Scope string_scope.

Definition prim_desc (s : string) : option string :=
  if String.eqb s "boolean" then Some "Z" else if String.eqb s "byte" then Some "B" else if String.eqb s "short" then Some "S"
  else if String.eqb s "int" then Some "I" else if String.eqb s "long" then Some "J" else if String.eqb s "float" then Some "F"
  else if String.eqb s "double" then Some "D" else if String.eqb s "char" then Some "C" else if String.eqb s "void" then Some "V" else None.

(* erase generic arguments: everything from the first '<' on *)
Fixpoint erase_generics (s : string) : string :=
  match s with
  | EmptyString => EmptyString
  | String c r => if Ascii.eqb c "<"%char then EmptyString else String c (erase_generics r)
  end.

Fixpoint dots_to_slashes (s : string) : string :=
  match s with
  | EmptyString => EmptyString
  | String c r => String (if Ascii.eqb c "."%char then "/"%char else c) (dots_to_slashes r)
  end.

Definition class_internal_name (s : string) : string :=
  if has_char "."%char s then dots_to_slashes s else ("java/lang/" ++ s).

Definition elem_descriptor (s : string) : string :=
  match prim_desc s with Some d => d | None => "L" ++ class_internal_name s ++ ";" end.

(* one array dimension is enough for the generated code (byte[]): T[] -> Some T *)
Fixpoint strip_array (s : string) : option string :=
  match s with
  | EmptyString => None
  | String c r =>
      if String.eqb s "[]" then Some EmptyString
      else match strip_array r with Some e => Some (String c e) | None => None end
  end.

Definition descriptor_of_src (s : string) : string :=
  let b := erase_generics s in
  match strip_array b with
  | Some e => "[" ++ elem_descriptor e
  | None => elem_descriptor b
  end.

Definition method_descriptor (params : list string) (ret : string) : string :=
  "(" ++ concat "" (map descriptor_of_src params) ++ ")" ++ descriptor_of_src ret.

(* JNI short name: Java_ + mangled binary class name + _ + mangled method name; ASCII identifiers only
   (letters and digits stay, '/' and '.' become '_', '_' -> _1, ';' -> _2, '[' -> _3, '$' -> _00024) *)
Definition mangle_char (c : ascii) : string :=
  if Ascii.eqb c "/"%char || Ascii.eqb c "."%char then "_"
  else if Ascii.eqb c "_"%char then "_1"
  else if Ascii.eqb c ";"%char then "_2"
  else if Ascii.eqb c "["%char then "_3"
  else if Ascii.eqb c "$"%char then "_00024"
  else String c "".
Fixpoint mangle (s : string) : string :=
  match s with EmptyString => EmptyString | String c r => mangle_char c ++ mangle r end.
Definition native_symbol (binary_class method : string) : string := "Java_" ++ mangle binary_class ++ "_" ++ mangle method.

(* C type of a native parameter/result with that descriptor *)
Definition ctype_of (desc : string) : string :=
  if String.eqb desc "Z" then "jboolean" else if String.eqb desc "B" then "jbyte" else if String.eqb desc "S" then "jshort"
  else if String.eqb desc "I" then "jint" else if String.eqb desc "J" then "jlong" else if String.eqb desc "F" then "jfloat"
  else if String.eqb desc "D" then "jdouble" else if String.eqb desc "C" then "jchar" else if String.eqb desc "V" then "void"
  else if String.eqb desc "Ljava/lang/String;" then "jstring" else if String.eqb desc "[B" then "jbyteArray" else "jobject".
(* jstring / jbyteArray are jobject at the ABI level *)
Definition ctype_ok (declared desc : string) : bool :=
  String.eqb declared (ctype_of desc) ||
  ((String.eqb (ctype_of desc) "jstring" || String.eqb (ctype_of desc) "jbyteArray") && String.eqb declared "jobject").
