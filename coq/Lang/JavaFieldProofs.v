From Coq Require Import List String Ascii Bool Arith Lia.
From PDV Require Import Lib.StrUtil Lang.JavaField.
Import ListNotations.
Open Scope string_scope.

Lemma scan_app ok a : forall d b, scan ok d (a ++ b) = match scan ok d a with Some d' => scan ok d' b | None => None end.
Proof.
  induction a as [|c r IH]; intros d b; [reflexivity|].
  cbn [append scan]. destruct (Ascii.eqb c "("); [apply IH|].
  destruct (Ascii.eqb c ")"); [destruct d; [reflexivity | apply IH]|].
  destruct d; [destruct (ok c); [apply IH | reflexivity] | apply IH].
Qed.

Lemma ident_not_paren c : ident_char c = true -> Ascii.eqb c "(" = false /\ Ascii.eqb c ")" = false.
Proof.
  intros H. split.
  - destruct (Ascii.eqb c "(") eqn:E; [|reflexivity]. apply Ascii.eqb_eq in E. subst c. discriminate H.
  - destruct (Ascii.eqb c ")") eqn:E; [|reflexivity]. apply Ascii.eqb_eq in E. subst c. discriminate H.
Qed.

Lemma scan_ident ok n : (forall c, ident_char c = true -> ok c = true) -> is_ident n = true -> forall d, scan ok d n = Some d.
Proof.
  intros Hok. induction n as [|c r IH]; intros Hi d; [reflexivity|].
  cbn [is_ident] in Hi. apply andb_true_iff in Hi as [Hc Hr].
  cbn [scan]. destruct (ident_not_paren c Hc) as [-> ->].
  destruct d; [rewrite (Hok c Hc)|]; now apply IH.
Qed.

Lemma postfix_ident c : ident_char c = true -> postfix_char c = true.
Proof. unfold postfix_char. now intros ->. Qed.
Lemma eqop_ident c : ident_char c = true -> eqop_char c = true.
Proof. unfold eqop_char, postfix_char. now intros ->. Qed.

Ltac scan_go Hok Hn :=
  unfold depth0_only;
  repeat (match goal with
          | |- context [scan ?ok ?d (?a ++ ?b)] => rewrite (scan_app ok a d b)
          | |- context [scan ?ok ?d ?n] => is_var n; rewrite (scan_ident ok n Hok Hn d)
          | |- context [scan ?ok ?d ?a] => let v := eval vm_compute in (scan ok d a) in change (scan ok d a) with v
          end; cbv beta iota).

(* the hash term is a primary/postfix expression: at parenthesis depth 0 only identifier characters and dots, so
   hashCode * 31 + <term>  parses with <term> as the right operand of + whatever the field type *)
Theorem jhash_atomic t n : is_ident n = true -> depth0_only postfix_char (jhash t n) = true.
Proof.
  intros Hn. unfold jhash.
  destruct (ft_optional t); [scan_go postfix_ident Hn; reflexivity|].
  destruct (is_boxed t); [destruct (String.eqb (ft_name t) "binary"); scan_go postfix_ident Hn; reflexivity|].
  destruct (String.eqb (ft_typename t) "long"); [scan_go postfix_ident Hn; reflexivity|].
  destruct (String.eqb (ft_typename t) "float"); [scan_go postfix_ident Hn; reflexivity|].
  destruct (String.eqb (ft_typename t) "double"); [scan_go postfix_ident Hn; reflexivity|].
  destruct (String.eqb (ft_typename t) "boolean"); [scan_go postfix_ident Hn; reflexivity|].
  unfold depth0_only. now rewrite (scan_ident _ _ postfix_ident Hn).
Qed.

(* the equals term has no || ? : & at depth 0: in  t1 && t2 && ...  each term is one operand of && *)
Theorem jequals_and_safe t n : is_ident n = true -> depth0_only eqop_char (jequals t n) = true.
Proof.
  intros Hn. unfold jequals.
  destruct (ft_optional t); [scan_go eqop_ident Hn; reflexivity|].
  destruct (ft_enum t); [scan_go eqop_ident Hn; reflexivity|].
  destruct (is_boxed t); [destruct (String.eqb (ft_name t) "binary"); scan_go eqop_ident Hn; reflexivity|].
  scan_go eqop_ident Hn; reflexivity.
Qed.

(* reference types other than enums are compared by content, never by identity *)
Theorem jequals_refs_by_content t n :
  ft_optional t = false -> ft_enum t = false -> is_boxed t = true ->
  jequals t n = (if String.eqb (ft_name t) "binary" then "java.util.Arrays.equals(" ++ n ++ ", other." ++ n ++ ")" else n ++ ".equals(other." ++ n ++ ")").
Proof. intros H1 H2 H3. unfold jequals. now rewrite H1, H2, H3. Qed.

Theorem jequals_optional_null_safe t n : ft_optional t = true ->
  jequals t n = "((this." ++ n ++ " == null && other." ++ n ++ " == null) || (this." ++ n ++ " != null && this." ++ n ++ ".equals(other." ++ n ++ ")))"
  /\ jhash t n = "(" ++ n ++ " == null ? 0 : " ++ n ++ ".hashCode())".
Proof. intros H. unfold jequals, jhash. now rewrite H. Qed.

(* the scanner is not vacuous: the unparenthesised forms (the defects fixed in ebe4a26 / 14a62e6) are rejected *)
Example unparenthesised_conditional_rejected : depth0_only postfix_char "x == null ? 0 : x.hashCode()" = false.
Proof. reflexivity. Qed.
Example top_level_or_rejected : depth0_only eqop_char "(this.x == null && other.x == null) || (this.x != null && this.x.equals(other.x))" = false.
Proof. reflexivity. Qed.
Example atomic_example : depth0_only postfix_char (jhash (mkftype true false "i32" "int" "Integer") "count") = true
                         /\ depth0_only eqop_char (jequals (mkftype false false "string" "String" "String") "name") = true.
Proof. split; reflexivity. Qed.
