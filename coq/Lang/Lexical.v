(* Translation phases that run BEFORE comments are recognised, and what they mean for generated documentation comments.
   - Java (JLS 3.3): unicode escapes \uXXXX are translated first; a backslash is eligible when it is preceded by an even number
     of contiguous backslashes; an eligible backslash followed by u's and anything but four hex digits is a compile error.
     So  \u002a/  inside a Javadoc comment IS the terminator, and  C:\users  does not compile.
   - C family (C11 5.1.1.2 phase 2; GCC and clang also accept blanks between the backslash and the newline): a line that ends in
     a backslash is spliced with the next one, so a '//' comment line ending in a backslash swallows the following line.
   The model: jrun (the JLS automaton), jneut (the repair in java/type.py: every backslash directly followed by 'u' becomes
   the entity &#92;), fix_line (the repair in Generator.comment_filter for line-comment generators). *)
From Coq Require Import List String Ascii Bool Arith Lia.
From PDV Require Import Lib.StrUtil Lang.Comment Lang.CommentProofs.
Import ListNotations.
Open Scope string_scope. Open Scope list_scope.

(* ---------------- two-character patterns, generically (has_term is has2 star slash) ---------------- *)
Section Two.
  Variables x y : ascii.
  Fixpoint has2 (s : string) : bool :=
    match s with
    | String a (String b _ as t) => (Ascii.eqb a x && Ascii.eqb b y) || has2 t
    | _ => false
    end.
  Definition starts_c (s : string) : bool := match s with String a _ => Ascii.eqb a y | _ => false end.
  Fixpoint ends_c (s : string) : bool :=
    match s with EmptyString => false | String a EmptyString => Ascii.eqb a x | String _ t => ends_c t end.

  Lemma has2_cons2 a b r : has2 (String a (String b r)) = (Ascii.eqb a x && Ascii.eqb b y) || has2 (String b r).
  Proof. reflexivity. Qed.

  Lemma has2_app a b : has2 (a ++ b) = has2 a || has2 b || (ends_c a && starts_c b).
  Proof.
    induction a as [|c a IH]; [cbn; now rewrite orb_false_r|].
    destruct a as [|d a'].
    - cbn [append ends_c]. destruct b as [|z b']; [cbn; now rewrite andb_false_r|].
      rewrite has2_cons2. cbn [has2 starts_c orb]. apply orb_comm.
    - change ((String c (String d a') ++ b)%string) with (String c (String d a' ++ b)%string).
      change (String d a' ++ b)%string with (String d (a' ++ b)%string). rewrite has2_cons2.
      change (String d (a' ++ b)%string) with (String d a' ++ b)%string. rewrite IH. rewrite has2_cons2.
      change (ends_c (String c (String d a'))) with (ends_c (String d a')). now rewrite !orb_assoc.
  Qed.

  Lemma has2_cons_false a s : has2 (String a s) = false -> has2 s = false.
  Proof. destruct s as [|b r]; [reflexivity|]. rewrite has2_cons2. intros H. apply orb_false_iff in H as [_ H]. exact H. Qed.

  Lemma split_prefix c : forall s p ps, split_on c s = p :: ps -> exists t, s = (p ++ t)%string.
  Proof.
    induction s as [|a s IHs]; intros p ps E; cbn [split_on] in E.
    - injection E as <- _. now exists "".
    - destruct (Ascii.eqb a c) eqn:Ex.
      + injection E as <- _. now exists (String a s).
      + destruct (split_on c s) as [|q qs] eqn:E2; [injection E as <- _; now exists s|].
        injection E as <- _. destruct (IHs q qs eq_refl) as [t ->]. now exists t.
  Qed.

  Lemma split_no2 c s : has2 s = false -> Forall (fun l => has2 l = false) (split_on c s).
  Proof.
    induction s as [|a s IH]; intros H; [repeat constructor|].
    pose proof (has2_cons_false _ _ H) as Hs. specialize (IH Hs). cbn [split_on].
    destruct (Ascii.eqb a c); [constructor; [reflexivity | exact IH]|].
    destruct (split_on c s) as [|p ps] eqn:E; [repeat constructor|].
    inversion IH as [|? ? Hp Hps]; subst. constructor; [|exact Hps].
    destruct (split_prefix c s p ps E) as [t ->].
    change (String a (p ++ t)%string) with ((String a p ++ t)%string) in H.
    rewrite has2_app in H. apply orb_false_iff in H as [H _]. apply orb_false_iff in H as [H _]. exact H.
  Qed.

  Lemma join_no2 sep lines :
    has2 sep = false -> starts_c sep = false -> ends_c sep = false -> sep <> "" ->
    Forall (fun l => has2 l = false) lines -> has2 (join sep lines) = false.
  Proof.
    intros Hs Hss Hes Hne HF. induction lines as [|a l IH]; [reflexivity|].
    inversion HF as [|? ? Hx Hl]; subst. destruct l as [|b l']; [exact Hx|].
    rewrite join_cons_cons. set (J := join sep (b :: l')) in *.
    assert (Hst : starts_c (sep ++ J) = false) by (destruct sep; [contradiction | exact Hss]).
    rewrite has2_app, Hx, Hst, andb_false_r. cbn [orb].
    rewrite has2_app, Hs, (IH Hl), Hes. reflexivity.
  Qed.
End Two.

Definition uchar : ascii := "u"%char.
Definition has_bsu := has2 bslash uchar.

(* ---------------- Java: translation of unicode escapes (JLS 3.3) ---------------- *)
Definition hexval (c : ascii) : option nat :=
  let n := nat_of_ascii c in
  if Nat.leb 48 n && Nat.leb n 57 then Some (n - 48)
  else if Nat.leb 65 n && Nat.leb n 70 then Some (n - 55)
  else if Nat.leb 97 n && Nat.leb n 102 then Some (n - 87)
  else None.
(* code points above 255 cannot matter for comment recognition: they become '?' *)
Definition chr (n : nat) : ascii := if Nat.ltb n 256 then ascii_of_nat n else "?"%char.

Inductive jst := JN | JB | JU (k acc : nat).
Fixpoint jrun (st : jst) (s : string) : option string :=
  match s with
  | EmptyString => match st with JN => Some "" | JB => Some (String bslash "") | JU _ _ => None end
  | String c r =>
      match st with
      | JN => if Ascii.eqb c bslash then jrun JB r else option_map (String c) (jrun JN r)
      | JB => if Ascii.eqb c uchar then jrun (JU 0 0) r else option_map (fun t => String bslash (String c t)) (jrun JN r)
      | JU k acc =>
          if Ascii.eqb c uchar && Nat.eqb k 0 then jrun (JU 0 0) r
          else match hexval c with
               | Some v => if Nat.eqb k 3 then option_map (String (chr (16 * acc + v))) (jrun JN r) else jrun (JU (S k) (16 * acc + v)) r
               | None => None
               end
      end
  end.
(* None = javac rejects the file ("illegal unicode escape") *)
Definition jtrans (s : string) : option string := jrun JN s.

(* text without a backslash directly followed by 'u' is left alone by the translation *)
Lemma jrun_identity s : has_bsu s = false ->
  jrun JN s = Some s /\ (starts_c uchar s = false -> jrun JB s = Some (String bslash s)).
Proof.
  unfold has_bsu. induction s as [|c r IH]; intros H; [split; reflexivity|].
  pose proof (has2_cons_false _ _ _ _ H) as Hr. destruct (IH Hr) as [IHn IHb].
  assert (Hcr : Ascii.eqb c bslash && starts_c uchar r = false).
  { destruct r as [|d r']; [now rewrite andb_false_r|]. rewrite has2_cons2 in H. apply orb_false_iff in H as [H _]. exact H. }
  split.
  - cbn [jrun]. destruct (Ascii.eqb c bslash) eqn:Ec.
    + apply Ascii.eqb_eq in Ec. subst c. cbn in Hcr. now apply IHb.
    + rewrite IHn. reflexivity.
  - cbn [starts_c jrun]. intros Hu. rewrite Hu, IHn. reflexivity.
Qed.

Theorem jtrans_identity s : has_bsu s = false -> jtrans s = Some s.
Proof. intros H. apply (jrun_identity s H). Qed.

(* the repair: text.replace("\\u", "&#92;u") - every backslash that is directly followed by 'u' becomes the entity *)
Fixpoint jneut (s : string) : string :=
  match s with
  | String a (String b r as t) => if Ascii.eqb a bslash && Ascii.eqb b uchar then ("&#92;u" ++ jneut r)%string else String a (jneut t)
  | String a EmptyString => String a ""
  | EmptyString => ""
  end.
Lemma jneut_cons2 a b r :
  jneut (String a (String b r)) = if Ascii.eqb a bslash && Ascii.eqb b uchar then ("&#92;u" ++ jneut r)%string else String a (jneut (String b r)).
Proof. reflexivity. Qed.

Lemma jneut_no_bsu_aux s : has_bsu (jneut s) = false /\ (starts_c uchar (jneut s) = true -> starts_c uchar s = true).
Proof.
  unfold has_bsu. remember (String.length s) as n eqn:Hn. revert s Hn.
  induction n as [n IH] using lt_wf_ind. intros s Hn.
  destruct s as [|a [|b r]]; [now split | now split|].
  rewrite jneut_cons2. destruct (Ascii.eqb a bslash && Ascii.eqb b uchar) eqn:E.
  - destruct (IH (String.length r)) with (s := r) as [H1 H2]; [subst; cbn; lia | reflexivity|].
    split.
    + rewrite has2_app, H1. cbn. reflexivity.
    + cbn. intros H. discriminate.
  - destruct (IH (String.length (String b r))) with (s := String b r) as [H1 H2]; [subst; cbn; lia | reflexivity|].
    split.
    + remember (jneut (String b r)) as t eqn:Et. destruct t as [|c t']; [reflexivity|].
      rewrite has2_cons2, H1, orb_false_r. destruct (Ascii.eqb a bslash) eqn:Ea; [|reflexivity]. cbn.
      destruct (Ascii.eqb c uchar) eqn:Ec; [|reflexivity].
      assert (Hs : starts_c uchar (String b r) = true) by (apply H2; cbn; exact Ec).
      cbn in Hs. rewrite Hs in E. discriminate.
    + cbn. tauto.
Qed.
Theorem jneut_no_bsu s : has_bsu (jneut s) = false.
Proof. apply jneut_no_bsu_aux. Qed.

(* the block-comment neutralisation  */ -> *&#47;  does not create a backslash-u pair *)
Lemma neutralize_keeps_no_bsu_aux s : has_bsu s = false ->
  has_bsu (neutralize s) = false /\ (starts_c uchar (neutralize s) = true -> starts_c uchar s = true).
Proof.
  unfold has_bsu. remember (String.length s) as n eqn:Hn. revert s Hn.
  induction n as [n IH] using lt_wf_ind. intros s Hn H.
  destruct s as [|a [|b r]]; [now split | now split|].
  rewrite neutralize_cons2. destruct (Ascii.eqb a star && Ascii.eqb b slash) eqn:E.
  - assert (Hr : has2 bslash uchar r = false) by (apply has2_cons_false with (a := b), has2_cons_false with (a := a); exact H).
    destruct (IH (String.length r)) with (s := r) as [H1 H2]; [subst; cbn; lia | reflexivity | exact Hr|].
    split.
    + rewrite has2_app, H1. cbn. reflexivity.
    + cbn. intros Hd. discriminate.
  - pose proof (has2_cons_false _ _ _ _ H) as Hr.
    destruct (IH (String.length (String b r))) with (s := String b r) as [H1 H2]; [subst; cbn; lia | reflexivity | exact Hr|].
    split.
    + remember (neutralize (String b r)) as t eqn:Et. destruct t as [|c t']; [reflexivity|].
      rewrite has2_cons2, H1, orb_false_r. destruct (Ascii.eqb a bslash) eqn:Ea; [|reflexivity]. cbn.
      destruct (Ascii.eqb c uchar) eqn:Ec; [|reflexivity].
      assert (Hs : starts_c uchar (String b r) = true) by (apply H2; cbn; exact Ec).
      cbn in Hs. rewrite has2_cons2, Ea, Hs in H. discriminate.
    + cbn. tauto.
Qed.

(* the whole Javadoc comment as it is written to the file *)
Definition java_doc (rendered : string) : string := comment_filter (Some BLOCK_START) (Some BLOCK_END) BLOCK_PREFIX (jneut rendered).

(* turning separator characters into blanks creates no backslash-u pair *)
Lemma flatten_keeps_no_bsu s : has_bsu s = false -> has_bsu (flatten s) = false.
Proof.
  unfold has_bsu. induction s as [|a [|b r] IH]; [reflexivity | reflexivity|]. intros H.
  rewrite has2_cons2 in H. apply orb_false_iff in H as [H1 H2]. specialize (IH H2).
  change (flatten (String a (String b r))) with (String (if is_sep a then " "%char else a) (flatten (String b r))).
  change (flatten (String b r)) with (String (if is_sep b then " "%char else b) (flatten r)) in *.
  rewrite has2_cons2, IH, orb_false_r.
  destruct (is_sep a) eqn:Ea; [reflexivity|]. destruct (is_sep b) eqn:Eb; [apply andb_false_r|]. exact H1.
Qed.

Theorem java_doc_no_bsu rendered : has_bsu (java_doc rendered) = false.
Proof.
  unfold java_doc, comment_filter, comment_lines, BLOCK_START, BLOCK_PREFIX, BLOCK_END, has_bsu.
  set (lines := split_on nl (neutralize (flatten (jneut rendered)))).
  assert (HL : Forall (fun l => has2 bslash uchar l = false) lines).
  { apply split_no2. apply neutralize_keeps_no_bsu_aux. apply flatten_keeps_no_bsu. apply jneut_no_bsu. }
  set (j := join (String nl " * ") lines).
  assert (Hj : has2 bslash uchar j = false) by (apply join_no2; try reflexivity; [discriminate | exact HL]).
  rewrite !has2_app, Hj. cbn. rewrite !andb_false_r. reflexivity.
Qed.

(* javac sees exactly the text that was written (no escape is translated, none is ill-formed), and that text is closed once, at its end *)
Theorem java_doc_closed rendered :
  jtrans (java_doc rendered) = Some (java_doc rendered) /\
  exists body, java_doc rendered = (body ++ "*/")%string /\ has_term body = false /\ ends_star body = false.
Proof. split; [apply jtrans_identity, java_doc_no_bsu | apply comment_closed_only_at_end]. Qed.

(* without the repair the property is false: javac closes the comment early / rejects the file *)
Theorem java_doc_unrepaired_refuted :
  (exists t, jtrans (comment_filter0 (Some BLOCK_START) (Some BLOCK_END) BLOCK_PREFIX "x \u002a/ int evil; /\u002a") = Some t /\
             t = ("/**" ++ String nl " * x */ int evil; /*" ++ String nl " */")%string) /\
  jtrans (comment_filter0 (Some BLOCK_START) (Some BLOCK_END) BLOCK_PREFIX "see C:\users\me") = None.
Proof. split; [eexists; split; vm_compute; reflexivity | vm_compute; reflexivity]. Qed.

(* ---------------- C family: line splicing and '//' comments ---------------- *)
(* the line ends in a backslash (possibly followed by blanks): the preprocessor splices the next line onto it *)
Fixpoint dangling (s : string) : bool :=
  match s with EmptyString => false | String c r => (Ascii.eqb c bslash && all_blank r) || dangling r end.

Lemma all_blank_not_dangling r : all_blank r = true -> dangling r = false.
Proof.
  induction r as [|c r IH]; [reflexivity|]. cbn [all_blank dangling]. intros H. apply andb_true_iff in H as [Hc Hr].
  rewrite (IH Hr), orb_false_r. unfold is_blank in Hc. destruct (Ascii.eqb c bslash) eqn:E; [|reflexivity].
  apply Ascii.eqb_eq in E. subst c. discriminate.
Qed.

Theorem fix_line_not_dangling s : dangling (fix_line s) = false.
Proof.
  induction s as [|c r IH]; [reflexivity|]. cbn [fix_line].
  destruct (Ascii.eqb c bslash && all_blank r) eqn:E.
  - apply andb_true_iff in E as [_ Hr]. cbn. now apply all_blank_not_dangling.
  - cbn [dangling]. rewrite IH, orb_false_r.
    destruct (Ascii.eqb c bslash) eqn:Ec; [|reflexivity]. cbn in E |- *.
    (* c is a backslash that is not followed by blanks only: is fix_line r all blank?  only if r is, which E excludes *)
    clear IH. revert E. induction r as [|d r IHr]; [discriminate|]. cbn [all_blank fix_line]. intros E.
    destruct (Ascii.eqb d bslash && all_blank r) eqn:E2.
    + cbn. reflexivity.
    + cbn [all_blank]. destruct (is_blank d) eqn:Ed; [|reflexivity]. cbn in E |- *. apply IHr. exact E.
Qed.

Lemma fix_line_id s : dangling s = false -> fix_line s = s.
Proof.
  induction s as [|c r IH]; [reflexivity|]. cbn [dangling fix_line]. intros H. apply orb_false_iff in H as [H1 H2].
  rewrite H1, (IH H2). reflexivity.
Qed.

Lemma dangling_app_nobs p s : has_char bslash p = false -> dangling (p ++ s) = dangling s.
Proof.
  induction p as [|c p IH]; [reflexivity|]. cbn [has_char append dangling]. intros H. apply orb_false_iff in H as [Hc Hp].
  rewrite Hc, (IH Hp). reflexivity.
Qed.

(* the line-comment filter (comment_start_string = comment_end_string = None) *)
Definition line_doc (prefix content : string) : string := comment_filter None None prefix content.
Definition line_doc_lines (prefix content : string) : list string := map (fun l => (prefix ++ fix_line l)%string) (split_on nl (flatten content)).

Lemma join_prefix_lines prefix : forall ls, ls <> [] ->
  (prefix ++ join (String nl prefix) ls)%string = join (String nl "") (map (fun l => (prefix ++ l)%string) ls).
Proof.
  induction ls as [|a l IH]; intros Hne; [contradiction|]. destruct l as [|b l']; [reflexivity|].
  assert (IH' := IH ltac:(discriminate)). clear IH.
  rewrite join_cons_cons.
  change (map (fun l => (prefix ++ l)%string) (a :: b :: l')) with ((prefix ++ a)%string :: map (fun l => (prefix ++ l)%string) (b :: l')).
  remember (map (fun l => (prefix ++ l)%string) (b :: l')) as M eqn:EM. destruct M as [|m M']; [discriminate|].
  rewrite join_cons_cons. rewrite <- IH'.
  cbn [append]. rewrite !app_assoc_s. reflexivity.
Qed.

(* every physical line of the generated '//' comment carries the prefix and none of them splices the next line:
   whatever text follows the comment stays outside of it *)
Theorem line_doc_safe prefix content : has_char bslash prefix = false ->
  line_doc prefix content = join (String nl "") (line_doc_lines prefix content) /\
  Forall (fun l => dangling l = false /\ exists r, l = (prefix ++ r)%string) (line_doc_lines prefix content).
Proof.
  intros Hp. split.
  - unfold line_doc, line_doc_lines. rewrite line_comment_prefixed. rewrite join_prefix_lines.
    + now rewrite map_map.
    + pose proof (split_on_nonempty nl (flatten content)). destruct (split_on nl (flatten content)); [contradiction | discriminate].
  - unfold line_doc_lines. apply Forall_forall. intros l Hl. apply in_map_iff in Hl as (x & <- & _). split.
    + rewrite dangling_app_nobs by exact Hp. apply fix_line_not_dangling.
    + now exists (fix_line x).
Qed.

Theorem line_doc_unrepaired_refuted :
  exists l, In l (split_on nl (comment_filter0 None None "/// " "path C:\")) /\ dangling l = true.
Proof. exists "/// path C:\". split; [vm_compute; auto | reflexivity]. Qed.

(* ---------------- no other line separator survives the filter ---------------- *)
(* Jinja's indent filter breaks lines with str.splitlines(); the generated comment contains none of the (single-byte) characters that
   splitlines treats as line breaks besides the newline, so every line that indent sees is a line the filter has prefixed *)
Fixpoint all_chars (P : ascii -> bool) (s : string) : bool := match s with EmptyString => true | String c r => P c && all_chars P r end.
Definition no_sep (s : string) : bool := all_chars (fun c => negb (is_sep c)) s.

Lemma all_chars_app P a b : all_chars P (a ++ b) = all_chars P a && all_chars P b.
Proof. induction a as [|x a IH]; [reflexivity|]. cbn. now rewrite IH, andb_assoc. Qed.
Lemma no_sep_flatten s : no_sep (flatten s) = true.
Proof. unfold no_sep. induction s as [|c r IH]; [reflexivity|]. cbn [flatten all_chars]. rewrite IH, andb_true_r. destruct (is_sep c) eqn:E; [reflexivity | now rewrite E]. Qed.
Lemma all_chars_neutralize P s : P "*"%char = true -> P "&"%char = true -> P "#"%char = true -> P "4"%char = true -> P "7"%char = true -> P ";"%char = true ->
  all_chars P s = true -> all_chars P (neutralize s) = true.
Proof.
  intros P1 P2 P3 P4 P5 P6. remember (String.length s) as n eqn:Hn. revert s Hn. induction n as [n IH] using lt_wf_ind. intros s Hn H.
  destruct s as [|a [|b r]]; [reflexivity | exact H|]. rewrite neutralize_cons2.
  cbn [all_chars] in H. apply andb_true_iff in H as [Ha H]. apply andb_true_iff in H as [Hb Hr].
  destruct (Ascii.eqb a star && Ascii.eqb b slash).
  - assert (Hent : all_chars P "*&#47;" = true) by (cbn [all_chars]; rewrite P1, P2, P3, P4, P5, P6; reflexivity).
    rewrite all_chars_app, Hent. cbn [andb]. apply (IH (String.length r)); [subst; cbn; lia | reflexivity | exact Hr].
  - cbn [all_chars]. rewrite Ha. cbn [andb]. apply (IH (String.length (String b r))); [subst; cbn; lia | reflexivity | cbn [all_chars]; now rewrite Hb, Hr].
Qed.
Lemma all_chars_fix_line P s : P "&"%char = true -> P "#"%char = true -> P "9"%char = true -> P "2"%char = true -> P ";"%char = true ->
  all_chars P s = true -> all_chars P (fix_line s) = true.
Proof.
  intros P1 P2 P3 P4 P5. induction s as [|c r IH]; intros H; [reflexivity|]. cbn [all_chars] in H. apply andb_true_iff in H as [Hc Hr].
  cbn [fix_line]. destruct (Ascii.eqb c bslash && all_blank r).
  - assert (Hent : all_chars P "&#92;" = true) by (cbn [all_chars]; rewrite P1, P2, P3, P4, P5; reflexivity).
    now rewrite all_chars_app, Hent, Hr.
  - cbn [all_chars]. now rewrite Hc, IH.
Qed.
Lemma all_chars_split P c : forall s, all_chars P s = true -> Forall (fun l => all_chars P l = true) (split_on c s).
Proof.
  induction s as [|a s IH]; intros H; [repeat constructor|]. cbn [all_chars] in H. apply andb_true_iff in H as [Ha Hs]. specialize (IH Hs).
  cbn [split_on]. destruct (Ascii.eqb a c); [constructor; [reflexivity | exact IH]|].
  destruct (split_on c s) as [|p ps]; [repeat constructor; cbn; now rewrite Ha|].
  inversion IH as [|? ? Hp Hps]; subst. constructor; [cbn; now rewrite Ha, Hp | exact Hps].
Qed.
Lemma all_chars_join P sep : all_chars P sep = true -> forall l, Forall (fun x => all_chars P x = true) l -> all_chars P (join sep l) = true.
Proof.
  intros Hs. induction l as [|x l IH]; intros HF; [reflexivity|]. inversion HF as [|? ? Hx Hl]; subst. destruct l as [|y l']; [exact Hx|].
  rewrite join_cons_cons, !all_chars_app, Hx, Hs, (IH Hl). reflexivity.
Qed.

Theorem comment_filter_no_sep start end_ prefix content :
  no_sep prefix = true -> (match start with Some s => no_sep s | None => true end) = true -> (match end_ with Some e => no_sep e | None => true end) = true ->
  no_sep (comment_filter start end_ prefix content) = true.
Proof.
  unfold no_sep. intros Hp Hs He. unfold comment_filter. rewrite !all_chars_app.
  assert (Hlines : Forall (fun l => all_chars (fun c => negb (is_sep c)) l = true) (comment_lines end_ content)).
  { unfold comment_lines. destruct end_ as [e|].
    - apply all_chars_split. apply all_chars_neutralize; try reflexivity. apply no_sep_flatten.
    - apply Forall_forall. intros l Hl. apply in_map_iff in Hl as (x & <- & Hx).
      apply all_chars_fix_line; try reflexivity.
      pose proof (all_chars_split (fun c => negb (is_sep c)) nl (flatten content) (no_sep_flatten content)) as HF. rewrite Forall_forall in HF. now apply HF. }
  rewrite Hp. rewrite (all_chars_join _ (String nl prefix)); [|cbn; now rewrite Hp | exact Hlines].
  destruct start as [s|], end_ as [e|]; cbn [all_chars]; rewrite ?all_chars_app; cbn [all_chars]; rewrite ?Hs, ?He; reflexivity.
Qed.

Theorem comment_filter0_sep_refuted : no_sep (comment_filter0 None None "/// " ("first " ++ String "012" " int injected;")) = false.
Proof. reflexivity. Qed.

(* the escaped @deprecated message contains no line separator either (the literal cannot be broken over two lines by the indent filter);
   newlines are written as backslash-n by the escape *)
Lemma all_chars_esc_map P s : P bslash = true -> P "n"%char = true -> P dquote = true ->
  all_chars (fun c => P c || Ascii.eqb c nl) s = true -> all_chars P (esc_map s) = true.
Proof.
  intros P1 P2 P3. induction s as [|a s IH]; intros H; [reflexivity|]. cbn [all_chars] in H. apply andb_true_iff in H as [Ha Hs]. cbn beta in Ha.
  cbn [esc_map]. rewrite all_chars_app, (IH Hs), andb_true_r. unfold esc_char.
  destruct (Ascii.eqb a bslash) eqn:E1; [cbn [all_chars]; now rewrite P1|].
  destruct (Ascii.eqb a nl) eqn:E2; [cbn [all_chars]; now rewrite P1, P2|].
  destruct (Ascii.eqb a dquote) eqn:E3; [cbn [all_chars]; now rewrite P1, P3|].
  cbn [all_chars]. rewrite orb_false_r in Ha. now rewrite Ha.
Qed.
Theorem escape_msg_no_sep m : all_chars (fun c => negb (is_sep c) && negb (Ascii.eqb c nl)) (escape_msg m) = true.
Proof.
  rewrite escape_msg_is_esc_map. apply all_chars_esc_map; try reflexivity.
  induction m as [|c r IH]; [reflexivity|]. cbn [flatten all_chars]. rewrite IH, andb_true_r.
  destruct (is_sep c) eqn:E; [reflexivity|]. rewrite E. cbn [negb andb]. destruct (Ascii.eqb c nl); reflexivity.
Qed.
