(* The per-field Java expressions that java/type.py computes for the derived operations (JavaDataField.equals, .hash_code)
   as functions of what they read from the field's type, and a scanner for "which characters sit at parenthesis depth 0",
   the property that makes an expression safe to splice as an operand of  &&  resp.  * 31 +  . *)
From Coq Require Import List String Ascii Bool Arith.
From PDV Require Import Lib.StrUtil.
Import ListNotations.
Open Scope string_scope.

Record ftype := mkftype { ft_optional : bool; ft_enum : bool; ft_name : string; ft_typename : string; ft_boxed : string }.
Definition is_boxed (t : ftype) : bool := String.eqb (ft_typename t) (ft_boxed t).

Definition jequals (t : ftype) (n : string) : string :=
  if ft_optional t then
    "((this." ++ n ++ " == null && other." ++ n ++ " == null) || (this." ++ n ++ " != null && this." ++ n ++ ".equals(other." ++ n ++ ")))"
  else if ft_enum t then "this." ++ n ++ " == other." ++ n
  else if is_boxed t then
    (if String.eqb (ft_name t) "binary" then "java.util.Arrays.equals(" ++ n ++ ", other." ++ n ++ ")"
     else n ++ ".equals(other." ++ n ++ ")")
  else "this." ++ n ++ " == other." ++ n.

Definition jhash (t : ftype) (n : string) : string :=
  if ft_optional t then "(" ++ n ++ " == null ? 0 : " ++ n ++ ".hashCode())"
  else if is_boxed t then
    (if String.eqb (ft_name t) "binary" then "java.util.Arrays.hashCode(" ++ n ++ ")" else n ++ ".hashCode()")
  else if String.eqb (ft_typename t) "long" then "((int) (" ++ n ++ " ^ (" ++ n ++ " >>> 32)))"
  else if String.eqb (ft_typename t) "float" then "Float.floatToIntBits(" ++ n ++ ")"
  else if String.eqb (ft_typename t) "double" then
    "((int) (Double.doubleToLongBits(" ++ n ++ ") ^ (Double.doubleToLongBits(" ++ n ++ ") >>> 32)))"
  else if String.eqb (ft_typename t) "boolean" then "(" ++ n ++ " ? 1 : 0)"
  else n.

(* ---- depth-0 scanner ---- *)
Definition ident_char (c : ascii) : bool :=
  let n := nat_of_ascii c in
  (Nat.leb 48 n && Nat.leb n 57) || (Nat.leb 65 n && Nat.leb n 90) || (Nat.leb 97 n && Nat.leb n 122) || Nat.eqb n 95 || Nat.eqb n 36.
Fixpoint is_ident (s : string) : bool := match s with EmptyString => true | String c r => ident_char c && is_ident r end.

(* scan ok d s: walk s starting at depth d; characters at depth 0 must satisfy ok; the depth never goes negative.
   Result: the final depth, None on a violation. *)
Fixpoint scan (ok : ascii -> bool) (d : nat) (s : string) : option nat :=
  match s with
  | EmptyString => Some d
  | String c r =>
      if Ascii.eqb c "("%char then scan ok (S d) r
      else if Ascii.eqb c ")"%char then match d with 0 => None | S d' => scan ok d' r end
      else match d with
           | 0 => if ok c then scan ok 0 r else None
           | S _ => scan ok d r
           end
  end.
Definition depth0_only (ok : ascii -> bool) (s : string) : bool := match scan ok 0 s with Some 0 => true | _ => false end.

(* operand of  hashCode * 31 + _ : at depth 0 only identifier characters and the member-access dot *)
Definition postfix_char (c : ascii) : bool := ident_char c || Ascii.eqb c "."%char.
(* operand of  _ && _ : at depth 0 additionally blanks and the == / != operators, which bind tighter than && *)
Definition eqop_char (c : ascii) : bool := postfix_char c || Ascii.eqb c " "%char || Ascii.eqb c "="%char || Ascii.eqb c "!"%char || Ascii.eqb c ","%char.

Definition contains (needle hay : string) : bool :=
  (fix go (h : string) (fuel : nat) : bool :=
     match fuel with
     | 0 => false
     | S f => if starts_with needle h then true else match h with EmptyString => false | String _ r => go r f end
     end) hay (S (String.length hay)).
