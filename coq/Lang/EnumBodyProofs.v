From Coq Require Import List String Ascii NArith Bool Arith Lia.
From PDV Require Import Lib.StrUtil Jinja.Interp Lang.EnumBody.
Import ListNotations.
Open Scope string_scope. Open Scope list_scope.

(* the i-th ordinary flag gets the expression 1u << (c + i), every none flag 0, every all flag the same OR list *)
Lemma flag_enumerators_ordinary all_names fl : forall c i f,
  nth_error (filter ordinary fl) i = Some f ->
  In (f_name f, VShift (c + i)) (flag_enumerators all_names fl c).
Proof.
  induction fl as [|g r IH]; intros c i f H; [destruct i; discriminate|].
  cbn [filter] in H. cbn [flag_enumerators]. destruct (ordinary g) eqn:Eo.
  - unfold ordinary in Eo. apply andb_true_iff in Eo as [En Ea]. apply negb_true_iff in En, Ea.
    destruct i as [|i'].
    + cbn in H. injection H as <-. left. rewrite En, Ea, Nat.add_0_r. reflexivity.
    + cbn in H. right. replace (c + S i') with (S c + i') by lia. now apply IH.
  - right. now apply IH.
Qed.

Theorem flag_bits fl i f :
  nth_error (filter ordinary fl) i = Some f -> In (f_name f, VShift i) (flags_spec fl).
Proof. intros H. apply (flag_enumerators_ordinary _ fl 0 i f H). Qed.

Lemma flag_enumerators_none all_names fl : forall c f, In f fl -> f_none f = true -> In (f_name f, VZero) (flag_enumerators all_names fl c).
Proof.
  induction fl as [|g r IH]; intros c f Hin Hn; [destruct Hin|]. destruct Hin as [->|H]; cbn [flag_enumerators].
  - left. now rewrite Hn.
  - right. now apply IH.
Qed.

Theorem none_flag_zero fl f : In f fl -> f_none f = true -> In (f_name f, VZero) (flags_spec fl).
Proof. apply flag_enumerators_none. Qed.

Lemma flag_enumerators_all all_names fl : forall c f, In f fl -> f_none f = false -> f_all f = true ->
  In (f_name f, VOr all_names) (flag_enumerators all_names fl c).
Proof.
  induction fl as [|g r IH]; intros c f Hin Hn Ha; [destruct Hin|]. destruct Hin as [->|H]; cbn [flag_enumerators].
  - left. now rewrite Hn, Ha.
  - right. now apply IH.
Qed.

Theorem all_flag_union fl f : In f fl -> f_none f = false -> f_all f = true ->
  In (f_name f, VOr (ordinary_names fl)) (flags_spec fl).
Proof. apply flag_enumerators_all. Qed.

(* exactly one enumerator per flag, in order *)
Theorem flags_spec_names fl : map fst (flags_spec fl) = map f_name fl.
Proof.
  unfold flags_spec. generalize (ordinary_names fl) 0. induction fl as [|g r IH]; intros a c; [reflexivity|].
  cbn. now rewrite IH.
Qed.

(* Java: ordinal i <-> the i-th ordinary flag <-> bit i in C++ / ObjC / C++-CLI *)
Definition next_of (p : option N) : N := match p with Some q => N.succ q | None => 0%N end.

Lemma eval_implicit_from names : forall env p,
  eval_body env p (map (fun n => (n, VImplicit)) names) =
  Some (combine names (map (fun k => (N.of_nat k + next_of p)%N) (seq 0 (List.length names)))).
Proof.
  induction names as [|n r IH]; intros env p; [reflexivity|].
  cbn [map eval_body eval_vexpr List.length seq combine]. fold (next_of p). rewrite IH. f_equal. f_equal.
  f_equal. rewrite <- seq_shift, map_map. apply map_ext. intros k. cbn [next_of]. rewrite Nat2N.inj_succ. lia.
Qed.

Theorem enum_ordinals names :
  eval_body [] None (enum_spec names) = Some (combine names (map N.of_nat (seq 0 (List.length names)))).
Proof.
  unfold enum_spec. rewrite eval_implicit_from. f_equal. f_equal. apply map_ext. intros k. cbn. lia.
Qed.

Theorem java_flag_ordinals fl :
  eval_body [] None (java_flags_spec fl) =
  Some (combine (ordinary_names fl) (map N.of_nat (seq 0 (List.length (ordinary_names fl))))).
Proof. apply enum_ordinals. Qed.

(* cross-target agreement: the i-th ordinary flag is Java ordinal i and bit i of the C-family enumerations *)
Theorem cross_target fl i f :
  nth_error (filter ordinary fl) i = Some f ->
  In (f_name f, VShift i) (flags_spec fl) /\ nth_error (map fst (java_flags_spec fl)) i = Some (f_name f).
Proof.
  intros H. split; [now apply flag_bits|].
  unfold java_flags_spec, ordinary_names. rewrite map_map. cbn [fst]. rewrite map_id.
  now apply map_nth_error.
Qed.

(* REFUTED: with an `all` flag declared before an ordinary one the body does not compile in C++/ObjC/C++-CLI *)
Theorem all_before_ordinary_refuted :
  eval_body [] None (flags_spec [mkflagrec "everything" "" false "" false true; mkflagrec "a" "" false "" false false]) = None.
Proof. reflexivity. Qed.

(* ... whereas with every ordinary flag declared before the all flags it is the union of their bits *)
Example all_after_ordinary :
  eval_body [] None (flags_spec [mkflagrec "a" "" false "" false false; mkflagrec "n" "" false "" true false;
                                 mkflagrec "b" "" false "" false false; mkflagrec "every" "" false "" false true])
  = Some [("a", 1%N); ("n", 0%N); ("b", 2%N); ("every", 3%N)].
Proof. reflexivity. Qed.
