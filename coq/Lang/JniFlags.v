(* The flags conversion of the JNI support library (support.cpp: JniFlags::flags / JniFlags::create), on 32-bit unsigned values:
     flags(set)        = OR over the elements of the Java EnumSet of (1u << ordinal)
     create(f, bits)   = the ordinals i < bits whose bit is set in f, in ascending order (EnumSet.noneOf + add)
   Round trips for every flags type with at most 32 ordinary flags: a set of ordinals below bits survives Java -> C++ -> Java,
   a value below 2^bits survives C++ -> Java -> C++.  (The generated glue passes bits = number of declared flags; the ordinary flags
   are bits 0 .. n-1 by C08_flag_bits.)  Tie: J-runtime builds and runs the real support library. *)
From Coq Require Import List NArith Bool Arith Lia FinFun.
Import ListNotations.
Local Open Scope N_scope.

Definition width : N := 32.
Definition to_unsigned (n : N) : N := N.land n (N.ones width).

Definition flags_of (ords : list N) : N := fold_left (fun acc o => N.lor acc (to_unsigned (N.shiftl 1 o))) ords 0.
Definition create (f : N) (bits : nat) : list N := filter (fun i => N.testbit f i) (map N.of_nat (seq 0 bits)).

Lemma bit_of_shift o i : o < width -> N.testbit (to_unsigned (N.shiftl 1 o)) i = N.eqb i o.
Proof.
  intros Ho. unfold to_unsigned. rewrite N.land_spec, N.shiftl_1_l.
  destruct (N.eqb_spec i o) as [->|Hne].
  - rewrite N.pow2_bits_true, N.ones_spec_low by exact Ho. reflexivity.
  - rewrite N.pow2_bits_false by congruence. reflexivity.
Qed.

Lemma flags_of_bit ords : Forall (fun o => o < width) ords -> forall acc i,
  N.testbit (fold_left (fun acc o => N.lor acc (to_unsigned (N.shiftl 1 o))) ords acc) i = N.testbit acc i || existsb (N.eqb i) ords.
Proof.
  induction 1 as [|o r Ho _ IH]; intros acc i; [cbn; now rewrite orb_false_r|].
  cbn [fold_left existsb]. rewrite IH, N.lor_spec, bit_of_shift by exact Ho. now rewrite orb_assoc.
Qed.

(* Java -> C++ -> Java: exactly the elements of the set come back *)
Theorem create_flags_of ords bits : (bits <= 32)%nat -> Forall (fun o => o < N.of_nat bits) ords ->
  forall i, In i (create (flags_of ords) bits) <-> In i ords.
Proof.
  intros Hb HF i. unfold create, flags_of. rewrite filter_In, in_map_iff.
  assert (HF' : Forall (fun o => o < width) ords) by (eapply Forall_impl; [|exact HF]; cbn; unfold width; intros; lia).
  rewrite (flags_of_bit ords HF' 0 i). cbn [orb]. rewrite N.bits_0. cbn [orb].
  split.
  - intros [_ He]. apply existsb_exists in He as (x & Hx & E). apply N.eqb_eq in E. now subst.
  - intros Hi. split.
    + rewrite Forall_forall in HF. specialize (HF i Hi). exists (N.to_nat i). split; [apply N2Nat.id|]. apply in_seq. lia.
    + apply existsb_exists. exists i. split; [exact Hi | apply N.eqb_refl].
Qed.

(* ascending order, no repetition: what EnumSet.add receives *)
Theorem create_sorted f bits : NoDup (create f bits).
Proof.
  unfold create. apply NoDup_filter. apply FinFun.Injective_map_NoDup; [intros a b H; now apply Nat2N.inj | apply seq_NoDup].
Qed.

(* C++ -> Java -> C++: every value that only uses the declared bits survives *)
Theorem flags_of_create f bits : (bits <= 32)%nat -> f < 2 ^ N.of_nat bits -> flags_of (create f bits) = f.
Proof.
  intros Hb Hf. apply N.bits_inj. intros i. unfold flags_of.
  assert (HF : Forall (fun o => o < width) (create f bits)).
  { apply Forall_forall. intros o Ho. unfold create in Ho. apply filter_In in Ho as [Ho _]. apply in_map_iff in Ho as (k & <- & Hk). apply in_seq in Hk. unfold width. lia. }
  rewrite (flags_of_bit _ HF 0 i), N.bits_0. cbn [orb].
  destruct (N.testbit f i) eqn:Ef.
  - apply existsb_exists. exists i. split; [|apply N.eqb_refl]. unfold create. apply filter_In. split; [|exact Ef].
    assert (Hi : i < N.of_nat bits).
    { destruct (N.lt_ge_cases i (N.of_nat bits)) as [|Hge]; [assumption|]. exfalso.
      destruct (N.eq_dec f 0) as [->|Hnz]; [now rewrite N.bits_0 in Ef|].
      assert (N.log2 f < N.of_nat bits) by (apply N.log2_lt_pow2; lia).
      rewrite N.bits_above_log2 in Ef by lia. discriminate. }
    apply in_map_iff. exists (N.to_nat i). split; [apply N2Nat.id | apply in_seq; lia].
  - destruct (existsb (N.eqb i) (create f bits)) eqn:E; [|reflexivity]. apply existsb_exists in E as (x & Hx & Ex). apply N.eqb_eq in Ex. subst x.
    unfold create in Hx. apply filter_In in Hx as [_ Hx]. congruence.
Qed.

(* a keep-mask (1u << bits) - 1 as in the seeded change C08-m4 is wrong exactly at bits = 32: in 32-bit arithmetic the shift count is out of range and the mask is 0 *)
Example mask_at_width : to_unsigned (N.shiftl 1 32) - 1 = 0 /\ to_unsigned (N.shiftl 1 31) - 1 = N.ones 31.
Proof. vm_compute. split; reflexivity. Qed.
