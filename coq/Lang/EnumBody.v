(* Meaning of the enumerator lists the enum/flags templates print: value expressions of the forms the templates use,
   evaluated with C's rule that an enumerator is visible only after its own declaration; and the specification of
   which expression each flag gets. *)
From Coq Require Import List String Ascii NArith Bool Arith Lia.
From PDV Require Import Lib.StrUtil Jinja.Interp.
Import ListNotations.
Open Scope string_scope. Open Scope list_scope.

Inductive vexpr := VZero | VShift (k : nat) | VOr (names : list string) | VImplicit.
(* "0" | "1u << k" | "0 | a | b ..." | no initialiser (previous + 1, or 0 for the first) *)

Definition print_vexpr (e : vexpr) : string :=
  match e with
  | VZero => "0"
  | VShift k => ("1u << " ++ nat_to_str k)%string
  | VOr names => ("0 | " ++ join " | " names)%string
  | VImplicit => ""
  end.

Fixpoint lookup (n : string) (env : list (string * N)) : option N :=
  match env with [] => None | (k, v) :: r => if String.eqb n k then Some v else lookup n r end.

Fixpoint or_names (env : list (string * N)) (names : list string) : option N :=
  match names with
  | [] => Some 0%N
  | n :: r => match lookup n env, or_names env r with Some v, Some w => Some (N.lor v w) | _, _ => None end
  end.

Definition eval_vexpr (env : list (string * N)) (prev : option N) (e : vexpr) : option N :=
  match e with
  | VZero => Some 0%N
  | VShift k => Some (N.shiftl 1 (N.of_nat k))
  | VOr names => or_names env names
  | VImplicit => Some (match prev with Some p => N.succ p | None => 0%N end)
  end.

(* None: the body does not compile (an enumerator is used before it is declared) *)
Fixpoint eval_body (env : list (string * N)) (prev : option N) (l : list (string * vexpr)) : option (list (string * N)) :=
  match l with
  | [] => Some []
  | (n, e) :: r =>
      match eval_vexpr env prev e with
      | None => None
      | Some v => match eval_body (env ++ [(n, v)]) (Some v) r with Some vs => Some ((n, v) :: vs) | None => None end
      end
  end.

(* ---- flags ---- *)
Record flagrec := mkflagrec { f_name : string; f_depr : string; f_has_comment : bool; f_comment : string; f_none : bool; f_all : bool }.
Definition ordinary (f : flagrec) : bool := negb (f_none f) && negb (f_all f).

Fixpoint flag_enumerators (all_names : list string) (fl : list flagrec) (c : nat) : list (string * vexpr) :=
  match fl with
  | [] => []
  | f :: r => (f_name f, if f_none f then VZero else if f_all f then VOr all_names else VShift c)
              :: flag_enumerators all_names r (if ordinary f then S c else c)
  end.

Definition ordinary_names (fl : list flagrec) : list string := map f_name (filter ordinary fl).
Definition flags_spec (fl : list flagrec) : list (string * vexpr) := flag_enumerators (ordinary_names fl) fl 0.

(* Java: the enum lists exactly the ordinary flags, in order, without initialisers: ordinal = position *)
Definition java_flags_spec (fl : list flagrec) : list (string * vexpr) := map (fun n => (n, VImplicit)) (ordinary_names fl).
(* enums: all items, no initialisers *)
Definition enum_spec (names : list string) : list (string * vexpr) := map (fun n => (n, VImplicit)) names.
