(* Model of Generator.comment_filter (generator.py) and of the escaping of @deprecated messages
   (cpp/objc/cppcli type.py: deprecated), with the lexical notions the property talks about. *)
From Coq Require Import List String Ascii Bool Arith.
From PDV Require Import Lib.StrUtil.
Import ListNotations.
Open Scope string_scope. Open Scope list_scope.

Definition nl : ascii := "010"%char.
Definition star : ascii := "*"%char.
Definition slash : ascii := "/"%char.
Definition bslash : ascii := "\"%char.
Definition dquote : ascii := """"%char.

(* content.replace("*/", "*&#47;") : non-overlapping, left to right *)
Fixpoint neutralize (s : string) : string :=
  match s with
  | String a (String b r as t) =>
      if Ascii.eqb a star && Ascii.eqb b slash then ("*&#47;" ++ neutralize r)%string else String a (neutralize t)
  | String a EmptyString => String a ""
  | EmptyString => ""
  end.

(* does the block-comment terminator occur in s? *)
Fixpoint has_term (s : string) : bool :=
  match s with
  | String a (String b _ as t) => (Ascii.eqb a star && Ascii.eqb b slash) || has_term t
  | _ => false
  end.

(* comment_filter for a generator with start / line prefix / end strings *)
Definition comment_filter (start end_ : option string) (prefix : string) (content : string) : string :=
  let content := match end_ with Some _ => neutralize content | None => content end in
  let body := (prefix ++ join (String nl prefix) (split_on nl content))%string in
  let head := match start with Some s => (s ++ String nl "")%string | None => "" end in
  let tail := match end_ with Some e => (String nl e)%string | None => "" end in
  (head ++ body ++ tail)%string.

(* str.replace(c, r) for a one-character pattern *)
Fixpoint replace_char (c : ascii) (r : string) (s : string) : string :=
  match s with
  | EmptyString => ""
  | String a t => if Ascii.eqb a c then (r ++ replace_char c r t)%string else String a (replace_char c r t)
  end.

(* decl.deprecated.replace('\\', r'\\').replace('\n', r'\n').replace('"', r'\"') *)
Definition escape_msg (m : string) : string :=
  replace_char dquote (String bslash (String dquote ""))
    (replace_char nl (String bslash "n")
       (replace_char bslash (String bslash (String bslash "")) m)).

(* body of a C / C++ / Objective-C string literal: no bare quote, no raw newline, no dangling backslash *)
Fixpoint lit_ok (esc : bool) (s : string) : bool :=
  match s with
  | EmptyString => negb esc
  | String a t =>
      if esc then lit_ok false t
      else if Ascii.eqb a bslash then lit_ok true t
      else if Ascii.eqb a dquote || Ascii.eqb a nl then false
      else lit_ok false t
  end.
