(* Model of Generator.comment_filter (generator.py) and of the escaping of @deprecated messages
   (cpp/objc/cppcli type.py: deprecated), with the lexical notions the property talks about. *)
From Coq Require Import List String Ascii Bool Arith.
From PDV Require Import Lib.StrUtil.
Import ListNotations.
Open Scope string_scope. Open Scope list_scope.

Definition nl : ascii := "010"%char.
Definition star : ascii := "*"%char.
Definition slash : ascii := "/"%char.
Definition bslash : ascii := "\"%char.
Definition dquote : ascii := """"%char.

(* content.replace("*/", "*&#47;") : non-overlapping, left to right *)
Fixpoint neutralize (s : string) : string :=
  match s with
  | String a (String b r as t) =>
      if Ascii.eqb a star && Ascii.eqb b slash then ("*&#47;" ++ neutralize r)%string else String a (neutralize t)
  | String a EmptyString => String a ""
  | EmptyString => ""
  end.

(* does the block-comment terminator occur in s? *)
Fixpoint has_term (s : string) : bool :=
  match s with
  | String a (String b _ as t) => (Ascii.eqb a star && Ascii.eqb b slash) || has_term t
  | _ => false
  end.

(* characters (single bytes) that str.splitlines() - hence Jinja's indent filter - treats as line breaks besides the newline:
   the filter turns them into blanks first (U+0085, U+2028, U+2029 are handled by the implementation as well; the byte-level model
   covers the single-byte ones) *)
Definition is_sep (c : ascii) : bool :=
  let n := nat_of_ascii c in
  Nat.eqb n 13 || Nat.eqb n 11 || Nat.eqb n 12 || Nat.eqb n 28 || Nat.eqb n 29 || Nat.eqb n 30.
Fixpoint flatten (s : string) : string :=
  match s with EmptyString => "" | String c r => String (if is_sep c then " "%char else c) (flatten r) end.

(* line comments: the last backslash of a line that has only blanks after it becomes the entity (it would splice the next line) *)
Definition is_blank (c : ascii) : bool := Ascii.eqb c " "%char || Ascii.eqb c "009"%char.
Fixpoint all_blank (s : string) : bool := match s with EmptyString => true | String c r => is_blank c && all_blank r end.
Fixpoint fix_line (s : string) : string :=
  match s with
  | EmptyString => ""
  | String c r => if Ascii.eqb c bslash && all_blank r then ("&#92;" ++ r)%string else String c (fix_line r)
  end.

(* comment_filter as it was before the repairs of the fourth session (kept for the refutation theorems) *)
Definition comment_filter0 (start end_ : option string) (prefix : string) (content : string) : string :=
  let content := match end_ with Some _ => neutralize content | None => content end in
  let body := (prefix ++ join (String nl prefix) (split_on nl content))%string in
  let head := match start with Some s => (s ++ String nl "")%string | None => "" end in
  let tail := match end_ with Some e => (String nl e)%string | None => "" end in
  (head ++ body ++ tail)%string.

(* comment_filter for a generator with start / line prefix / end strings (generator.py) *)
Definition comment_lines (end_ : option string) (content : string) : list string :=
  let c := flatten content in
  match end_ with Some _ => split_on nl (neutralize c) | None => map fix_line (split_on nl c) end.
Definition comment_filter (start end_ : option string) (prefix : string) (content : string) : string :=
  let body := (prefix ++ join (String nl prefix) (comment_lines end_ content))%string in
  let head := match start with Some s => (s ++ String nl "")%string | None => "" end in
  let tail := match end_ with Some e => (String nl e)%string | None => "" end in
  (head ++ body ++ tail)%string.

(* str.replace(c, r) for a one-character pattern *)
Fixpoint replace_char (c : ascii) (r : string) (s : string) : string :=
  match s with
  | EmptyString => ""
  | String a t => if Ascii.eqb a c then (r ++ replace_char c r t)%string else String a (replace_char c r t)
  end.

(* re.sub(separators, ' ', decl.deprecated).replace('\\', r'\\').replace('\n', r'\n').replace('"', r'\"') *)
Definition escape_msg (m : string) : string :=
  replace_char dquote (String bslash (String dquote ""))
    (replace_char nl (String bslash "n")
       (replace_char bslash (String bslash (String bslash "")) (flatten m))).

(* body of a C / C++ / Objective-C string literal: no bare quote, no raw newline, no dangling backslash *)
Fixpoint lit_ok (esc : bool) (s : string) : bool :=
  match s with
  | EmptyString => negb esc
  | String a t =>
      if esc then lit_ok false t
      else if Ascii.eqb a bslash then lit_ok true t
      else if Ascii.eqb a dquote || Ascii.eqb a nl then false
      else lit_ok false t
  end.
