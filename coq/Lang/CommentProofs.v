From Coq Require Import List String Ascii Bool Arith Lia.
From PDV Require Import Lib.StrUtil Lang.Comment.
Import ListNotations.
Open Scope string_scope. Open Scope list_scope.

(* ---------------- the terminator cannot survive neutralisation ---------------- *)
Definition starts_slash (s : string) : bool := match s with String a _ => Ascii.eqb a slash | _ => false end.
Fixpoint ends_star (s : string) : bool :=
  match s with EmptyString => false | String a EmptyString => Ascii.eqb a star | String _ t => ends_star t end.

Lemma has_term_app a b : has_term (a ++ b) = has_term a || has_term b || (ends_star a && starts_slash b).
Proof.
  induction a as [|x a IH]; [cbn; now rewrite orb_false_r|].
  destruct a as [|y a'].
  - cbn [append ends_star]. destruct b as [|z b']; [cbn; now rewrite andb_false_r|].
    change (has_term (String x (String z b'))) with ((Ascii.eqb x star && Ascii.eqb z slash) || has_term (String z b')).
    cbn [has_term starts_slash orb]. apply orb_comm.
  - change ((String x (String y a') ++ b)%string) with (String x (String y a' ++ b)%string).
    change (has_term (String x (String y a' ++ b))) with
      ((Ascii.eqb x star && Ascii.eqb y slash) || has_term (String y a' ++ b)).
    rewrite IH. cbn [has_term ends_star]. now rewrite !orb_assoc.
Qed.

Lemma neutralize_cons2 a b r :
  neutralize (String a (String b r)) =
  if Ascii.eqb a star && Ascii.eqb b slash then ("*&#47;" ++ neutralize r)%string else String a (neutralize (String b r)).
Proof. reflexivity. Qed.

Lemma neutralize_no_term_aux s :
  has_term (neutralize s) = false /\ (starts_slash (neutralize s) = true -> starts_slash s = true).
Proof.
  remember (String.length s) as n eqn:Hn. revert s Hn.
  induction n as [n IH] using lt_wf_ind. intros s Hn.
  destruct s as [|a [|b r]]; [now split | now split|].
  rewrite neutralize_cons2. destruct (Ascii.eqb a star && Ascii.eqb b slash) eqn:E.
  - destruct (IH (String.length r)) with (s := r) as [H1 H2]; [subst; cbn; lia | reflexivity|].
    split.
    + rewrite has_term_app, H1. cbn. reflexivity.
    + cbn. intros H. discriminate.
  - destruct (IH (String.length (String b r))) with (s := String b r) as [H1 H2]; [subst; cbn; lia | reflexivity|].
    split.
    + remember (neutralize (String b r)) as t eqn:Et. destruct t as [|c t'].
      * reflexivity.
      * change (has_term (String a (String c t'))) with ((Ascii.eqb a star && Ascii.eqb c slash) || has_term (String c t')).
        rewrite H1, orb_false_r. destruct (Ascii.eqb a star) eqn:Ea; [|reflexivity]. cbn.
        destruct (Ascii.eqb c slash) eqn:Ec; [|reflexivity].
        assert (Hs : starts_slash (String b r) = true) by (apply H2; cbn; exact Ec).
        cbn in Hs. rewrite Hs in E. discriminate.
    + cbn. tauto.
Qed.

Theorem neutralize_no_term s : has_term (neutralize s) = false.
Proof. apply neutralize_no_term_aux. Qed.

(* pieces of a terminator-free string are terminator-free *)
Lemma has_term_cons_false a s : has_term (String a s) = false -> has_term s = false.
Proof. destruct s as [|b r]; [reflexivity|]. cbn [has_term]. intros H. apply orb_false_iff in H as [_ H]. exact H. Qed.

Lemma split_no_term c s : has_term s = false -> Forall (fun l => has_term l = false) (split_on c s).
Proof.
  induction s as [|a s IH]; intros H; [repeat constructor|].
  pose proof (has_term_cons_false _ _ H) as Hs. specialize (IH Hs). cbn [split_on].
  destruct (Ascii.eqb a c); [constructor; [reflexivity | exact IH]|].
  destruct (split_on c s) as [|p ps] eqn:E; [repeat constructor|].
  inversion IH as [|? ? Hp Hps]; subst. constructor; [|exact Hps].
  (* String a p is a prefix of String a s *)
  clear - H E. revert p ps E H. intros p ps E H.
  assert (Hpre : exists t, s = (p ++ t)%string).
  { clear H. revert p ps E. induction s as [|x s IHs]; intros p ps E; cbn [split_on] in E.
    - injection E as <- _. now exists "".
    - destruct (Ascii.eqb x c) eqn:Ex.
      + injection E as <- _. now exists (String x s).
      + destruct (split_on c s) as [|q qs] eqn:E2; [injection E as <- _; now exists s|].
        injection E as <- _. destruct (IHs q qs eq_refl) as [t ->]. now exists t. }
  destruct Hpre as [t ->]. change (String a (p ++ t)%string) with ((String a p ++ t)%string) in H.
  rewrite has_term_app in H. apply orb_false_iff in H as [H _]. apply orb_false_iff in H as [H _]. exact H.
Qed.

Lemma ends_star_app a b : b <> "" -> ends_star (a ++ b) = ends_star b.
Proof.
  intros Hb. induction a as [|x a IH]; [reflexivity|]. cbn [append].
  destruct (a ++ b)%string as [|y r] eqn:E.
  - destruct a, b; cbn in E; try discriminate. contradiction.
  - cbn [ends_star]. exact IH.
Qed.

(* joining terminator-free lines with a separator that neither starts with '/' nor ends with '*' *)
Lemma join_no_term sep lines :
  has_term sep = false -> starts_slash sep = false -> ends_star sep = false -> sep <> "" ->
  Forall (fun l => has_term l = false) lines -> has_term (join sep lines) = false.
Proof.
  intros Hs Hss Hes Hne HF. induction lines as [|x l IH]; [reflexivity|].
  inversion HF as [|? ? Hx Hl]; subst. destruct l as [|y l']; [exact Hx|].
  rewrite join_cons_cons. set (J := join sep (y :: l')) in *.
  assert (Hst : starts_slash (sep ++ J) = false) by (destruct sep; [contradiction | exact Hss]).
  rewrite has_term_app, Hx, Hst, andb_false_r. cbn [orb].
  rewrite has_term_app, Hs, (IH Hl), Hes. reflexivity.
Qed.

(* C12: with the block syntax of the C++/Java/C++-CLI generators the terminator occurs exactly once, at the very end *)
Definition BLOCK_START := "/**".
Definition BLOCK_PREFIX := " * ".
Definition BLOCK_END := " */".

Theorem comment_closed_only_at_end content :
  exists body, comment_filter (Some BLOCK_START) (Some BLOCK_END) BLOCK_PREFIX content = (body ++ "*/")%string /\
               has_term body = false /\ ends_star body = false.
Proof.
  unfold comment_filter, comment_lines, BLOCK_START, BLOCK_PREFIX, BLOCK_END.
  set (lines := split_on nl (neutralize (flatten content))).
  assert (HL : Forall (fun l => has_term l = false) lines) by (apply split_no_term, neutralize_no_term).
  set (j := join (String nl " * ") lines).
  assert (Hj : has_term j = false).
  { apply join_no_term; try reflexivity; [discriminate | exact HL]. }
  set (pre := ("/**" ++ String nl "" ++ " * ")%string).
  set (post := String nl " ").
  exists (pre ++ (j ++ post))%string. split.
  - unfold pre, post. rewrite !app_assoc_s. reflexivity.
  - assert (Hmp : has_term (j ++ post) = false).
    { rewrite has_term_app, Hj. replace (has_term post) with false by reflexivity.
      replace (starts_slash post) with false by reflexivity. now rewrite andb_false_r. }
    split.
    + rewrite has_term_app, Hmp. replace (has_term pre) with false by reflexivity.
      replace (ends_star pre) with false by reflexivity. reflexivity.
    + rewrite ends_star_app; [|destruct j; discriminate]. rewrite ends_star_app by discriminate. reflexivity.
Qed.

(* line comments (Objective-C: no start/end string): every line of the output carries the prefix *)
Theorem line_comment_prefixed prefix content :
  comment_filter None None prefix content = (prefix ++ join (String nl prefix) (map fix_line (split_on nl (flatten content))))%string.
Proof. unfold comment_filter, comment_lines. now rewrite app_nil_r_s. Qed.

(* ---------------- @deprecated messages are well-formed string literal bodies ---------------- *)
Definition esc_char (a : ascii) : string :=
  if Ascii.eqb a bslash then String bslash (String bslash "")
  else if Ascii.eqb a nl then String bslash "n"
  else if Ascii.eqb a dquote then String bslash (String dquote "")
  else String a "".

Fixpoint esc_map (s : string) : string :=
  match s with EmptyString => "" | String a t => (esc_char a ++ esc_map t)%string end.

Lemma replace_char_app c r a b : replace_char c r (a ++ b) = (replace_char c r a ++ replace_char c r b)%string.
Proof.
  induction a as [|x a IH]; [reflexivity|]. cbn. destruct (Ascii.eqb x c); rewrite IH; [now rewrite app_assoc_s | reflexivity].
Qed.

(* the three sequential str.replace calls are one simultaneous per-character substitution *)
Definition escape0 (m : string) : string :=
  replace_char dquote (String bslash (String dquote "")) (replace_char nl (String bslash "n") (replace_char bslash (String bslash (String bslash "")) m)).
Lemma escape0_is_esc_map m : escape0 m = esc_map m.
Proof.
  unfold escape0. induction m as [|a m IH]; [reflexivity|].
  cbn [replace_char esc_map]. unfold esc_char.
  destruct (Ascii.eqb_spec a bslash) as [->|Hb].
  - rewrite !replace_char_app, IH. reflexivity.
  - cbn [replace_char]. destruct (Ascii.eqb_spec a nl) as [->|Hn].
    + rewrite !replace_char_app, IH. reflexivity.
    + cbn [replace_char]. destruct (Ascii.eqb_spec a dquote) as [->|Hq].
      * rewrite IH. reflexivity.
      * rewrite IH. reflexivity.
Qed.
Theorem escape_msg_is_esc_map m : escape_msg m = esc_map (flatten m).
Proof. exact (escape0_is_esc_map (flatten m)). Qed.

Lemma lit_ok_esc_char a t : lit_ok false (esc_char a ++ t) = lit_ok false t.
Proof.
  unfold esc_char.
  destruct (Ascii.eqb_spec a bslash) as [->|Hb]; [reflexivity|].
  destruct (Ascii.eqb_spec a nl) as [->|Hn]; [reflexivity|].
  destruct (Ascii.eqb_spec a dquote) as [->|Hq]; [reflexivity|].
  cbn. destruct (Ascii.eqb_spec a bslash); [contradiction|].
  destruct (Ascii.eqb_spec a dquote); [contradiction|]. destruct (Ascii.eqb_spec a nl); [contradiction|]. reflexivity.
Qed.

(* C12: whatever the message contains, the emitted literal body is well formed *)
Theorem deprecated_literal_well_formed m : lit_ok false (escape_msg m) = true.
Proof.
  rewrite escape_msg_is_esc_map. induction (flatten m) as [|a x IH]; [reflexivity|].
  cbn [esc_map]. now rewrite lit_ok_esc_char.
Qed.

(* what the repaired code fixed: without the backslash step a trailing backslash escapes the closing quote *)
Example old_escaping_refuted :
  lit_ok false (replace_char dquote (String bslash (String dquote "")) (replace_char nl (String bslash "n") (String bslash ""))) = false.
Proof. reflexivity. Qed.
