(* Meaning of the derived record operations as the templates print them: the && chain of operator== / equals, the
   if-cascade of operator< / compareTo, the hashCode fold.  Field values live in a carrier V with per-field comparison
   functions; what is assumed about those (the behaviour of ==, <, equals, compareTo, hashCode of the field types in
   C++ / Java) is stated as hypotheses of the section. *)
From Coq Require Import List Bool Arith ZArith Lia.
Import ListNotations.

Section Ops.
  Variable V : Type.
  Variable dflt : V.
  Variable eqf : nat -> V -> V -> bool.      (* field i: lhs.f == rhs.f  /  f.equals(other.f) *)
  Variable ltf : nat -> V -> V -> bool.      (* field i: lhs.f < rhs.f   /  compareTo < 0 *)
  Variable hcf : nat -> V -> Z.              (* field i: Java hash term *)

  Definition get (i : nat) (r : list V) : V := nth i r dflt.

  (* return lhs.f1 == rhs.f1 && ... && lhs.fn == rhs.fn;   (true for no fields) *)
  Fixpoint eq_chain (fs : list nat) (a b : list V) : bool :=
    match fs with [] => true | i :: r => eqf i (get i a) (get i b) && eq_chain r a b end.

  (* if (lhs.f < rhs.f) return true; if (rhs.f < lhs.f) return false; ... return false; *)
  Fixpoint lt_cascade (fs : list nat) (a b : list V) : bool :=
    match fs with
    | [] => false
    | i :: r => if ltf i (get i a) (get i b) then true else if ltf i (get i b) (get i a) then false else lt_cascade r a b
    end.

  Definition neq fs a b := negb (eq_chain fs a b).          (* !(lhs == rhs) *)
  Definition gt fs a b := lt_cascade fs b a.                 (* rhs < lhs *)
  Definition le fs a b := negb (lt_cascade fs b a).          (* !(rhs < lhs) *)
  Definition ge fs a b := negb (lt_cascade fs a b).          (* !(lhs < rhs) *)

  (* int hashCode = 17; hashCode = hashCode * 31 + term_i;  in 32-bit arithmetic *)
  Definition wrap (z : Z) : Z := (z mod 4294967296)%Z.
  Definition hash (fs : list nat) (a : list V) : Z := fold_left (fun h i => wrap (h * 31 + hcf i (get i a))) fs 17%Z.

  (* compareTo: tempResult per field, first non-zero wins *)
  Definition cmpf (i : nat) (x y : V) : Z := if ltf i x y then (-1)%Z else if ltf i y x then 1%Z else 0%Z.
  Fixpoint cmp_cascade (fs : list nat) (a b : list V) : Z :=
    match fs with [] => 0%Z | i :: r => let c := cmpf i (get i a) (get i b) in if Z.eqb c 0 then cmp_cascade r a b else c end.

  (* ---- what the field types guarantee ---- *)
  Hypothesis eq_refl_f : forall i x, eqf i x x = true.
  Hypothesis eq_sym_f : forall i x y, eqf i x y = eqf i y x.
  Hypothesis eq_trans_f : forall i x y z, eqf i x y = true -> eqf i y z = true -> eqf i x z = true.
  Hypothesis lt_irrefl_f : forall i x, ltf i x x = false.
  Hypothesis lt_trans_f : forall i x y z, ltf i x y = true -> ltf i y z = true -> ltf i x z = true.
  Hypothesis tricho_f : forall i x y, (ltf i x y = false /\ ltf i y x = false) <-> eqf i x y = true.
  Hypothesis hash_compat_f : forall i x y, eqf i x y = true -> hcf i x = hcf i y.

  Theorem eq_chain_iff fs a b : eq_chain fs a b = true <-> forall i, In i fs -> eqf i (get i a) (get i b) = true.
  Proof.
    induction fs as [|i r IH]; cbn; [split; [intros _ j [] | reflexivity]|].
    rewrite andb_true_iff, IH. split.
    - intros [H1 H2] j [<-|Hj]; auto.
    - intros H. split; [apply H; now left | intros j Hj; apply H; now right].
  Qed.

  Theorem eq_chain_refl fs a : eq_chain fs a a = true.
  Proof. apply eq_chain_iff. intros i _. apply eq_refl_f. Qed.
  Theorem eq_chain_sym fs a b : eq_chain fs a b = eq_chain fs b a.
  Proof. induction fs as [|i r IH]; cbn; [reflexivity|]. now rewrite eq_sym_f, IH. Qed.
  Theorem eq_chain_trans fs a b c : eq_chain fs a b = true -> eq_chain fs b c = true -> eq_chain fs a c = true.
  Proof. rewrite !eq_chain_iff. intros H1 H2 i Hi. eapply eq_trans_f; [apply H1 | apply H2]; assumption. Qed.
  Theorem neq_is_negation fs a b : neq fs a b = negb (eq_chain fs a b).
  Proof. reflexivity. Qed.

  (* < is the lexicographic order of the fields in the printed order *)
  Theorem lt_cascade_lex fs a b :
    lt_cascade fs a b = true <->
    exists pre i post, fs = pre ++ i :: post /\ (forall j, In j pre -> eqf j (get j a) (get j b) = true) /\ ltf i (get i a) (get i b) = true.
  Proof.
    induction fs as [|k r IH]; cbn.
    - split; [discriminate | intros (pre & i & post & E & _); destruct pre; discriminate].
    - destruct (ltf k (get k a) (get k b)) eqn:E1.
      + split; [intros _; exists [], k, r; repeat split; [intros j [] | exact E1] | reflexivity].
      + destruct (ltf k (get k b) (get k a)) eqn:E2.
        * split; [discriminate|]. intros (pre & i & post & E & Hpre & Hlt). destruct pre as [|p pre'].
          -- cbn in E. injection E as <- _. congruence.
          -- cbn in E. injection E as <- _. assert (H := Hpre k (or_introl Logic.eq_refl)). apply tricho_f in H as [_ H]. congruence.
        * rewrite IH. split.
          -- intros (pre & i & post & -> & Hpre & Hlt). exists (k :: pre), i, post. repeat split; [|exact Hlt].
             intros j [<-|Hj]; [apply tricho_f; now split | now apply Hpre].
          -- intros (pre & i & post & E & Hpre & Hlt). destruct pre as [|p pre'].
             ++ cbn in E. injection E as <- _. congruence.
             ++ cbn in E. injection E as <- ->. exists pre', i, post. repeat split; [|exact Hlt]. intros j Hj. apply Hpre. now right.
  Qed.

  Theorem lt_cascade_irrefl fs a : lt_cascade fs a a = false.
  Proof. induction fs as [|i r IH]; cbn; [reflexivity|]. now rewrite lt_irrefl_f. Qed.

  Lemma lt_asym_f i x y : ltf i x y = true -> ltf i y x = false.
  Proof.
    intros H. destruct (ltf i y x) eqn:E; [|reflexivity]. pose proof (lt_trans_f i x y x H E) as T. rewrite lt_irrefl_f in T. discriminate.
  Qed.

  Lemma eq_lt_l i x y z : eqf i x y = true -> ltf i y z = true -> ltf i x z = true.
  Proof.
    intros He Hl. apply tricho_f in He as [H1 H2].
    destruct (ltf i x z) eqn:E; [reflexivity|]. exfalso.
    destruct (ltf i z x) eqn:E2.
    - pose proof (lt_trans_f i y z x Hl E2). congruence.
    - assert (Hxz : eqf i x z = true) by (apply tricho_f; now split).
      assert (Hyz : eqf i y z = true).
      { eapply eq_trans_f; [|exact Hxz]. rewrite eq_sym_f. apply tricho_f. now split. }
      apply tricho_f in Hyz as [H _]. congruence.
  Qed.

  Lemma eq_lt_r i x y z : ltf i x y = true -> eqf i y z = true -> ltf i x z = true.
  Proof.
    intros Hl He. apply tricho_f in He as [H1 H2].
    destruct (ltf i x z) eqn:E; [reflexivity|]. exfalso.
    destruct (ltf i z x) eqn:E2.
    - pose proof (lt_trans_f i z x y E2 Hl). congruence.
    - assert (Hxz : eqf i x z = true) by (apply tricho_f; now split).
      assert (Hxy : eqf i x y = true).
      { eapply eq_trans_f; [exact Hxz|]. rewrite eq_sym_f. apply tricho_f. now split. }
      apply tricho_f in Hxy as [H _]. congruence.
  Qed.

  Theorem lt_cascade_trans fs : forall a b c, lt_cascade fs a b = true -> lt_cascade fs b c = true -> lt_cascade fs a c = true.
  Proof.
    induction fs as [|i r IH]; intros a b c; cbn; [discriminate|].
    destruct (ltf i (get i a) (get i b)) eqn:Eab.
    - intros _. destruct (ltf i (get i b) (get i c)) eqn:Ebc.
      + intros _. now rewrite (lt_trans_f _ _ _ _ Eab Ebc).
      + destruct (ltf i (get i c) (get i b)) eqn:Ecb; [discriminate|]. intros _.
        assert (He : eqf i (get i b) (get i c) = true) by (apply tricho_f; now split).
        now rewrite (eq_lt_r _ _ _ _ Eab He).
    - destruct (ltf i (get i b) (get i a)) eqn:Eba; [discriminate|].
      assert (He : eqf i (get i a) (get i b) = true) by (apply tricho_f; now split).
      intros Hab. destruct (ltf i (get i b) (get i c)) eqn:Ebc.
      + intros _. now rewrite (eq_lt_l _ _ _ _ He Ebc).
      + destruct (ltf i (get i c) (get i b)) eqn:Ecb; [discriminate|]. intros Hbc.
        assert (He2 : eqf i (get i b) (get i c) = true) by (apply tricho_f; now split).
        assert (He3 : eqf i (get i a) (get i c) = true) by (eapply eq_trans_f; eassumption).
        apply tricho_f in He3 as [-> ->]. now apply (IH a b c).
  Qed.

  (* total modulo ==, and consistent with == *)
  Theorem lt_cascade_total fs a b : lt_cascade fs a b = true \/ lt_cascade fs b a = true \/ eq_chain fs a b = true.
  Proof.
    induction fs as [|i r IH]; cbn; [right; now right|].
    destruct (ltf i (get i a) (get i b)) eqn:E1; [now left|].
    destruct (ltf i (get i b) (get i a)) eqn:E2; [right; now left|].
    assert (He : eqf i (get i a) (get i b) = true) by (apply tricho_f; now split). rewrite He. cbn. exact IH.
  Qed.

  Theorem eq_excludes_lt fs a b : eq_chain fs a b = true -> lt_cascade fs a b = false.
  Proof.
    induction fs as [|i r IH]; cbn; [reflexivity|]. intros H. apply andb_true_iff in H as [H1 H2].
    apply tricho_f in H1 as [-> ->]. now apply IH.
  Qed.

  Theorem derived_order_ops fs a b :
    gt fs a b = lt_cascade fs b a /\ le fs a b = negb (lt_cascade fs b a) /\ ge fs a b = negb (lt_cascade fs a b).
  Proof. repeat split. Qed.

  (* Java: equals => equal hash codes (any number of fields, 32-bit wrap-around included) *)
  Theorem equals_hash fs : forall a b, eq_chain fs a b = true -> hash fs a = hash fs b.
  Proof.
    unfold hash. generalize 17%Z. induction fs as [|i r IH]; intros h a b H; [reflexivity|].
    cbn in H. apply andb_true_iff in H as [H1 H2]. cbn [fold_left]. rewrite (hash_compat_f _ _ _ H1). now apply IH.
  Qed.

  (* Java: compareTo is the same lexicographic order and is 0 exactly when equals holds *)
  Theorem cmp_negative_iff_lt fs a b : (cmp_cascade fs a b <? 0)%Z = lt_cascade fs a b.
  Proof.
    induction fs as [|i r IH]; cbn; [reflexivity|]. unfold cmpf.
    destruct (ltf i (get i a) (get i b)); [reflexivity|]. destruct (ltf i (get i b) (get i a)); [reflexivity|]. exact IH.
  Qed.

  Theorem cmp_zero_iff_equals fs a b : cmp_cascade fs a b = 0%Z <-> eq_chain fs a b = true.
  Proof.
    induction fs as [|i r IH]; cbn; [split; reflexivity|]. unfold cmpf.
    destruct (ltf i (get i a) (get i b)) eqn:E1.
    - split; [discriminate|]. intros H. apply andb_true_iff in H as [H _]. apply tricho_f in H as [H _]. congruence.
    - destruct (ltf i (get i b) (get i a)) eqn:E2.
      + split; [discriminate|]. intros H. apply andb_true_iff in H as [H _]. apply tricho_f in H as [_ H]. congruence.
      + cbn. assert (He : eqf i (get i a) (get i b) = true) by (apply tricho_f; now split). rewrite He. cbn. exact IH.
  Qed.
End Ops.
