(* Initial front-end state: the registry pre-loaded with the built-in types reflected from /repo (Gen/Builtins.v),
   as API.ConfiguredContext.parse does before it creates the Parser. *)
From Coq Require Import List String Bool Arith.
From PDV Require Import Lib.StrUtil Idl.Cst Idl.Ast Idl.Resolver Idl.Visitor Idl.Front Gen.Builtins.
Import ListNotations.
Open Scope string_scope. Open Scope list_scope.

Definition prim_of_string (s : string) : prim :=
  if String.eqb s "collection" then PCollection else if String.eqb s "interface" then PInterface
  else if String.eqb s "record" then PRecord else if String.eqb s "enum" then PEnum else if String.eqb s "flags" then PFlags
  else if String.eqb s "function" then PFunction else if String.eqb s "error" then PError else PPrimitive.

Definition builtin_tdefs : list tdef :=
  map (fun b => match b with (n, ns, p, ps) => mktdef n ns (prim_of_string p) ps end) builtin_types.

Definition init_registry : registry tdef :=
  match register_all [] (map (fun t => (td_ns t, td_name t, t)) builtin_tdefs) with Some r => r | None => [] end.

Definition init_state : vst := mkvst [] [] [] [] [] [] init_registry 0 [].

(* Python's recursion limit (1000) over the ~13 interpreter frames one @import level costs *)
Definition IMPORT_FUEL := 70.

Definition run_front (w : world) (deriving incdirs : list string) (idl : string) : res parsed :=
  parse w target_keys deriving incdirs IMPORT_FUEL idl None init_state.
