(* What follows a boundary character cannot change how the text in front of it is tokenised.
   For a rule table that passes the computable check table_ok c (every greedy rule either never accepts c or is a run of single
   characters that accept c; every non-greedy rule starts with a literal character no other rule can start with), if the lexing of
   x ++ c :: b has a lexeme boundary at |x| and no lexical error before it, the lexing of x ++ c :: b' starts with the same lexemes
   (same types, texts, lines, columns) - for ANY b'.  With c = newline: nothing after a line break (indentation, blank lines, the next
   lines) influences the tokens of the lines before it. *)
From Coq Require Import List String Ascii Bool Arith Lia.
From PDV Require Import Lib.StrUtil Lang.Comment Idl.GrammarDefs Idl.Lexer Idl.LexParseProofs Idl.LexLemmas.
Import ListNotations.
Open Scope string_scope. Open Scope list_scope.

(* ---------------- max / min of length lists ---------------- *)
Lemma max_list_ge l : forall n, In n l -> n <= max_list l.
Proof. induction l as [|x l IH]; intros n H; [contradiction|]. change (max_list (x :: l)) with (Nat.max x (max_list l)). destruct H as [->|H]; [lia | specialize (IH n H); lia]. Qed.
Lemma max_list_in l : max_list l = 0 \/ In (max_list l) l.
Proof.
  induction l as [|x l IH]; [now left|]. change (max_list (x :: l)) with (Nat.max x (max_list l)). destruct (Nat.max_spec x (max_list l)) as [[H ->]|[H ->]].
  - destruct IH as [E|I]; [left; lia | right; now right].
  - right. now left.
Qed.
Lemma max_list_ext l l' : (forall n, In n l <-> In n l') -> max_list l = max_list l'.
Proof.
  intros H. apply Nat.le_antisymm.
  - destruct (max_list_in l) as [E|I]; [lia|]. apply max_list_ge. now apply H.
  - destruct (max_list_in l') as [E|I]; [lia|]. apply max_list_ge. now apply H.
Qed.
Lemma min_pos_spec l :
  (min_pos l = 0 /\ forall n, In n l -> n = 0) \/ (0 < min_pos l /\ In (min_pos l) l /\ forall n, In n l -> 0 < n -> min_pos l <= n).
Proof.
  induction l as [|x l IH]; [left; split; [reflexivity | contradiction]|].
  change (min_pos (x :: l)) with (if Nat.eqb x 0 then min_pos l else if Nat.eqb (min_pos l) 0 then x else Nat.min x (min_pos l)).
  destruct (Nat.eqb x 0) eqn:Ex.
  - apply Nat.eqb_eq in Ex. subst x. destruct IH as [[E H]|(P & I & H)].
    + left. split; [exact E|]. intros n [<-|Hn]; [reflexivity | now apply H].
    + right. split; [exact P|]. split; [now right|]. intros n [<-|Hn] Hp; [lia | now apply H].
  - apply Nat.eqb_neq in Ex. destruct (Nat.eqb (min_pos l) 0) eqn:Em.
    + apply Nat.eqb_eq in Em. right. split; [lia|]. split; [now left|]. intros n [<-|Hn] Hp; [lia|].
      destruct IH as [[_ H]|(P & _)]; [specialize (H n Hn); lia | lia].
    + apply Nat.eqb_neq in Em. destruct IH as [[E _]|(P & I & H)]; [lia|]. right. split; [lia|]. split.
      * destruct (Nat.min_spec x (min_pos l)) as [[_ ->]|[_ ->]]; [now left | now right].
      * intros n [<-|Hn] Hp; [lia | specialize (H n Hn Hp); lia].
Qed.
Lemma min_pos_unique l m : 0 < m -> In m l -> (forall n, In n l -> 0 < n -> m <= n) -> min_pos l = m.
Proof.
  intros Hm Hi Hl. destruct (min_pos_spec l) as [[_ H]|(P & I & H)]; [specialize (H m Hi); lia|].
  apply Nat.le_antisymm; [now apply H | now apply Hl].
Qed.

(* ---------------- no positive-length match on a string that starts with h ---------------- *)
Fixpoint nullable (p : lpat) : bool :=
  match p with
  | LLit l => match l with EmptyString => true | _ => false end
  | LSet _ _ | LAny => false
  | LSeq ps => (fix go (l : list lpat) : bool := match l with [] => true | x :: r => nullable x && go r end) ps
  | LAlt ps => (fix go (l : list lpat) : bool := match l with [] => false | x :: r => nullable x || go r end) ps
  | LStar _ | LOpt _ => true
  | LPlus q => nullable q
  end.
Fixpoint nomatch_first (h : ascii) (p : lpat) : bool :=
  match p with
  | LLit l => match l with EmptyString => true | String a _ => negb (Ascii.eqb a h) end
  | LSet neg rs => negb (xorb neg (in_ranges h rs))
  | LAny => false
  | LSeq ps => (fix go (l : list lpat) : bool := match l with [] => true | x :: r => nomatch_first h x && (if nullable x then go r else true) end) ps
  | LAlt ps => (fix go (l : list lpat) : bool := match l with [] => true | x :: r => nomatch_first h x && go r end) ps
  | LStar q | LPlus q | LOpt q => nomatch_first h q
  end.

Theorem not_nullable : forall p, nullable p = false -> forall s, ~ In 0 (mlens p s).
Proof.
  induction p as [l|b rs| |ps IH|ps IH|q IH|q IH|q IH] using lpat_ind2; intros Hn s H.
  - cbn in Hn, H. destruct l; [discriminate|]. destruct (String.prefix (String a l) s); [|contradiction]. destruct H as [H|[]]. discriminate.
  - cbn in H. destruct s; [contradiction|]. destruct (xorb b (in_ranges a rs)); [|contradiction]. destruct H as [H|[]]. discriminate.
  - cbn in H. destruct s; [contradiction|]. destruct H as [H|[]]. discriminate.
  - rewrite mlens_seq in H. cbn [nullable] in Hn. revert s H. induction IH as [|q r Hq _ IHr]; intros s H; [discriminate|].
    apply in_seq_lens in H as (n1 & n2 & E & H1 & H2). assert (n1 = 0 /\ n2 = 0) as [-> ->] by lia.
    apply andb_false_iff in Hn as [Hn|Hn]; [exact (Hq Hn _ H1) | exact (IHr Hn _ H2)].
  - rewrite mlens_alt in H. apply in_alt_lens in H as (q & Hq & H). cbn [nullable] in Hn. rewrite Forall_forall in IH.
    assert (Hqn : nullable q = false).
    { clear - Hn Hq. induction ps as [|x r IHp]; [contradiction|]. apply orb_false_iff in Hn as [Hx Hr]. destruct Hq as [<-|Hq]; [exact Hx | now apply IHp]. }
    exact (IH q Hq Hqn s H).
  - discriminate.
  - cbn [nullable] in Hn. cbn [mlens] in H. destruct (single_char q) as [pr|].
    + apply in_seq1 in H. lia.
    + apply in_nodup, in_flat_map in H as (n1 & H1 & H). apply in_map_iff in H as (n2 & E & _). assert (n1 = 0) as -> by lia. exact (IH Hn _ H1).
  - discriminate.
Qed.

Theorem nomatch_first_sound h : forall p, nomatch_first h p = true -> forall r n, In n (mlens p (String h r)) -> n = 0.
Proof.
  induction p as [l|b rs| |ps IH|ps IH|q IH|q IH|q IH] using lpat_ind2; intros Hn r n H.
  - cbn in Hn. destruct l as [|a l]; [cbn in H; destruct H as [<-|[]]; reflexivity|].
    cbn [mlens] in H. cbn [String.prefix] in H. apply negb_true_iff in Hn. destruct (Ascii.ascii_dec a h) as [->|]; [rewrite Ascii.eqb_refl in Hn; discriminate | contradiction].
  - cbn in Hn, H. apply negb_true_iff in Hn. rewrite Hn in H. contradiction.
  - discriminate.
  - rewrite mlens_seq in H. cbn [nomatch_first] in Hn. revert n H. induction IH as [|q rr Hq _ IHr]; intros n H.
    + now destruct H as [<-|[]].
    + apply andb_true_iff in Hn as [Hq1 Hrest]. apply in_seq_lens in H as (n1 & n2 & -> & H1 & H2).
      pose proof (Hq Hq1 _ _ H1) as ->. cbn [sdrop] in H2. destruct (nullable q) eqn:Eq.
      * now rewrite (IHr Hrest _ H2).
      * exfalso. exact (not_nullable q Eq _ H1).
  - rewrite mlens_alt in H. apply in_alt_lens in H as (q & Hq & H). cbn [nomatch_first] in Hn. rewrite Forall_forall in IH.
    assert (Hqn : nomatch_first h q = true).
    { clear - Hn Hq. induction ps as [|x rr IHp]; [contradiction|]. apply andb_true_iff in Hn as [Hx Hr]. destruct Hq as [<-|Hq]; [exact Hx | now apply IHp]. }
    exact (IH q Hq Hqn r n H).
  - cbn [nomatch_first] in Hn. cbn [mlens] in H. destruct (single_char q) as [pr|] eqn:Es.
    + apply in_seq0 in H. assert (run_len pr (String h r) = 0); [|lia].
      destruct q as [l|b rs| | | | | |]; cbn in Es; try discriminate.
      * destruct l as [|a [|? ?]]; try discriminate. injection Es as <-. cbn in Hn |- *. apply negb_true_iff in Hn. now rewrite Hn.
      * injection Es as <-. cbn in Hn |- *. apply negb_true_iff in Hn. now rewrite Hn.
    + apply in_nodup, star_loop_dec in H. inversion H as [|s0 n1 n2 H1 Hp Hd]; subst; [reflexivity|]. specialize (IH Hn _ _ H1). lia.
  - cbn [nomatch_first] in Hn. cbn [mlens] in H. destruct (single_char q) as [pr|] eqn:Es.
    + apply in_seq1 in H. assert (run_len pr (String h r) = 0); [|lia].
      destruct q as [l|b rs| | | | | |]; cbn in Es; try discriminate.
      * destruct l as [|a [|? ?]]; try discriminate. injection Es as <-. cbn in Hn |- *. apply negb_true_iff in Hn. now rewrite Hn.
      * injection Es as <-. cbn in Hn |- *. apply negb_true_iff in Hn. now rewrite Hn.
    + apply in_nodup, in_flat_map in H as (n1 & H1 & H). apply in_map_iff in H as (n2 & <- & H2). pose proof (IH Hn _ _ H1) as ->.
      cbn [sdrop] in H2. apply star_loop_dec in H2. inversion H2 as [|s0 n1 n2' H1' Hp Hd]; subst; [reflexivity|]. specialize (IH Hn _ _ H1'). lia.
  - cbn [nomatch_first] in Hn. cbn [mlens] in H. destruct H as [<-|H]; [reflexivity | exact (IH Hn _ _ H)].
Qed.

(* ---------------- the rule table ---------------- *)
Definition rule := (string * (bool * bool * lpat))%type.
Definition r_name (r : rule) : string := fst r.
Definition r_lazy (r : rule) : bool := snd (fst (snd r)).
Definition r_pat (r : rule) : lpat := snd (snd r).

(* a greedy rule that is a run of single characters accepting c *)
Definition run_over (c : ascii) (p : lpat) : option (ascii -> bool) :=
  match p with
  | LPlus q => match single_char q with Some pr => if pr c then Some pr else None | None => None end
  | _ => None
  end.
(* a greedy rule of the form  literal  (single character accepting c)*  - e.g. a line comment and the blank *)
Definition tail_run (c : ascii) (p : lpat) : option (string * (ascii -> bool)) :=
  match p with
  | LSeq [LLit l; LStar q] => match single_char q with Some pr => if pr c && negb (has_char c l) then Some (l, pr) else None | None => None end
  | _ => None
  end.
Definition lazy_head (p : lpat) : option ascii :=
  match p with LSeq (LLit (String h EmptyString) :: _) => Some h | _ => None end.

Definition rule_ok (c : ascii) (rules : list rule) (r : rule) : bool :=
  if r_lazy r then
    match lazy_head (r_pat r) with
    | Some h => forallb (fun r' => String.eqb (r_name r') (r_name r) || nomatch_first h (r_pat r')) rules
    | None => false
    end
  else avoids c (r_pat r) || match run_over c (r_pat r) with Some _ => true | None => false end
       || match tail_run c (r_pat r) with Some _ => true | None => false end.

Fixpoint nodup_names (l : list string) : bool :=
  match l with [] => true | x :: r => negb (existsb (String.eqb x) r) && nodup_names r end.
Definition table_ok (c : ascii) (rules : list rule) : bool :=
  nodup_names (map r_name rules) && forallb (rule_ok c rules) rules.

(* ---------------- best_rule: what it returns, and that it only depends on the rule lengths ---------------- *)
Lemma best_rule_spec rules s nm sk n : best_rule rules s = Some (nm, sk, n) ->
  (exists r, In (nm, r) rules /\ rule_len r s = n /\ sk = fst (fst r)) /\ (forall nm' r', In (nm', r') rules -> rule_len r' s <= n) /\ 0 < n.
Proof.
  revert nm sk n. induction rules as [|[nm0 r0] rest IH]; intros nm sk n H; [discriminate|].
  cbn [best_rule] in H. destruct (best_rule rest s) as [[[nm1 sk1] n1]|] eqn:E.
  - destruct (IH _ _ _ eq_refl) as ((r1 & Hin & Hl & Hs) & Hmax & Hp).
    destruct (Nat.ltb (rule_len r0 s) n1) eqn:El.
    + injection H as <- <- <-. apply Nat.ltb_lt in El. split; [exists r1; split; [now right | split; assumption]|]. split; [|exact Hp].
      intros nm' r' [[= <- <-]|Hi]; [lia | exact (Hmax _ _ Hi)].
    + apply Nat.ltb_ge in El. destruct (Nat.eqb (rule_len r0 s) 0) eqn:Ez; [apply Nat.eqb_eq in Ez; lia|].
      injection H as <- <- <-. apply Nat.eqb_neq in Ez. split; [exists r0; split; [now left | split; reflexivity]|]. split; [|lia].
      intros nm' r' [[= <- <-]|Hi]; [lia | specialize (Hmax _ _ Hi); lia].
  - destruct (Nat.eqb (rule_len r0 s) 0) eqn:Ez; [discriminate|]. injection H as <- <- <-. apply Nat.eqb_neq in Ez.
    split; [exists r0; split; [now left | split; reflexivity]|]. split; [|lia].
    intros nm' r' [[= <- <-]|Hi]; [lia|].
    (* every rule of rest has length 0, otherwise best_rule rest would not be None *)
    clear - E Hi. induction rest as [|[nm2 r2] rest IH]; [contradiction|]. cbn [best_rule] in E.
    destruct (best_rule rest s) as [[[? ?] ?]|] eqn:E2.
    + destruct (Nat.ltb (rule_len r2 s) n); [discriminate|]. destruct (Nat.eqb (rule_len r2 s) 0); discriminate.
    + destruct (Nat.eqb (rule_len r2 s) 0) eqn:Ez; [|discriminate]. apply Nat.eqb_eq in Ez.
      destruct Hi as [[= <- <-]|Hi]; [lia | exact (IH eq_refl Hi)].
Qed.

Lemma best_rule_ext rules s s' : (forall nm r, In (nm, r) rules -> rule_len r s' = rule_len r s) -> best_rule rules s' = best_rule rules s.
Proof.
  induction rules as [|[nm0 r0] rest IH]; intros H; [reflexivity|]. cbn [best_rule].
  rewrite (H nm0 r0) by now left. rewrite IH by (intros nm r Hi; apply (H nm); now right). reflexivity.
Qed.

Lemma tail_run_inv c p l pr : tail_run c p = Some (l, pr) ->
  exists q, p = LSeq [LLit l; LStar q] /\ single_char q = Some pr /\ pr c = true /\ has_char c l = false.
Proof.
  unfold tail_run. intros H.
  destruct p as [| | |ps| | | |]; try discriminate.
  destruct ps as [|p1 ps]; [discriminate|]. destruct p1 as [l0| | | | | | |]; try discriminate.
  destruct ps as [|p2 ps]; [discriminate|]. destruct p2 as [| | | | |q| |]; try discriminate.
  destruct ps as [|? ?]; [|discriminate].
  destruct (single_char q) as [pr0|] eqn:Es; [|discriminate]. destruct (pr0 c && negb (has_char c l0)) eqn:Ec; [|discriminate].
  injection H as <- <-. apply andb_true_iff in Ec as [Ec Hl]. apply negb_true_iff in Hl. now exists q.
Qed.

(* ---------------- one rule, two continuations ---------------- *)
Section Step.
  Variable c : ascii.
  Variables x b b' : string.
  Let s := (x ++ String c b)%string.
  Let s' := (x ++ String c b')%string.

  Lemma lens_same p n : n <= slen x -> (In n (mlens p s') <-> In n (mlens p s)).
  Proof. intros H. unfold s, s'. rewrite !mlens_prefix by exact H. reflexivity. Qed.

  Lemma greedy_avoid_same p : avoids c p = true -> max_list (mlens p s') = max_list (mlens p s).
  Proof.
    intros Ha. apply max_list_ext. intros n. split; intros H.
    - pose proof (mlens_stops_at c p x b' n Ha H). now apply lens_same.
    - pose proof (mlens_stops_at c p x b n Ha H). now apply lens_same.
  Qed.

  Lemma max_seq1 k : max_list (seq 1 k) = k.
  Proof.
    apply Nat.le_antisymm.
    - destruct (max_list_in (seq 1 k)) as [E|I]; [lia|]. apply in_seq1 in I. lia.
    - destruct k as [|k]; [lia|]. apply max_list_ge. apply in_seq1. lia.
  Qed.

  Lemma run_same p pr : run_over c p = Some pr -> max_list (mlens p s) <= slen x -> max_list (mlens p s') = max_list (mlens p s).
  Proof.
    unfold run_over. destruct p as [| | | | | |q|]; try discriminate. destruct (single_char q) as [pr0|] eqn:Es; [|discriminate].
    destruct (pr0 c) eqn:Ec; [|discriminate]. intros [= <-]. cbn [mlens]. rewrite Es, !max_seq1. unfold s, s'. rewrite !run_len_app.
    intros H. destruct (Nat.eqb (run_len pr0 x) (slen x)) eqn:E; [|reflexivity].
    exfalso. cbn [run_len] in H. rewrite Ec in H. lia.
  Qed.

  (* membership in the match lengths of  literal (single)*  *)
  Lemma tail_lens l q pr t n : single_char q = Some pr ->
    (In n (mlens (LSeq [LLit l; LStar q]) t) <-> String.prefix l t = true /\ slen l <= n <= slen l + run_len pr (sdrop (slen l) t)).
  Proof.
    intros Es. rewrite mlens_seq, in_seq_lens. split.
    - intros (n1 & n2 & -> & H1 & H2). cbn [mlens] in H1. destruct (String.prefix l t) eqn:Ep; [|contradiction]. destruct H1 as [<-|[]].
      apply in_seq_lens in H2 as (a & b0 & -> & Ha & Hb). cbn [mlens] in Ha. rewrite Es in Ha. apply in_seq0 in Ha. destruct Hb as [<-|[]]. split; [reflexivity | lia].
    - intros (Hp & Hn). exists (slen l), (n - slen l). split; [lia|]. split; [cbn [mlens]; rewrite Hp; now left|].
      apply in_seq_lens. exists (n - slen l), 0. split; [lia|]. split; [cbn [mlens]; rewrite Es; apply in_seq0; lia | now left].
  Qed.

  Lemma tail_same p l pr : x <> "" -> tail_run c p = Some (l, pr) -> max_list (mlens p s) <= slen x -> max_list (mlens p s') = max_list (mlens p s).
  Proof.
    intros Hx Ht HM. destruct (tail_run_inv c p l pr Ht) as (q & -> & Es & Ec & Hl). clear Ht. rename l into l0. rename pr into pr0.
    (* the literal lies inside x: it does not contain c, and the character at |x| is c *)
    assert (Hlen : String.prefix l0 s = true \/ String.prefix l0 s' = true -> slen l0 <= slen x).
    { intros Hp. destruct (Nat.le_gt_cases (slen l0) (slen x)) as [|Hgt]; [assumption|]. exfalso.
      assert (Hc : has_char c l0 = true); [|congruence].
      destruct Hp as [Hp|Hp]; apply prefix_stake in Hp; rewrite <- Hp; apply (stake_has_char c _ (slen x)); try exact Hgt; unfold s, s';
        [exists b | exists b']; rewrite sdrop_app by lia; (replace (sdrop (slen x) x) with "" by (clear; induction x; [reflexivity | assumption])); reflexivity. }
    apply max_list_ext. intros n. rewrite !(tail_lens l0 q pr0 _ n Es).
    (* the run after the literal ends inside x (otherwise it would continue over c and exceed |x|) *)
    assert (Hrun : forall t0, String.prefix l0 s = true -> slen l0 <= slen x ->
                              run_len pr0 (sdrop (slen l0) x ++ String c t0) = run_len pr0 (sdrop (slen l0) x)).
    { intros t0 Hp Hle. rewrite run_len_app. destruct (Nat.eqb (run_len pr0 (sdrop (slen l0) x)) (slen (sdrop (slen l0) x))) eqn:E; [|reflexivity]. exfalso.
      apply Nat.eqb_eq in E. assert (Hin : In (slen l0 + run_len pr0 (sdrop (slen l0) s)) (mlens (LSeq [LLit l0; LStar q]) s)) by (apply (tail_lens l0 q pr0 s _ Es); split; [exact Hp | lia]).
      apply max_list_ge in Hin. unfold s in Hin at 1. rewrite sdrop_app in Hin by exact Hle. rewrite run_len_app, E, Nat.eqb_refl in Hin. cbn [run_len] in Hin. rewrite Ec in Hin.
      rewrite sdrop_len in Hin. lia. }
    assert (Hpre : String.prefix l0 s' = String.prefix l0 s).
    { destruct (String.prefix l0 s) eqn:E1.
      - pose proof (Hlen (or_introl eq_refl)) as Hle. unfold s'. rewrite prefix_app by exact Hle. unfold s in E1. now rewrite prefix_app in E1 by exact Hle.
      - destruct (String.prefix l0 s') eqn:E2; [|reflexivity]. pose proof (Hlen (or_intror eq_refl)) as Hle. unfold s' in E2. rewrite prefix_app in E2 by exact Hle.
        unfold s in E1. rewrite prefix_app in E1 by exact Hle. congruence. }
    rewrite Hpre. destruct (String.prefix l0 s) eqn:Ep; [|split; intros [? _]; discriminate]. pose proof (Hlen (or_introl eq_refl)) as Hle.
    unfold s, s'. rewrite !sdrop_app by exact Hle. rewrite (Hrun b eq_refl Hle), (Hrun b' eq_refl Hle). reflexivity.
  Qed.

  Lemma lazy_same p m : min_pos (mlens p s) = m -> 0 < m -> m <= slen x -> min_pos (mlens p s') = m.
  Proof.
    intros E Hm Hx. destruct (min_pos_spec (mlens p s)) as [[E0 _]|(_ & I & H)]; [lia|]. rewrite E in I, H.
    apply min_pos_unique; [exact Hm | now apply lens_same|].
    intros n Hn Hp. destruct (Nat.le_gt_cases m n) as [|Hlt]; [assumption|]. apply H; [apply lens_same; [lia | exact Hn] | exact Hp].
  Qed.
End Step.

(* a non-greedy rule whose head literal is not the first character has no match at all *)
Lemma lazy_head_nomatch p h a r : lazy_head p = Some h -> a <> h -> mlens p (String a r) = [].
Proof.
  unfold lazy_head. destruct p as [| | |ps| | | |]; try discriminate. destruct ps as [|q ps]; [discriminate|].
  destruct q as [l| | | | | | |]; try discriminate. destruct l as [|h0 [|? ?]]; try discriminate. intros [= ->] Hne.
  rewrite mlens_seq. cbn [seq_lens mlens String.prefix]. destruct (Ascii.ascii_dec h a) as [->|]; [contradiction | reflexivity].
Qed.

Lemma nodup_names_in (rules : list rule) : nodup_names (map r_name rules) = true ->
  forall r1 r2, In r1 rules -> In r2 rules -> r_name r1 = r_name r2 -> r1 = r2.
Proof.
  induction rules as [|r rest IH]; intros Hn r1 r2 H1 H2 E; [contradiction|]. cbn in Hn. apply andb_true_iff in Hn as [Hx Hr].
  apply negb_true_iff in Hx.
  assert (Hno : forall r', In r' rest -> r_name r' <> r_name r).
  { intros r' Hi Heq. assert (existsb (String.eqb (r_name r)) (map r_name rest) = true); [|congruence].
    apply existsb_exists. exists (r_name r'). split; [now apply in_map | rewrite Heq; apply String.eqb_refl]. }
  destruct H1 as [<-|H1], H2 as [<-|H2]; [reflexivity | exfalso; exact (Hno _ H2 (eq_sym E)) | exfalso; exact (Hno _ H1 E) | exact (IH Hr _ _ H1 H2 E)].
Qed.

(* ---------------- one lexing step ---------------- *)
Theorem step_stable c rules x b b' nm sk n : table_ok c rules = true -> x <> "" ->
  best_rule rules (x ++ String c b) = Some (nm, sk, n) -> n <= slen x ->
  best_rule rules (x ++ String c b') = Some (nm, sk, n).
Proof.
  intros Hok Hx Hb Hn. rewrite <- Hb. apply best_rule_ext. intros nm1 r1 Hin.
  destruct (best_rule_spec _ _ _ _ _ Hb) as ((rw & Hw & Hwl & _) & Hmax & Hpos).
  unfold table_ok in Hok. apply andb_true_iff in Hok as [Hnd Hall]. rewrite forallb_forall in Hall.
  pose proof (Hall _ Hin) as Hr. unfold rule_ok in Hr. cbn [r_lazy r_pat r_name fst snd] in Hr.
  pose proof (Hmax _ _ Hin) as Hle. destruct r1 as [[skip lazy] p]. unfold r_lazy, r_pat, r_name in Hr. cbn [fst snd] in Hr. unfold rule_len in *. cbn [fst snd] in *.
  destruct lazy; cbn beta iota in Hr.
  - destruct (lazy_head p) as [h|] eqn:Eh; [|discriminate]. rewrite forallb_forall in Hr.
    destruct x as [|a x']; [contradiction|]. cbn [append] in *.
    destruct (Ascii.ascii_dec a h) as [->|Hne].
    + (* every other rule has length 0 here, so this rule is the winner *)
      assert (Hwin : (nm, rw) = (nm1, (skip, true, p))).
      { apply (nodup_names_in rules Hnd); [exact Hw | exact Hin|]. cbn [r_name fst].
        specialize (Hr _ Hw). cbn [r_name r_pat fst snd] in Hr. apply orb_true_iff in Hr as [Hr|Hr]; [now apply String.eqb_eq|].
        exfalso. destruct rw as [[skw lzw] pw]. cbn [fst snd] in *.
        assert (forall k, In k (mlens pw (String h (x' ++ String c b))) -> k = 0) as Hz by (intros k; apply (nomatch_first_sound h pw Hr)).
        destruct lzw.
        - destruct (min_pos_spec (mlens pw (String h (x' ++ String c b)))) as [[E0 _]|(P & I & _)]; [lia | specialize (Hz _ I); lia].
        - destruct (max_list_in (mlens pw (String h (x' ++ String c b)))) as [E0|I]; [lia | specialize (Hz _ I); lia]. }
      injection Hwin as -> ->. cbn [fst snd] in Hwl.
      change (String h (x' ++ String c b')) with ((String h x') ++ String c b')%string.
      change (String h (x' ++ String c b)) with ((String h x') ++ String c b)%string in Hwl |- *.
      rewrite Hwl. apply (lazy_same c (String h x') b b' p n); [exact Hwl | exact Hpos | exact Hn].
    + now rewrite !(lazy_head_nomatch p h a _ Eh Hne).
  - apply orb_true_iff in Hr as [Hr|Htail]; [apply orb_true_iff in Hr as [Ha|Hrun]|].
    + now apply (greedy_avoid_same c x b b' p).
    + destruct (run_over c p) as [pr|] eqn:Er; [|discriminate]. apply (run_same c x b b' p pr Er). lia.
    + destruct (tail_run c p) as [[l pr]|] eqn:Et; [|discriminate]. apply (tail_same c x b b' p l pr Hx Et). lia.
Qed.

(* ---------------- the lexer ---------------- *)
Definition no_err (ls : list lexeme) : Prop := Forall (fun e => match e with LexErr _ => False | _ => True end) ls.

Lemma sapp_inv_head a : forall b d, (a ++ b)%string = (a ++ d)%string -> b = d.
Proof. induction a as [|x a IH]; intros b d H; [exact H|]. cbn in H. injection H as H. now apply IH. Qed.
Lemma stake_len n : forall s, slen (stake n s) = Nat.min n (slen s).
Proof. induction n as [|n IH]; intros s; [destruct s; reflexivity|]. destruct s as [|a s]; [reflexivity|]. cbn. now rewrite IH. Qed.
Lemma concat_len_le e la : slen (lexeme_text e) <= slen (concat_lexemes (e :: la)).
Proof. cbn [concat_lexemes]. rewrite slen_app. lia. Qed.

Theorem lex_prefix_stable c rules : table_ok c rules = true ->
  forall la x b b' k k' line col rest,
    lex_from k rules (x ++ String c b) line col = Some (la ++ rest) ->
    concat_lexemes la = x -> no_err la -> slen (x ++ String c b') <= k' ->
    exists rest', lex_from k' rules (x ++ String c b') line col = Some (la ++ rest').
Proof.
  intros Hok. induction la as [|e la IH]; intros x b b' k k' line col rest H Hc Hne Hk.
  - destruct (lex_from k' rules (x ++ String c b') line col) as [r|] eqn:E; [now exists r|].
    exfalso. exact (lex_total rules _ _ _ _ Hk E).
  - unfold no_err in Hne. apply Forall_cons_iff in Hne as [He Hne'].
    destruct k as [|k0].
    { cbn in H. destruct (x ++ String c b)%string eqn:Es; [destruct x; discriminate | discriminate]. }
    remember (x ++ String c b)%string as s eqn:Es. destruct s as [|c0 s0]; [destruct x; discriminate|].
    cbn [lex_from] in H. destruct (best_rule rules (String c0 s0)) as [[[nm sk] n]|] eqn:Eb.
    + destruct (advance (stake n (String c0 s0)) line col) as [l2 c2] eqn:Ea.
      destruct (lex_from k0 rules (sdrop n (String c0 s0)) l2 c2) as [r|] eqn:Er; [|discriminate].
      cbn [app] in H. injection H as He' Hr. rewrite Es in *.
      pose proof (best_rule_pos _ _ _ _ _ Eb) as Hpos.
      assert (Htext : lexeme_text e = stake n (x ++ String c b)) by (subst e; destruct sk; reflexivity).
      assert (Hn : n <= slen x).
      { pose proof (concat_len_le e la) as Hl. rewrite Htext, stake_len, slen_app, Hc in Hl. cbn [String.length] in Hl. lia. }
      assert (Hx : x <> "") by (intros ->; cbn in Hn; lia).
      pose proof (step_stable c rules x b b' nm sk n Hok Hx Eb Hn) as Eb'.
      assert (Hla : concat_lexemes la = sdrop n x).
      { cbn [concat_lexemes] in *. rewrite Htext, stake_app in * by exact Hn.
        apply (sapp_inv_head (stake n x)). rewrite stake_sdrop. congruence. }
      rewrite sdrop_app in Er by exact Hn. rewrite stake_app in Ea by exact Hn.
      destruct k' as [|k1]; [rewrite slen_app in Hk; cbn in Hk; lia|].
      assert (Hk1 : slen (sdrop n x ++ String c b') <= k1).
      { rewrite !slen_app in *. rewrite sdrop_len. cbn [String.length] in *. lia. }
      rewrite Hr in Er. destruct (IH (sdrop n x) b b' k0 k1 l2 c2 rest Er Hla Hne' Hk1) as (rest' & E').
      exists rest'. remember (x ++ String c b')%string as s' eqn:Es'. destruct s' as [|c1 s1]; [destruct x; discriminate|].
      cbn [lex_from]. rewrite Eb'. rewrite Es'. rewrite stake_app by exact Hn. rewrite Ea. rewrite sdrop_app by exact Hn. rewrite E'.
      cbn [app]. f_equal. f_equal. subst e. rewrite stake_app by exact Hn. reflexivity.
    + destruct (advance (String c0 "") line col) as [l2 c2]. destruct (lex_from k0 rules s0 l2 c2); [|discriminate].
      cbn [app] in H. injection H as <- _. contradiction.
Qed.

(* and what stands in front of a lexeme boundary does not influence the lexemes after it, except through the start position *)
Theorem lex_suffix rules : forall la x cy y k line col rest,
  lex_from k rules (x ++ String cy y) line col = Some (la ++ rest) -> concat_lexemes la = x ->
  let '(l2, c2) := advance x line col in lex_from (k - List.length la) rules (String cy y) l2 c2 = Some rest.
Proof.
  induction la as [|e la IH]; intros x cy y k line col rest H Hc.
  - cbn in Hc. subst x. cbn [advance append List.length app] in *. now rewrite Nat.sub_0_r.
  - destruct k as [|k0]; [cbn in H; destruct (x ++ String cy y)%string eqn:E; [destruct x; discriminate | discriminate]|].
    remember (x ++ String cy y)%string as s eqn:Es. destruct s as [|c0 s0]; [destruct x; discriminate|].
    cbn [lex_from] in H. destruct (best_rule rules (String c0 s0)) as [[[nm sk] n]|] eqn:Eb.
    + destruct (advance (stake n (String c0 s0)) line col) as [l2 c2] eqn:Ea.
      destruct (lex_from k0 rules (sdrop n (String c0 s0)) l2 c2) as [r|] eqn:Er; [|discriminate].
      cbn [app] in H. injection H as He Hr. subst r.
      assert (Htext : lexeme_text e = stake n (String c0 s0)) by (subst e; destruct sk; reflexivity).
      assert (Hn : n <= slen x).
      { pose proof (concat_len_le e la) as Hl. rewrite Htext, stake_len, Es, slen_app, Hc in Hl. cbn [String.length] in Hl. lia. }
      cbn [concat_lexemes] in Hc. rewrite Htext in Hc. rewrite Es in *. rewrite stake_app in * by exact Hn. rewrite sdrop_app in Er by exact Hn.
      assert (Hla : concat_lexemes la = sdrop n x) by (apply (sapp_inv_head (stake n x)); rewrite stake_sdrop; exact Hc).
      specialize (IH (sdrop n x) cy y k0 l2 c2 rest Er Hla).
      assert (Hadv : advance x line col = advance (sdrop n x) l2 c2).
      { rewrite <- (stake_sdrop n x) at 1. rewrite advance_app, Ea. reflexivity. }
      rewrite Hadv. cbn [List.length]. replace (S k0 - S (List.length la)) with (k0 - List.length la) by lia. exact IH.
    + destruct (advance (String c0 "") line col) as [l2 c2] eqn:Ea. destruct (lex_from k0 rules s0 l2 c2) as [r|] eqn:Er; [|discriminate].
      cbn [app] in H. injection H as He Hr. subst r e. cbn [concat_lexemes lexeme_text] in Hc.
      destruct x as [|cx x']; [discriminate|]. cbn [append] in Es, Hc. injection Es as -> ->. injection Hc as Hc.
      specialize (IH x' cy y k0 l2 c2 rest Er Hc). cbn [List.length]. replace (S k0 - S (List.length la)) with (k0 - List.length la) by lia.
      cbn [advance] in Ea |- *. destruct (Ascii.eqb cx nl); cbn [advance] in Ea; injection Ea as <- <-; exact IH.
Qed.
