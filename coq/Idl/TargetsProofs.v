(* The documented meaning of +/- target flags, and the proof that visitTargets' evaluation has exactly that meaning
   for flag sequences of ANY length. *)
From Coq Require Import List String Ascii Bool Arith.
From PDV Require Import Lib.StrUtil Idl.Cst Idl.Ast Idl.Resolver Idl.Visitor.
Import ListNotations.
Open Scope string_scope. Open Scope list_scope.

Definition plus_names (flags : list string) : list string :=
  map drop1 (filter (fun t => starts_with "+" t && negb (String.eqb t "+any")) flags).
Definition minus_names (flags : list string) : list string :=
  map drop1 (filter (fun t => negb (starts_with "+" t)) flags).
Definition has_any (flags : list string) : bool := mem_str "+any" flags.

(* the denotation: never an excluded target; a target is included when it is named with '+', or when the base set is
   "all supported targets" - which is the case for '+any' and for flag lists that only exclude *)
Definition denotes (keys flags : list string) (t : string) : Prop :=
  ~ In t (minus_names flags) /\
  (In t (plus_names flags) \/
   (In t keys /\ (has_any flags = true \/ (plus_names flags = [] /\ minus_names flags <> [])))).

Lemma mem_str_In x l : mem_str x l = true <-> In x l.
Proof.
  unfold mem_str. rewrite existsb_exists. split.
  - intros (y & Hy & E). apply String.eqb_eq in E. now subst.
  - intros H. exists x. split; [exact H | apply String.eqb_refl].
Qed.

Lemma mem_str_false x l : mem_str x l = false <-> ~ In x l.
Proof. rewrite <- mem_str_In. destruct (mem_str x l); split; intros H; try reflexivity; try discriminate; now exfalso; apply H. Qed.

Theorem eval_targets_denotation keys flags t :
  In t (eval_targets keys flags) <-> denotes keys flags t.
Proof.
  unfold eval_targets, denotes.
  fold (plus_names flags). fold (minus_names flags). fold (has_any flags).
  rewrite filter_In, negb_true_iff, mem_str_false.
  set (P := plus_names flags). set (N := minus_names flags).
  destruct (has_any flags) eqn:Ha.
  - (* +any: base = keys ++ P *)
    assert (E : match keys ++ P, N with [], _ :: _ => keys | _, _ => keys ++ P end = keys ++ P \/
                (keys ++ P = [] /\ match keys ++ P, N with [], _ :: _ => keys | _, _ => keys ++ P end = keys)).
    { destruct (keys ++ P) eqn:E1; destruct N; auto. }
    destruct E as [-> | [E0 ->]].
    + rewrite in_app_iff. split.
      * intros [[Hk|Hp] Hn]; (split; [exact Hn|]); [right; split; [exact Hk | now left] | now left].
      * intros [Hn [Hp | [Hk _]]]; (split; [|exact Hn]); [now right | now left].
    + apply app_eq_nil in E0 as [-> EP]. rewrite EP. cbn. split; [intros [[] _] | intros [_ [[]|[[] _]]]].
  - (* no +any: base = P, or keys when P is empty and something is excluded *)
    cbn [app]. destruct P as [|p P'] eqn:EP.
    + destruct N as [|n N'] eqn:EN.
      * cbn. split; [intros [[] _]|]. intros [_ [[] | [_ [H | [_ H]]]]]; [discriminate | exfalso; now apply H].
      * split.
        -- intros [Hk Hn]. split; [exact Hn|]. right. split; [exact Hk|]. right. split; [reflexivity | discriminate].
        -- intros [Hn [[] | [Hk _]]]. now split.
    + split.
      * intros [Hp Hn]. split; [exact Hn | now left].
      * intros [Hn [Hp | [_ [H | [H _]]]]]; [now split | discriminate | discriminate].
Qed.

Lemma filter_no_excludes (l : list string) : filter (fun t => negb (mem_str t [])) l = l.
Proof.
  set (f := fun t => negb (mem_str t [])). induction l as [|x l IH]; [reflexivity|].
  change (filter f (x :: l)) with (x :: filter f l). now rewrite IH.
Qed.

(* a flag list without '-' flags and without '+any' denotes exactly the '+' names, in order of mention *)
Theorem eval_targets_plus_only keys flags :
  minus_names flags = [] -> has_any flags = false -> eval_targets keys flags = plus_names flags.
Proof.
  intros HN HA. unfold eval_targets. fold (plus_names flags) (minus_names flags) (has_any flags).
  rewrite HN, HA. cbn [app]. rewrite filter_no_excludes. now destruct (plus_names flags).
Qed.

(* no flags at all: empty (the declaration kinds then fall back to "all supported targets" where the docs say so) *)
Theorem eval_targets_empty keys : eval_targets keys [] = [].
Proof. reflexivity. Qed.

(* the evaluation never invents a target: everything it returns is supported or was written with '+' *)
Theorem eval_targets_sound keys flags t :
  In t (eval_targets keys flags) -> In t keys \/ In t (plus_names flags).
Proof. rewrite eval_targets_denotation. intros [_ [H | [H _]]]; auto. Qed.
