(* Theorems about the generic lexer and parser - they hold for EVERY grammar in the notation, hence for whatever Idl.g4 says today:
   - lexing terminates on every character sequence within |input| steps (the step bound of lex_all is never exhausted);
   - the lexemes (tokens, skipped text, error characters) partition the input: nothing is lost, nothing invented, order kept;
   - every token's recorded line/column is the position reached by reading the text in front of it;
   - the leaves of every parse tree the parser returns are exactly the tokens between its start and end position, in order. *)
From Coq Require Import List String Ascii Bool Arith Lia.
From PDV Require Import Lib.StrUtil Lang.Comment Idl.GrammarDefs Idl.Cst Idl.Lexer Idl.ParserG.
Import ListNotations.
Open Scope string_scope. Open Scope list_scope.

(* ---------------------------------------------------------------- lexer ---------------------------------------------------------------- *)
Lemma stake_sdrop n : forall s, (stake n s ++ sdrop n s)%string = s.
Proof. induction n as [|n IH]; intros s; [destruct s; reflexivity|]. destruct s as [|c r]; [reflexivity|]. cbn. now rewrite IH. Qed.

Lemma sdrop_length n : forall s, String.length (sdrop n s) = String.length s - n.
Proof. induction n as [|n IH]; intros s; [destruct s; cbn; lia|]. destruct s as [|c r]; [reflexivity|]. cbn. apply IH. Qed.

Lemma best_rule_pos rules s name skip n : best_rule rules s = Some (name, skip, n) -> 0 < n.
Proof.
  revert name skip n. induction rules as [|[nm r] rest IH]; intros name skip n H; [discriminate|].
  cbn [best_rule] in H. destruct (best_rule rest s) as [[[nm' sk'] n']|] eqn:E.
  - specialize (IH nm' sk' n' eq_refl).
    destruct (Nat.ltb (rule_len r s) n') eqn:El; [injection H as <- <- <-; exact IH|].
    destruct (Nat.eqb (rule_len r s) 0) eqn:Ez; [injection H as <- <- <-; exact IH|].
    injection H as <- <- <-. apply Nat.eqb_neq in Ez. lia.
  - destruct (Nat.eqb (rule_len r s) 0) eqn:Ez; [discriminate|]. injection H as <- <- <-. apply Nat.eqb_neq in Ez. lia.
Qed.

Fixpoint concat_lexemes (ls : list lexeme) : string := match ls with [] => "" | x :: r => (lexeme_text x ++ concat_lexemes r)%string end.

(* nothing lost, nothing invented *)
Theorem lex_partition rules : forall steps s line col ls, lex_from steps rules s line col = Some ls -> concat_lexemes ls = s.
Proof.
  induction steps as [|k IH]; intros s line col ls H.
  - destruct s; [injection H as <-; reflexivity | discriminate].
  - destruct s as [|c rest]; [injection H as <-; reflexivity|]. cbn [lex_from] in H.
    destruct (best_rule rules (String c rest)) as [[[name skip] n]|] eqn:Eb.
    + destruct (advance (stake n (String c rest)) line col) as [l2 c2].
      destruct (lex_from k rules (sdrop n (String c rest)) l2 c2) as [r|] eqn:Er; [|discriminate].
      injection H as <-. cbn [concat_lexemes]. rewrite (IH _ _ _ _ Er).
      destruct skip; cbn [lexeme_text tk_text]; apply stake_sdrop.
    + destruct (advance (String c "") line col) as [l2 c2].
      destruct (lex_from k rules rest l2 c2) as [r|] eqn:Er; [|discriminate].
      injection H as <-. cbn [concat_lexemes lexeme_text]. now rewrite (IH _ _ _ _ Er).
Qed.

(* termination: |input| steps are always enough *)
Theorem lex_total rules : forall steps s line col, String.length s <= steps -> lex_from steps rules s line col <> None.
Proof.
  induction steps as [|k IH]; intros s line col Hl.
  - destruct s; [discriminate | cbn in Hl; lia].
  - destruct s as [|c rest]; [discriminate|]. cbn [lex_from].
    destruct (best_rule rules (String c rest)) as [[[name skip] n]|] eqn:Eb.
    + pose proof (best_rule_pos _ _ _ _ _ Eb) as Hn.
      destruct (advance (stake n (String c rest)) line col) as [l2 c2].
      assert (Hs : String.length (sdrop n (String c rest)) <= k) by (rewrite sdrop_length; change (String.length (String c rest)) with (S (String.length rest)) in *; lia).
      specialize (IH (sdrop n (String c rest)) l2 c2 Hs).
      destruct (lex_from k rules (sdrop n (String c rest)) l2 c2); [discriminate | contradiction].
    + destruct (advance (String c "") line col) as [l2 c2].
      assert (Hs : String.length rest <= k) by (change (String.length (String c rest)) with (S (String.length rest)) in Hl; lia).
      specialize (IH rest l2 c2 Hs). destruct (lex_from k rules rest l2 c2); [discriminate | contradiction].
Qed.

Corollary lex_all_total rules s : exists ls, lex_all rules s = Some ls /\ concat_lexemes ls = s.
Proof.
  unfold lex_all. destruct (lex_from (String.length s) rules s 1 0) as [ls|] eqn:E.
  - exists ls. split; [reflexivity | exact (lex_partition _ _ _ _ _ _ E)].
  - exfalso. exact (lex_total rules _ s 1 0 (le_n _) E).
Qed.

(* positions: reading the text in front of a token from the start position of the scan leads to the token's recorded line/column *)
Lemma advance_app a : forall b line col, advance (a ++ b) line col = let '(l, c) := advance a line col in advance b l c.
Proof. induction a as [|x a IH]; intros b line col; [reflexivity|]. cbn [append advance]. destruct (Ascii.eqb x nl); apply IH. Qed.

Theorem lex_positions rules : forall steps s line col ls, lex_from steps rules s line col = Some ls ->
  forall pre t post, ls = pre ++ LexTok t :: post -> (tk_line t, tk_col t) = advance (concat_lexemes pre) line col.
Proof.
  induction steps as [|k IH]; intros s line col ls H pre t post Hls.
  - destruct s; [injection H as <-; destruct pre; discriminate | discriminate].
  - destruct s as [|c rest]; [injection H as <-; destruct pre; discriminate|]. cbn [lex_from] in H.
    destruct (best_rule rules (String c rest)) as [[[name skip] n]|] eqn:Eb.
    + destruct (advance (stake n (String c rest)) line col) as [l2 c2] eqn:Ea.
      destruct (lex_from k rules (sdrop n (String c rest)) l2 c2) as [r|] eqn:Er; [|discriminate].
      injection H as <-. destruct pre as [|x pre'].
      * cbn in Hls. destruct skip; [discriminate|]. injection Hls as <- _. reflexivity.
      * cbn [app] in Hls. injection Hls as Hx Hr. cbn [concat_lexemes]. rewrite advance_app.
        replace (lexeme_text x) with (stake n (String c rest)) by (subst x; destruct skip; reflexivity).
        rewrite Ea. exact (IH _ _ _ _ Er pre' t post Hr).
    + destruct (advance (String c "") line col) as [l2 c2] eqn:Ea.
      destruct (lex_from k rules rest l2 c2) as [r|] eqn:Er; [|discriminate].
      injection H as <-. destruct pre as [|x pre']; [discriminate|].
      cbn [app] in Hls. injection Hls as Hx Hr. cbn [concat_lexemes]. rewrite advance_app. subst x. cbn [lexeme_text]. rewrite Ea.
      exact (IH _ _ _ _ Er pre' t post Hr).
Qed.

(* ---------------------------------------------------------------- parser ---------------------------------------------------------------- *)
Fixpoint leaves (c : cst) : list cst :=
  match c with
  | T _ _ _ _ _ => [c]
  | R _ _ _ k => (fix go (l : list cst) : list cst := match l with [] => [] | x :: r => leaves x ++ go r end) k
  end.
Definition leaves_l (l : list cst) : list cst := flat_map leaves l.
Lemma leaves_R r s e k : leaves (R r s e k) = leaves_l k.
Proof. unfold leaves_l. induction k as [|x k IH]; [reflexivity|]. cbn [flat_map]. rewrite <- IH. reflexivity. Qed.
Lemma leaves_l_app a b : leaves_l (a ++ b) = leaves_l a ++ leaves_l b.
Proof. unfold leaves_l. apply flat_map_app. Qed.

Definition span {A} (l : list A) (p q : nat) : list A := firstn (q - p) (skipn p l).
Lemma span_nil {A} (l : list A) p : span l p p = [].
Proof. unfold span. now rewrite Nat.sub_diag. Qed.
Lemma firstn_plus {A} a : forall b (l : list A), firstn (a + b) l = firstn a l ++ firstn b (skipn a l).
Proof. induction a as [|a IH]; intros b l; [reflexivity|]. destruct l as [|x l]; [cbn; now rewrite firstn_nil|]. cbn. now rewrite IH. Qed.
Lemma skipn_plus {A} a : forall b (l : list A), skipn a (skipn b l) = skipn (a + b) l.
Proof.
  intros b. revert a. induction b as [|b IH]; intros a l; [now rewrite Nat.add_0_r|].
  destruct l as [|x l]; [now rewrite !skipn_nil|]. replace (a + S b) with (S (a + b)) by lia. cbn [skipn]. apply IH.
Qed.
Lemma span_app {A} (l : list A) p m q : p <= m -> m <= q -> span l p m ++ span l m q = span l p q.
Proof.
  intros H1 H2. unfold span. replace (q - p) with ((m - p) + (q - m)) by lia.
  rewrite firstn_plus. f_equal. rewrite skipn_plus. replace (m - p + p) with m by lia. reflexivity.
Qed.
Lemma span_one {A} (l : list A) p t : nth_error l p = Some t -> span l p (S p) = [t].
Proof.
  unfold span. replace (S p - p) with 1 by lia. revert p. induction l as [|x l IH]; intros p H; [destruct p; discriminate|].
  destruct p as [|p]; [injection H as ->; reflexivity|]. cbn [skipn]. now apply IH.
Qed.

Section Frontier.
  Variable rules : list (string * gexp).
  Variable toks : list token.

  Definition good (pos : nat) (r : list cst * nat) : Prop := pos <= snd r /\ leaves_l (fst r) = map leaf (span toks pos (snd r)).

  Lemma dedup_in : forall l seen r, In r (dedup_end seen l) -> In r l.
  Proof.
    induction l as [|x l IH]; intros seen r H; [contradiction|]. cbn [dedup_end] in H.
    destruct (existsb (Nat.eqb (snd x)) seen); [right; exact (IH _ _ H)|]. destruct H as [<-|H]; [now left | right; exact (IH _ _ H)].
  Qed.

  Lemma good_seq (pf : gexp -> nat -> list (list cst * nat)) :
    (forall x pos r, In r (pf x pos) -> good pos r) ->
    forall l pos r, In r (seq_parse pf l pos) -> good pos r.
  Proof.
    intros Hpf. induction l as [|x l IH]; intros pos r Hin.
    - cbn in Hin. destruct Hin as [<-|[]]. split; [cbn [fst snd]; lia | cbn [fst snd leaves_l flat_map]; now rewrite span_nil].
    - cbn [seq_parse] in Hin. apply dedup_in in Hin. apply in_flat_map in Hin as (a & Ha & Hin). apply in_map_iff in Hin as (b & <- & Hb).
      destruct (Hpf _ _ _ Ha) as [Ha1 Ha2]. destruct (IH _ _ Hb) as [Hb1 Hb2].
      split; cbn [fst snd]; [lia|]. rewrite leaves_l_app, Ha2, Hb2, <- map_app, span_app by assumption. reflexivity.
  Qed.

  Theorem parse_frontier : forall fuel g pos r, In r (parse rules toks fuel g pos) -> good pos r.
  Proof.
    induction fuel as [|f IH]; intros g pos r Hin; [contradiction|].
    destruct g as [n|n|l|l|x|x|x]; cbn [parse] in Hin.
    - destruct (nth_error toks pos) as [t|] eqn:Et; [|contradiction].
      destruct (String.eqb (tk_type t) n); [|contradiction]. destruct Hin as [<-|[]].
      split; cbn [fst snd]; [lia|]. rewrite (span_one _ _ _ Et). reflexivity.
    - destruct (lookup rules n) as [body|]; [|contradiction].
      apply in_map_iff in Hin as (a & <- & Ha). destruct (IH _ _ _ Ha) as [H1 H2].
      split; cbn [fst snd]; [exact H1|]. cbn [leaves_l flat_map]. rewrite app_nil_r, leaves_R. exact H2.
    - exact (good_seq (parse rules toks f) (IH) l pos r Hin).
    - apply dedup_in in Hin. apply in_flat_map in Hin as (x & _ & Hx). exact (IH _ _ _ Hx).
    - apply dedup_in in Hin. apply in_app_or in Hin as [Hx|[<-|[]]]; [|split; [cbn [fst snd]; lia | cbn [fst snd leaves_l flat_map]; now rewrite span_nil]].
      apply in_flat_map in Hx as (a & Ha & Hx). destruct (Nat.eqb (snd a) pos); [contradiction|].
      apply in_map_iff in Hx as (b & <- & Hb). destruct (IH _ _ _ Ha) as [Ha1 Ha2]. destruct (IH _ _ _ Hb) as [Hb1 Hb2].
      split; cbn [fst snd]; [lia|]. rewrite leaves_l_app, Ha2, Hb2, <- map_app, span_app by assumption. reflexivity.
    - apply dedup_in in Hin. apply in_flat_map in Hin as (a & Ha & Hx).
      apply in_map_iff in Hx as (b & <- & Hb). destruct (IH _ _ _ Ha) as [Ha1 Ha2]. destruct (IH _ _ _ Hb) as [Hb1 Hb2].
      split; cbn [fst snd]; [lia|]. rewrite leaves_l_app, Ha2, Hb2, <- map_app, span_app by assumption. reflexivity.
    - apply dedup_in in Hin. apply in_app_or in Hin as [Hx|[<-|[]]]; [exact (IH _ _ _ Hx)|]. split; [cbn [fst snd]; lia | cbn [fst snd leaves_l flat_map]; now rewrite span_nil].
  Qed.
End Frontier.

(* the tree parse_text returns has exactly the token stream (tokens of the text, then EOF) as its leaves *)
Theorem parse_text_leaves lrules prules start s k : parse_text lrules prules start s = Some k ->
  exists ls, lex_all lrules s = Some ls /\ has_lex_error ls = false /\ leaves k = map leaf (tokens_of ls ++ [eof_token s]).
Proof.
  unfold parse_text. intros H. destruct (lex_all lrules s) as [ls|]; [|discriminate].
  destruct (has_lex_error ls) eqn:He; [discriminate|]. exists ls. split; [reflexivity|]. split; [exact He|].
  set (toks := tokens_of ls ++ [eof_token s]) in *. set (rules := map (fun kv => (fst kv, norm (snd kv))) prules) in *.
  destruct (filter (fun r => Nat.eqb (snd r) (List.length toks)) (parse rules toks (20 * List.length toks + 200) (GRule start) 0)) as [|[kids pos'] rest] eqn:Ef; [discriminate|].
  destruct kids as [|k0 kids']; [discriminate|]. injection H as <-.
  assert (Hin : In (k0 :: kids', pos') (filter (fun r => Nat.eqb (snd r) (List.length toks)) (parse rules toks (20 * List.length toks + 200) (GRule start) 0)))
    by (rewrite Ef; now left).
  apply filter_In in Hin as [Hin Hp]. cbn in Hp. apply Nat.eqb_eq in Hp. subst pos'.
  (* a GRule result has exactly one child: the rule node *)
  cbn [parse] in Hin. replace (20 * List.length toks + 200) with (S (20 * List.length toks + 199)) in Hin by lia. cbn [parse] in Hin.
  destruct (lookup rules start) as [body|]; [|contradiction].
  apply in_map_iff in Hin as (a & Ea & Ha). injection Ea as <- <- Es.
  destruct (parse_frontier rules toks _ _ _ _ Ha) as [_ H2]. rewrite leaves_R, H2, Es. unfold span.
  rewrite Nat.sub_0_r. cbn [skipn]. now rewrite firstn_all.
Qed.
