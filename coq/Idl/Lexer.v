(* A lexer for ANY grammar in the notation of GrammarDefs, with ANTLR's rule: at every position the rule with the longest match
   wins, the earlier rule on a tie; a rule that contains a non-greedy loop stops at its SHORTEST match; a `-> skip` rule produces
   no token; a position where no rule matches is a lexical error.  Tokens carry type, text, line (1-based) and column (0-based). *)
From Coq Require Import List String Ascii Bool Arith Lia.
From PDV Require Import Lib.StrUtil Lang.Comment Idl.GrammarDefs.
Import ListNotations.
Open Scope string_scope. Open Scope list_scope.

Fixpoint sdrop (n : nat) (s : string) : string := match n, s with S k, String _ r => sdrop k r | _, _ => s end.
Fixpoint stake (n : nat) (s : string) : string := match n, s with S k, String c r => String c (stake k r) | _, _ => "" end.

Definition in_ranges (c : ascii) (rs : list (nat * nat)) : bool :=
  let n := nat_of_ascii c in existsb (fun r => Nat.leb (fst r) n && Nat.leb n (snd r)) rs.

Fixpoint nodup_nat (l : list nat) : list nat :=
  match l with [] => [] | x :: r => if existsb (Nat.eqb x) r then nodup_nat r else x :: nodup_nat r end.

(* patterns that match exactly one character: a loop over such a pattern matches every prefix of the run, no search needed *)
Definition single_char (p : lpat) : option (ascii -> bool) :=
  match p with
  | LSet neg rs => Some (fun c => xorb neg (in_ranges c rs))
  | LAny => Some (fun _ => true)
  | LLit (String c EmptyString) => Some (Ascii.eqb c)
  | _ => None
  end.
Fixpoint run_len (f : ascii -> bool) (s : string) : nat :=
  match s with String c r => if f c then S (run_len f r) else 0 | EmptyString => 0 end.

(* zero or more repetitions of a step: all total lengths; k bounds the number of repetitions (S |s| is always enough: every
   repetition consumes at least one character) *)
Fixpoint star_loop (step : string -> list nat) (k : nat) (s : string) : list nat :=
  match k with
  | 0 => [0]
  | S k' => nodup_nat (0 :: flat_map (fun n => if Nat.eqb n 0 then [] else map (Nat.add n) (star_loop step k' (sdrop n s))) (step s))
  end.

(* all lengths n such that the first n characters of s match p (with repetitions; max / min are taken by the caller) *)
Fixpoint mlens (p : lpat) (s : string) {struct p} : list nat :=
  match p with
  | LLit l => if String.prefix l s then [String.length l] else []
  | LSet neg rs => match s with String c _ => if xorb neg (in_ranges c rs) then [1] else [] | EmptyString => [] end
  | LAny => match s with String _ _ => [1] | EmptyString => [] end
  | LSeq ps =>
      (fix go (ps : list lpat) (s : string) : list nat :=
         match ps with
         | [] => [0]
         | q :: r => nodup_nat (flat_map (fun n => map (Nat.add n) (go r (sdrop n s))) (mlens q s))
         end) ps s
  | LAlt ps => (fix alt (ps : list lpat) : list nat := match ps with [] => [] | q :: r => mlens q s ++ alt r end) ps
  | LOpt q => 0 :: mlens q s
  | LStar q =>
      match single_char q with
      | Some pr => seq 0 (S (run_len pr s))
      | None => nodup_nat (star_loop (mlens q) (S (String.length s)) s)
      end
  | LPlus q =>
      match single_char q with
      | Some pr => seq 1 (run_len pr s)
      | None => nodup_nat (flat_map (fun n => map (Nat.add n) (star_loop (mlens q) (S (String.length s)) (sdrop n s))) (mlens q s))
      end
  end.

Definition max_list (l : list nat) : nat := fold_right Nat.max 0 l.
Definition min_pos (l : list nat) : nat :=     (* smallest non-zero element, 0 when there is none *)
  fold_right (fun n acc => if Nat.eqb n 0 then acc else if Nat.eqb acc 0 then n else Nat.min n acc) 0 l.

(* the match length of one token rule at the head of s (0 = no match) *)
Definition rule_len (r : bool * bool * lpat) (s : string) : nat :=
  let '(_, lazy, p) := r in
  let ls := mlens p s in if lazy then min_pos ls else max_list ls.

(* winner: longest, first rule on ties *)
Fixpoint best_rule (rules : list (string * (bool * bool * lpat))) (s : string) : option (string * bool * nat) :=
  match rules with
  | [] => None
  | (name, r) :: rest =>
      let n := rule_len r s in
      match best_rule rest s with
      | Some (name', skip', n') => if Nat.ltb n n' then Some (name', skip', n') else if Nat.eqb n 0 then Some (name', skip', n') else Some (name, fst (fst r), n)
      | None => if Nat.eqb n 0 then None else Some (name, fst (fst r), n)
      end
  end.

Record token := mktok { tk_type : string; tk_text : string; tk_line : nat; tk_col : nat }.

(* line / column after reading text t from (line, col) *)
Fixpoint advance (t : string) (line col : nat) : nat * nat :=
  match t with
  | EmptyString => (line, col)
  | String c r => if Ascii.eqb c nl then advance r (S line) 0 else advance r line (S col)
  end.

Inductive lexeme := LexTok (t : token) | LexSkip (text : string) | LexErr (c : ascii).

(* one step per lexeme; steps = an upper bound on the number of lexemes (the input length suffices, see lex_all_total) *)
Fixpoint lex_from (steps : nat) (rules : list (string * (bool * bool * lpat))) (s : string) (line col : nat) : option (list lexeme) :=
  match s with
  | EmptyString => Some []
  | String c rest =>
      match steps with
      | 0 => None
      | S k =>
          match best_rule rules s with
          | Some (name, skip, n) =>
              let text := stake n s in
              let '(l2, c2) := advance text line col in
              match lex_from k rules (sdrop n s) l2 c2 with
              | Some r => Some ((if skip then LexSkip text else LexTok (mktok name text line col)) :: r)
              | None => None
              end
          | None =>
              let '(l2, c2) := advance (String c "") line col in
              match lex_from k rules rest l2 c2 with
              | Some r => Some (LexErr c :: r)
              | None => None
              end
          end
      end
  end.

Definition lexeme_text (x : lexeme) : string :=
  match x with LexTok t => tk_text t | LexSkip t => t | LexErr c => String c "" end.

Definition lex_all (rules : list (string * (bool * bool * lpat))) (s : string) : option (list lexeme) :=
  lex_from (String.length s) rules s 1 0.

Definition tokens_of (ls : list lexeme) : list token :=
  flat_map (fun x => match x with LexTok t => [t] | _ => [] end) ls.
Definition has_lex_error (ls : list lexeme) : bool := existsb (fun x => match x with LexErr _ => true | _ => false end) ls.

(* the token stream the parser sees: the tokens followed by EOF at the end position *)
Definition eof_token (s : string) : token := let '(l, c) := advance s 1 0 in mktok "EOF" "<EOF>" l c.
