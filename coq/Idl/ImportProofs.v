(* @import / @extern: the fixed search order, the missing-file case, and concrete import graphs (tree, diamond, cycles)
   evaluated on the model. *)
From Coq Require Import List String Ascii Bool Arith.
From PDV Require Import Lib.StrUtil Idl.Cst Idl.Ast Idl.Resolver Idl.Visitor Idl.Front Idl.Show Idl.Init.
Import ListNotations.
Open Scope string_scope. Open Scope list_scope.

Lemma find_split {A} (f : A -> bool) l x :
  find f l = Some x -> exists pre post, l = pre ++ x :: post /\ f x = true /\ forall y, In y pre -> f y = false.
Proof.
  induction l as [|a l IH]; cbn; [discriminate|]. destruct (f a) eqn:E.
  - intros [= <-]. exists [], l. repeat split; [exact E | intros y []].
  - intros H. destruct (IH H) as (pre & post & -> & Hx & Hpre). exists (a :: pre), post. repeat split; [exact Hx|].
    intros y [<-|Hy]; [exact E | now apply Hpre].
Qed.

(* the file chosen for a directive is the FIRST existing non-directory among
   [literal path; directory of the importing file / path; include_dir_1 / path; ...] *)
Theorem search_order w e path sp :
  search w e path = Found sp ->
  exists pre post, candidates e path = pre ++ sp :: post /\ exists_file w sp = true /\
                   (forall c, In c pre -> exists_file w c = false) /\ sp <> norm (e_idl e).
Proof.
  unfold search. destruct (find (exists_file w) (candidates e path)) as [x|] eqn:E; [|discriminate].
  destruct (String.eqb_spec x (norm (e_idl e))) as [->|Hne]; [discriminate|]. intros [= <-].
  destruct (find_split _ _ _ E) as (pre & post & El & Hx & Hpre). exists pre, post. repeat split; assumption.
Qed.

Theorem search_missing w e path :
  search w e path = NotFound <-> forall c, In c (candidates e path) -> exists_file w c = false.
Proof.
  unfold search. split.
  - destruct (find (exists_file w) (candidates e path)) as [x|] eqn:E.
    + destruct (String.eqb x (norm (e_idl e))); discriminate.
    + intros _ c Hc. exact (find_none _ _ E c Hc).
  - intros H. destruct (find (exists_file w) (candidates e path)) as [x|] eqn:E; [|reflexivity].
    apply find_some in E as [Hin Hx]. rewrite (H x Hin) in Hx. discriminate.
Qed.

Theorem search_self w e path :
  search w e path = FoundSelf ->
  exists pre post, candidates e path = pre ++ norm (e_idl e) :: post /\ (forall c, In c pre -> exists_file w c = false).
Proof.
  unfold search. destruct (find (exists_file w) (candidates e path)) as [x|] eqn:E; [|discriminate].
  destruct (String.eqb_spec x (norm (e_idl e))) as [->|Hne]; [|discriminate]. intros _.
  destruct (find_split _ _ _ E) as (pre & post & El & _ & Hpre). now exists pre, post.
Qed.

(* the literal path wins over the importer's directory, which wins over every include directory *)
Theorem candidates_shape e path :
  candidates e path = norm path :: pjoin (parent (e_idl e)) path :: map (fun d => pjoin d path) (e_incdirs e).
Proof. reflexivity. Qed.

(* ---- tiny grammar-conformant trees, to evaluate concrete import graphs on the model ---- *)
Definition tk (ty x : string) : cst := T ty x 1 0 false.
Definition rl (n : string) (k : list cst) : cst := R n (Some (1, 0)) (Some (1, 0, 1)) k.
Definition t_import (p : string) : cst :=
  rl "load" [rl "importDef" [tk "IMPORT" "@import"; rl "filepath" [tk "FILEPATH" (String """"%char (p ++ String """"%char ""))]]].
Definition t_enum (n : string) : cst :=
  rl "namespaceContent" [rl "typeDecl" [rl "enum" [rl "identifier" [tk "ID" n]; tk "ASSIGN" "="; tk "ENUM" "enum"; tk "LBRACE" "{"; tk "RBRACE" "}"]]].
Definition t_file (imports : list string) (enums : list string) : fentry :=
  FIdl (rl "idl" (map t_import imports ++ map t_enum enums ++ [tk "EOF" "<EOF>"])) [].
Definition mkw (files : list (string * fentry)) : world := mkworld (map (fun f => (("/R/" ++ fst f)%string, snd f)) files) "/R".

Definition outcome_of (r : res parsed) : string * nat * list string :=
  match r with
  | Ok p => ((if pr_ok p then "ok" else "list"), List.length (s_decls (pr_state p)), map d_tag (s_errors (pr_state p)))
  | Crash t => ("internal", 0, [t])
  | Raise c k _ _ _ => ("app", k, [c])
  end.

(* a chain/tree: the importer sees the declarations of the transitive closure *)
Example import_tree :
  outcome_of (run_front (mkw [("main.pydjinni", t_file ["a.pydjinni"; "b.pydjinni"] ["m"]);
                              ("a.pydjinni", t_file ["sub/c.pydjinni"] ["a"]);
                              ("sub/c.pydjinni", t_file [] ["c"]);
                              ("b.pydjinni", t_file [] ["b"])]) [] [] "main.pydjinni") = ("ok", 4, []).
Proof. vm_compute. reflexivity. Qed.

Example import_missing :
  outcome_of (run_front (mkw [("main.pydjinni", t_file ["nope.pydjinni"] ["m"])]) [] [] "main.pydjinni") = ("list", 1, ["missing-file"]).
Proof. vm_compute. reflexivity. Qed.

Example import_self :
  outcome_of (run_front (mkw [("main.pydjinni", t_file ["main.pydjinni"] ["m"])]) [] [] "main.pydjinni") = ("list", 1, ["circular-direct"]).
Proof. vm_compute. reflexivity. Qed.

(* a cycle whose files declare nothing is diagnosed as a circular import, by exhaustion of the recursion limit *)
Example import_cycle_without_declarations :
  outcome_of (run_front (mkw [("main.pydjinni", t_file ["a.pydjinni"] []); ("a.pydjinni", t_file ["main.pydjinni"] [])]) [] [] "main.pydjinni")
  = ("list", 0, ["circular-indirect"]).
Proof. vm_compute. reflexivity. Qed.

(* REFUTED on the current tree: "a file reachable along several import paths contributes its declarations once".
   The diamond main -> {a, b} -> c registers c's declaration twice and the parse dies with "already exists". *)
Definition once_property (w : world) : Prop :=
  exists p, run_front w [] [] "main.pydjinni" = Ok p /\ pr_ok p = true.
Definition diamond : world :=
  mkw [("main.pydjinni", t_file ["a.pydjinni"; "b.pydjinni"] []); ("a.pydjinni", t_file ["c.pydjinni"] []);
       ("b.pydjinni", t_file ["c.pydjinni"] []); ("c.pydjinni", t_file [] ["shared"])].
Theorem import_once_refuted : ~ once_property diamond.
Proof.
  intros (p & H & _). assert (E : outcome_of (run_front diamond [] [] "main.pydjinni") = ("app", 170, ["Resolver.TypeResolvingException"])) by (vm_compute; reflexivity).
  rewrite H in E. cbn in E. destruct (pr_ok p); discriminate.
Qed.

(* REFUTED on the current tree: "every cycle is reported as a circular import".  When the files on the cycle declare
   types, unwinding the recursion re-registers them and "already exists" is raised instead. *)
Definition cycle_with_declarations : world :=
  mkw [("main.pydjinni", t_file ["a.pydjinni"] ["m"]); ("a.pydjinni", t_file ["main.pydjinni"] ["a"])].
Theorem import_cycle_with_declarations_refuted :
  outcome_of (run_front cycle_with_declarations [] [] "main.pydjinni") = ("app", 170, ["Resolver.TypeResolvingException"]).
Proof. vm_compute. reflexivity. Qed.

(* termination: the number of nested parse() activations is bounded by the fuel, by construction of the fixpoint;
   exhausting it yields the circular-import diagnostic, never a crash *)
Theorem fuel_exhaustion_is_diagnostic w keys der inc idl ip s :
  exists p, parse w keys der inc 0 idl ip s = Ok p /\ pr_ok p = false /\
            map d_tag (s_errors (pr_state p)) = ["circular-indirect"].
Proof. destruct ip; cbn; eexists; repeat split. Qed.
