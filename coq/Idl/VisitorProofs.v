(* Namespace-stack discipline of the visitor, for every parse tree (conformant or not): whatever is visited, the
   current namespace and the size stack are the same afterwards; a namespace block is visited under exactly the
   enclosing path extended by its dotted name. *)
From Coq Require Import List String Ascii Bool Arith Lia.
From PDV Require Import Lib.StrUtil Idl.Cst Idl.Ast Idl.Resolver Idl.Visitor.
Import ListNotations.
Open Scope string_scope. Open Scope list_scope.

Set Default Timeout 30.
Definition pres {A} (m : M A) : Prop :=
  forall s a s', m s = Ok (a, s') -> s_ns s' = s_ns s /\ s_stack s' = s_stack s.

Lemma pres_ret {A} (a : A) : pres (ret a).
Proof. intros s x s' [= <- <-]. now split. Qed.
Lemma pres_crash {A} t : pres (@crash A t).
Proof. intros s x s' H. discriminate. Qed.
Lemma pres_lift {A} (r : res A) : pres (lift r).
Proof. intros s x s' H. unfold lift in H. destruct r; try discriminate. injection H as <- <-. now split. Qed.
Lemma pres_get : pres get_st.
Proof. intros s x s' [= <- <-]. now split. Qed.
Lemma pres_add_error d : pres (add_error d).
Proof. intros s x s' [= <- <-]. now split. Qed.
Lemma pres_add_decl d : pres (add_decl d).
Proof. intros s x s' [= <- <-]. now split. Qed.
Lemma pres_add_import d : pres (add_import d).
Proof. intros s x s' [= <- <-]. now split. Qed.
Lemma pres_set_reg r : pres (set_reg r).
Proof. intros s x s' [= <- <-]. now split. Qed.
Lemma pres_fresh n ns p k : pres (fresh_ref n ns p k).
Proof. intros s x s' [= <- <-]. now split. Qed.
Lemma pres_raise {A} c k f l cl : pres (fun _ : vst => @Raise (A * vst) c k f l cl).
Proof. intros s x s' H. discriminate. Qed.

Lemma pres_bind {A B} (m : M A) (f : A -> M B) : pres m -> (forall a, pres (f a)) -> pres (mbind m f).
Proof.
  intros Hm Hf s b s' H. unfold mbind in H. destruct (m s) as [[a s1]| |] eqn:E; try discriminate.
  destruct (Hm _ _ _ E) as [H1 H2]. destruct (Hf a _ _ _ H) as [H3 H4]. split; congruence.
Qed.

Lemma pres_mmap {A B} (f : A -> M B) l : (forall x, pres (f x)) -> pres (mmap f l).
Proof.
  intros Hf. induction l as [|x r IH]; cbn [mmap]; [apply pres_ret|].
  apply pres_bind; [apply Hf|]. intros y. apply pres_bind; [exact IH|]. intros ys. apply pres_ret.
Qed.

Ltac pres_step :=
  lazymatch goal with
  | |- pres (ret _) => apply pres_ret
  | |- pres (crash _) => apply pres_crash
  | |- pres (lift _) => apply pres_lift
  | |- pres get_st => apply pres_get
  | |- pres (add_error _) => apply pres_add_error
  | |- pres (add_decl _) => apply pres_add_decl
  | |- pres (add_import _) => apply pres_add_import
  | |- pres (set_reg _) => apply pres_set_reg
  | |- pres (fresh_ref _ _ _ _) => apply pres_fresh
  | |- pres (fun _ => Raise _ _ _ _ _) => apply pres_raise
  | |- pres (mbind _ _) => apply pres_bind; [| intros ?]
  | |- pres (mmap _ _) => apply pres_mmap; intros ?
  | |- pres (let _ := _ in _) => cbv zeta
  | |- pres (match ?x with _ => _ end) => destruct x
  | |- pres (if ?x then _ else _) => destruct x
  | |- pres (?f ?a) => first [ assumption | match goal with H : forall c, pres (f c) |- _ => apply H end ]
  | |- pres _ => assumption
  end.
Ltac pres_tac := repeat pres_step.

Section Pres.
  Variable e : env.
  Opaque DEPTH.

  Lemma pres_visit_targets c : pres (visit_targets e c).
  Proof. unfold visit_targets. pres_tac. Qed.
  Lemma pres_targets_of c : pres (targets_of e c).
  Proof. unfold targets_of. pres_tac; try apply pres_visit_targets. Qed.

  Lemma pres_type_fns fuel :
    (forall c, pres (visit_typeref e fuel c)) /\ (forall c, pres (visit_datatype e fuel c)) /\
    (forall c, pres (visit_parameter e fuel c)) /\ (forall c, pres (visit_throwing e fuel c)) /\
    (forall c, pres (visit_function e fuel c)).
  Proof.
    induction fuel as [|f (IH1 & IH2 & IH3 & IH4 & IH5)];
      [refine (conj _ (conj _ (conj _ (conj _ _)))); intros c; apply pres_crash|].
    refine (conj _ (conj _ (conj _ (conj _ _)))); intros c.
    - change (pres (typeref_body e (visit_function e f) (visit_datatype e f) c)). unfold typeref_body. pres_tac.
    - change (pres (datatype_body e (visit_datatype e f) c)). unfold datatype_body. pres_tac.
    - change (pres (parameter_body e (visit_typeref e f) c)). unfold parameter_body. pres_tac.
    - change (pres (throwing_body (visit_typeref e f) c)). unfold throwing_body. pres_tac.
    - change (pres (function_body e (visit_typeref e f) (visit_parameter e f) (visit_throwing e f) c)).
      unfold function_body. pres_tac; try apply pres_targets_of; pres_tac.
  Qed.

  Lemma pres_typeref fuel c : pres (visit_typeref e fuel c).   Proof. apply pres_type_fns. Qed.
  Lemma pres_parameter fuel c : pres (visit_parameter e fuel c). Proof. apply pres_type_fns. Qed.
  Lemma pres_throwing fuel c : pres (visit_throwing e fuel c).  Proof. apply pres_type_fns. Qed.
  Lemma pres_function fuel c : pres (visit_function e fuel c).  Proof. apply pres_type_fns. Qed.

  Ltac pres_more := pres_tac; try apply pres_targets_of; try apply pres_visit_targets; try apply pres_typeref; try apply pres_parameter;
                    try apply pres_throwing; try apply pres_function; pres_tac.

  Lemma pres_opt_typeref c : pres (opt_typeref e c). Proof. unfold opt_typeref. pres_more. Qed.
  Lemma pres_item c : pres (visit_item e c). Proof. unfold visit_item. pres_more. Qed.
  Lemma pres_enum c : pres (visit_enum e c). Proof. unfold visit_enum. pres_more; try apply pres_item. Qed.
  Lemma pres_modifier c : pres (visit_modifier e c). Proof. unfold visit_modifier. pres_more. Qed.
  Lemma pres_flag c : pres (visit_flag e c). Proof. unfold visit_flag. pres_more; try apply pres_modifier. Qed.
  Lemma pres_flags c : pres (visit_flags e c). Proof. unfold visit_flags. pres_more; try apply pres_flag. Qed.
  Lemma pres_field c : pres (visit_field e c). Proof. unfold visit_field. pres_more. Qed.
  Lemma pres_declaration c : pres (visit_declaration e c). Proof. unfold visit_declaration. pres_more. Qed.
  Lemma pres_record c : pres (visit_record e c).
  Proof. unfold visit_record. pres_more; try apply pres_field; try apply pres_declaration; pres_more. Qed.
  Lemma pres_method c : pres (visit_method e c). Proof. unfold visit_method. pres_more; try apply pres_opt_typeref. Qed.
  Lemma pres_prop c : pres (visit_prop e c). Proof. unfold visit_prop. pres_more. Qed.
  Lemma pres_interface c : pres (visit_interface e c).
  Proof. unfold visit_interface. pres_more; try apply pres_method; try apply pres_prop; pres_more. Qed.
  Lemma pres_error_code c : pres (visit_error_code e c). Proof. unfold visit_error_code. pres_more. Qed.
  Lemma pres_error_domain c : pres (visit_error_domain e c).
  Proof. unfold visit_error_domain. pres_more; try apply pres_error_code. Qed.
  Lemma pres_named_function c : pres (visit_named_function e c). Proof. unfold visit_named_function. pres_more. Qed.

  Lemma pres_type_decl c : pres (visit_type_decl e c).
  Proof.
    unfold visit_type_decl.
    destruct (first_some _) as [m|] eqn:E; [|pres_more].
    assert (Hm : pres m).
    { unfold first_some in E. cbn [map fst snd] in E.
      repeat match type of E with
             | context [rule1 ?n c] => destruct (rule1 n c); cbn [somes] in E
             end;
      try (injection E as <-); try discriminate;
      first [apply pres_enum | apply pres_flags | apply pres_record | apply pres_interface
            | apply pres_named_function | apply pres_error_domain]. }
    pres_more.
  Qed.

  (* popping what was pushed *)
  Lemma drop_last_n_app {A} (b a : list A) : drop_last_n (List.length b) (a ++ b) = Ok a.
  Proof.
    revert a. induction b as [|x b IH] using rev_ind; intros a; [now rewrite app_nil_r|].
    rewrite app_length, Nat.add_comm. cbn [List.length plus drop_last_n].
    rewrite app_assoc, rev_app_distr. cbn [rev app]. rewrite rev_involutive. apply IH.
  Qed.

  Lemma pres_ns_children vns ks : (forall c, pres (vns c)) -> forall last, pres (ns_children e vns ks last).
  Proof.
    intros Hn. induction ks as [|k r IH]; intros last; cbn [ns_children]; [apply pres_ret|].
    apply pres_bind; [|intros v; apply IH].
    destruct k as [|rule st sp kk]; [apply pres_ret|].
    repeat match goal with |- pres (match ?x with _ => _ end) => destruct x end;
      pres_tac; try apply pres_type_decl; try apply Hn; pres_tac.
  Qed.

  Lemma mbind_ok {A B} (m : M A) (f : A -> M B) s b s' :
    mbind m f s = Ok (b, s') -> exists a s1, m s = Ok (a, s1) /\ f a s1 = Ok (b, s').
  Proof. unfold mbind. destruct (m s) as [[a s1]| |]; try discriminate. intros H. now exists a, s1. Qed.

  Lemma lift_ok {A} (r : res A) s a s' : lift r s = Ok (a, s') -> r = Ok a /\ s' = s.
  Proof. unfold lift. destruct r; try discriminate. intros [= <- <-]. now split. Qed.

  (* what happens inside a namespace block, step by step *)
  Lemma namespace_body_inv vc c s a s' :
    namespace_body e vc c s = Ok (a, s') ->
    exists name p children s5,
      let segs := split_on dot name in
      let s3 := mkvst (s_decls s) (s_refs s) (s_imports s) (s_ns s ++ segs) (s_stack s ++ [List.length segs])
                      (s_errors s) (s_reg s) (s_next s) (s_binds s) in
      mmap vc (rules "namespaceContent" c) s3 = Ok (children, s5) /\
      a = NNamespace name p (comment_of c) (somes children) /\
      exists n ns', hd_error (rev (s_stack s5)) = Some n /\ drop_last_n n (s_ns s5) = Ok ns' /\
        s' = mkvst (s_decls s5) (s_refs s5) (s_imports s5) ns' (rev (tl (rev (s_stack s5)))) (s_errors s5) (s_reg s5)
                   (s_next s5) (s_binds s5).
  Proof.
    unfold namespace_body. intros H.
    apply mbind_ok in H as (ni & s1 & E1 & H). apply lift_ok in E1 as [_ ->].
    apply mbind_ok in H as (name & s2 & E2 & H). apply lift_ok in E2 as [_ ->].
    cbv zeta in H.
    apply mbind_ok in H as (s0 & s2 & E3 & H). injection E3 as <- <-.
    apply mbind_ok in H as (u & s3 & E4 & H). injection E4 as _ <-.
    apply mbind_ok in H as (p & s4 & E5 & H). apply lift_ok in E5 as [_ ->].
    apply mbind_ok in H as (children & s5 & E6 & H).
    apply mbind_ok in H as (s5' & s6 & E7 & H). injection E7 as <- <-.
    apply mbind_ok in H as (n & s6 & E8 & H). apply lift_ok in E8 as [E8 ->].
    apply mbind_ok in H as (ns' & s7 & E9 & H). apply lift_ok in E9 as [E9 ->].
    apply mbind_ok in H as (u2 & s8 & E10 & H). injection E10 as _ <-. injection H as <- <-.
    exists name, p, children, s5. cbv zeta. split; [exact E6|]. split; [reflexivity|].
    exists n, ns'. split; [|split; [exact E9 | reflexivity]].
    unfold deref in E8. destruct (hd_error (rev (s_stack s5))); [now injection E8 as -> | discriminate].
  Qed.

  Lemma pres_namespace_body vc c : (forall c, pres (vc c)) -> pres (namespace_body e vc c).
  Proof.
    intros IHc s a s' H. apply namespace_body_inv in H as (name & p & children & s5 & Hm & _ & n & ns' & Hh & Hd & ->).
    cbv zeta in Hm. apply (pres_mmap _ _ IHc) in Hm as [N5 K5]. cbn [s_ns s_stack] in *.
    rewrite K5, rev_app_distr in Hh. cbn in Hh. injection Hh as <-.
    rewrite N5, drop_last_n_app in Hd. injection Hd as <-.
    rewrite K5, rev_app_distr. cbn [rev app tl]. rewrite rev_involutive. now split.
  Qed.

  Lemma ns_fns fuel :
    (forall c, pres (visit_ns_content e fuel c)) /\ (forall c, pres (visit_namespace e fuel c)).
  Proof.
    induction fuel as [|f [IHc IHn]]; [refine (conj _ _); intros c; apply pres_crash|]. refine (conj _ _); intros c.
    - change (pres (ns_children e (visit_namespace e f) (kids_of c) None)). now apply pres_ns_children.
    - change (pres (namespace_body e (visit_ns_content e f) c)). now apply pres_namespace_body.
  Qed.

  (* the children of a namespace block are visited under the enclosing path extended by the dotted name *)
  Theorem namespace_children_path vc c s a s' :
    namespace_body e vc c s = Ok (a, s') ->
    exists name p children s3 s5,
      a = NNamespace name p (comment_of c) (somes children) /\
      s_ns s3 = s_ns s ++ split_on dot name /\
      mmap vc (rules "namespaceContent" c) s3 = Ok (children, s5).
  Proof.
    intros H. apply namespace_body_inv in H as (name & p & children & s5 & Hm & Ha & _).
    cbv zeta in Hm. eexists name, p, children, _, s5. split; [exact Ha|]. split; [|exact Hm]. reflexivity.
  Qed.

  Theorem ns_content_restores fuel c : pres (visit_ns_content e fuel c).
  Proof. apply ns_fns. Qed.
  Theorem namespace_restores fuel c : pres (visit_namespace e fuel c).
  Proof. apply ns_fns. Qed.
End Pres.
