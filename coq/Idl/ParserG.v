(* A parser for ANY grammar in the EBNF notation of GrammarDefs: list-of-successes over the token stream, alternatives in grammar
   order, loops greedy first - the first complete parse is the one an unambiguous LL grammar has.  It builds ANTLR's parse tree
   (Idl/Cst.v): a rule node records the first token at its start position and the last token consumed before its end position
   (ANTLR's ctx.start = LT(1) on entry, ctx.stop = LT(-1) on exit - also for rules that consume nothing). *)
From Coq Require Import List String Ascii Bool Arith Lia.
From PDV Require Import Lib.StrUtil Idl.GrammarDefs Idl.Cst Idl.Lexer.
Import ListNotations.
Open Scope string_scope. Open Scope list_scope.

Definition leaf (t : token) : cst := T (tk_type t) (tk_text t) (tk_line t) (tk_col t) false.

Section Parse.
  Variable rules : list (string * gexp).
  Variable all_toks : list token.                (* the whole stream, for ctx.start / ctx.stop *)

  Definition lookup (n : string) : option gexp :=
    (fix go (l : list (string * gexp)) := match l with [] => None | (k, g) :: r => if String.eqb k n then Some g else go r end) rules.

  Definition start_of (pos : nat) : option (nat * nat) :=
    match nth_error all_toks pos with Some t => Some (tk_line t, tk_col t) | None => None end.
  (* matching EOF does not advance ANTLR's token stream: the token before an end position is never EOF *)
  Definition stop_of (pos : nat) : option (nat * nat * nat) :=
    let before (p : nat) := match p with
                            | 0 => None
                            | S q => match nth_error all_toks q with Some t => Some (tk_line t, tk_col t, String.length (tk_text t)) | None => None end
                            end in
    match pos with
    | 0 => None
    | S p => match nth_error all_toks p with
             | Some t => if String.eqb (tk_type t) "EOF" then before p else Some (tk_line t, tk_col t, String.length (tk_text t))
             | None => None
             end
    end.

  (* one result per end position (the first in search order): an unambiguous grammar has at most one tree per (expression, start, end) anyway,
     and without this the result lists of failing searches multiply *)
  Fixpoint dedup_end (seen : list nat) (l : list (list cst * nat)) : list (list cst * nat) :=
    match l with
    | [] => []
    | r :: t => if existsb (Nat.eqb (snd r)) seen then dedup_end seen t else r :: dedup_end (snd r :: seen) t
    end.

  (* a sequence: every way to parse the items one after the other *)
  Fixpoint seq_parse (pf : gexp -> nat -> list (list cst * nat)) (l : list gexp) (pos : nat) : list (list cst * nat) :=
    match l with
    | [] => [([], pos)]
    | x :: r => dedup_end [] (flat_map (fun a => map (fun b => (fst a ++ fst b, snd b)) (seq_parse pf r (snd a))) (pf x pos))
    end.

  (* results: (children in order, position after) *)
  Fixpoint parse (fuel : nat) (g : gexp) (pos : nat) {struct fuel} : list (list cst * nat) :=
    match fuel with
    | 0 => []
    | S f =>
        match g with
        | GTok n => match nth_error all_toks pos with
                    | Some t => if String.eqb (tk_type t) n then [([leaf t], S pos)] else []
                    | None => []
                    end
        | GRule n => match lookup n with
                     | Some body => map (fun r => ([R n (start_of pos) (stop_of (snd r)) (fst r)], snd r)) (parse f body pos)
                     | None => []
                     end
        | GSeq l => seq_parse (parse f) l pos
        | GAlt l => dedup_end [] (flat_map (fun x => parse f x pos) l)
        | GOpt x => dedup_end [] (parse f x pos ++ [([], pos)])
        | GStar x =>
            dedup_end [] (flat_map (fun a => if Nat.eqb (snd a) pos then [] else map (fun b => (fst a ++ fst b, snd b)) (parse f (GStar x) (snd a))) (parse f x pos)
                          ++ [([], pos)])
        | GPlus x =>
            dedup_end [] (flat_map (fun a => map (fun b => (fst a ++ fst b, snd b)) (parse f (GStar x) (snd a))) (parse f x pos))
        end
    end.
End Parse.

(* (A B)* A  is rewritten to  A (B A)*  (same language, same flat child list): the interpreter then parses the last A once instead of
   twice, which keeps nested generic arguments polynomial *)
Fixpoint gexp_eqb (a b : gexp) {struct a} : bool :=
  let leqb := (fix leqb (x y : list gexp) : bool :=
                 match x, y with [], [] => true | p :: x', q :: y' => gexp_eqb p q && leqb x' y' | _, _ => false end) in
  match a, b with
  | GTok x, GTok y | GRule x, GRule y => String.eqb x y
  | GSeq x, GSeq y | GAlt x, GAlt y => leqb x y
  | GStar x, GStar y | GPlus x, GPlus y | GOpt x, GOpt y => gexp_eqb x y
  | _, _ => false
  end.
(* inside any sequence:  ... (A B)* A ...   becomes   ... A (B A)* ... *)
Fixpoint rewrite_seplist (l : list gexp) : list gexp :=
  match l with
  | [] => []
  | x :: r =>
      match x, r with
      | GStar (GSeq [a; b]), a' :: r2 => if gexp_eqb a a' then a :: GStar (GSeq [b; a]) :: rewrite_seplist r2 else x :: rewrite_seplist r
      | _, _ => x :: rewrite_seplist r
      end
  end.
Fixpoint norm (g : gexp) : gexp :=
  let nl_ := (fix nl_ (l : list gexp) : list gexp := match l with [] => [] | x :: r => norm x :: nl_ r end) in
  match g with
  | GSeq l => GSeq (rewrite_seplist (nl_ l))
  | GAlt l => GAlt (nl_ l)
  | GStar x => GStar (norm x) | GPlus x => GPlus (norm x) | GOpt x => GOpt (norm x)
  | _ => g
  end.

(* text -> parse tree, None for a lexical or syntactic error *)
Definition parse_text (lrules : list (string * (bool * bool * lpat))) (prules : list (string * gexp)) (start : string) (s : string) : option cst :=
  match lex_all lrules s with
  | None => None
  | Some ls =>
      if has_lex_error ls then None else
      let toks := tokens_of ls ++ [eof_token s] in
      let n := List.length toks in
      match filter (fun r => Nat.eqb (snd r) n) (parse (map (fun kv => (fst kv, norm (snd kv))) prules) toks (20 * n + 200) (GRule start) 0) with
      | (k :: _, _) :: _ => Some k
      | _ => None
      end
  end.

(* decidable equality of parse trees (for the correspondence with ANTLR's tree) *)
Definition onn_eqb (a b : option (nat * nat)) : bool :=
  match a, b with None, None => true | Some (x, y), Some (u, v) => Nat.eqb x u && Nat.eqb y v | _, _ => false end.
Definition onnn_eqb (a b : option (nat * nat * nat)) : bool :=
  match a, b with None, None => true | Some (x, y, z), Some (u, v, w) => Nat.eqb x u && Nat.eqb y v && Nat.eqb z w | _, _ => false end.
Fixpoint cst_eqb (a b : cst) {struct a} : bool :=
  match a, b with
  | T t1 x1 l1 c1 e1, T t2 x2 l2 c2 e2 => String.eqb t1 t2 && String.eqb x1 x2 && Nat.eqb l1 l2 && Nat.eqb c1 c2 && Bool.eqb e1 e2
  | R r1 s1 e1 k1, R r2 s2 e2 k2 =>
      String.eqb r1 r2 && onn_eqb s1 s2 && onnn_eqb e1 e2 &&
      (fix go (x y : list cst) : bool := match x, y with [], [] => true | p :: x', q :: y' => cst_eqb p q && go x' y' | _, _ => false end) k1 k2
  | _, _ => false
  end.
Definition ocst_eqb (a b : option cst) : bool := match a, b with None, None => true | Some x, Some y => cst_eqb x y | _, _ => false end.

(* a compact rendering of a parse tree (the correspondence compares strings: large structured literals are slow to elaborate) *)
Fixpoint nat_str_aux (fuel n : nat) (acc : string) : string :=
  match fuel with
  | 0 => acc
  | S f => let d := String (ascii_of_nat (48 + n mod 10)) "" in
           if Nat.ltb n 10 then (d ++ acc)%string else nat_str_aux f (n / 10) (d ++ acc)%string
  end.
Definition nat_str (n : nat) : string := nat_str_aux (S n) n "".
Fixpoint show_cst (c : cst) : string :=
  match c with
  | T ty x l cl e => ("t" ++ ty ++ " " ++ nat_str l ++ " " ++ nat_str cl ++ " " ++ (if e then "1" else "0") ++ " " ++ nat_str (String.length x) ++ ":" ++ x ++ ";")%string
  | R r s e k =>
      ("r" ++ r ++ " " ++ match s with Some (a, b) => nat_str a ++ " " ++ nat_str b | None => "-" end ++ " " ++
       match e with Some (a, b, n) => nat_str a ++ " " ++ nat_str b ++ " " ++ nat_str n | None => "-" end ++ "[" ++
       (fix go (l : list cst) : string := match l with [] => "" | x :: t => (show_cst x ++ go t)%string end) k ++ "]")%string
  end.
Definition show_ocst (o : option cst) : string := match o with Some k => show_cst k | None => "REJECTED" end.
