(* Source layout does not matter - the part that is logic: diagnostics and bindings are invariant under permutation of
   the declaration list and under splitting it over importing/imported files. *)
From Coq Require Import List String Bool Arith Permutation.
From PDV Require Import Lib.StrUtil Idl.Cst Idl.Ast Idl.Resolver Idl.ResolverProofs Idl.Visitor Idl.Front Idl.ChecksProofs.
Import ListNotations.
Open Scope string_scope. Open Scope list_scope.

Lemma flat_map_perm {A B} (f : A -> list B) l l' : Permutation l l' -> Permutation (flat_map f l) (flat_map f l').
Proof.
  induction 1 as [|x l l' HP IH|x y l|l1 l2 l3 HP1 IH1 HP2 IH2]; cbn.
  - constructor.
  - now apply Permutation_app_head.
  - rewrite !app_assoc. apply Permutation_app_tail, Permutation_app_comm.
  - now transitivity (flat_map f l2).
Qed.

(* permuting the declarations permutes the rule diagnostics - same multiset, hence same acceptance *)
Theorem post_checks_permutation b ds ds' :
  Permutation ds ds' -> Permutation (post_checks b ds) (post_checks b ds').
Proof. unfold post_checks. apply flat_map_perm. Qed.

Theorem post_checks_permutation_accept b ds ds' :
  Permutation ds ds' -> (post_checks b ds = [] <-> post_checks b ds' = []).
Proof.
  intros HP. pose proof (post_checks_permutation b _ _ HP) as H. split; intros E; rewrite E in H.
  - now apply Permutation_nil in H.
  - apply Permutation_sym in H. now apply Permutation_nil in H.
Qed.

(* moving a suffix/prefix of the declarations into an imported file: the importer checks the concatenation *)
Theorem post_checks_split b imported local :
  Permutation (post_checks b (imported ++ local)) (post_checks b local ++ post_checks b imported).
Proof. rewrite post_checks_app. apply Permutation_app_comm. Qed.

(* every reference binds to the same declaration whatever the order in which the declarations were registered *)
Theorem bindings_permutation (r : registry tdef) ds ds' r1 :
  NoDup (map fst r) -> Permutation ds ds' -> register_all r ds = Some r1 ->
  exists r2, register_all r ds' = Some r2 /\ forall ns name, resolve r1 ns name = resolve r2 ns name.
Proof.
  intros Hr HP H. destruct (register_all_order_free tdef r ds ds' r1 Hr HP H) as (r2 & H2 & _ & Hres). now exists r2.
Qed.
