(* Facts about the pattern matcher of Idl/Lexer.v that hold for every pattern: match lengths are bounded by the input, a match of
   length n depends on the first n characters only, and a pattern without newline-accepting pieces never matches across a newline. *)
From Coq Require Import List String Ascii Bool Arith Lia.
From PDV Require Import Lib.StrUtil Lang.Comment Idl.GrammarDefs Idl.Lexer.
Import ListNotations.
Open Scope string_scope. Open Scope list_scope.

Notation slen := String.length.

(* ---------------- induction over patterns (nested lists) ---------------- *)
Section LpatInd.
  Variable P : lpat -> Prop.
  Hypothesis Hlit : forall l, P (LLit l).
  Hypothesis Hset : forall b rs, P (LSet b rs).
  Hypothesis Hany : P LAny.
  Hypothesis Hseq : forall l, Forall P l -> P (LSeq l).
  Hypothesis Halt : forall l, Forall P l -> P (LAlt l).
  Hypothesis Hstar : forall p, P p -> P (LStar p).
  Hypothesis Hplus : forall p, P p -> P (LPlus p).
  Hypothesis Hopt : forall p, P p -> P (LOpt p).
  Fixpoint lpat_ind2 (p : lpat) : P p :=
    match p with
    | LLit l => Hlit l | LSet b rs => Hset b rs | LAny => Hany
    | LSeq l => Hseq l ((fix go (l : list lpat) : Forall P l := match l with [] => Forall_nil _ | x :: r => Forall_cons _ (lpat_ind2 x) (go r) end) l)
    | LAlt l => Halt l ((fix go (l : list lpat) : Forall P l := match l with [] => Forall_nil _ | x :: r => Forall_cons _ (lpat_ind2 x) (go r) end) l)
    | LStar q => Hstar q (lpat_ind2 q) | LPlus q => Hplus q (lpat_ind2 q) | LOpt q => Hopt q (lpat_ind2 q)
    end.
End LpatInd.

(* ---------------- strings ---------------- *)
Lemma sdrop_len n : forall s, slen (sdrop n s) = slen s - n.
Proof. induction n as [|n IH]; intros s; [destruct s; cbn; lia|]. destruct s as [|c r]; [reflexivity|]. cbn. apply IH. Qed.
Lemma slen_app u v : slen (u ++ v) = slen u + slen v.
Proof. induction u as [|c u IH]; cbn; [reflexivity | now rewrite IH]. Qed.
Lemma sdrop_app n : forall u v, n <= slen u -> sdrop n (u ++ v) = (sdrop n u ++ v)%string.
Proof. induction n as [|n IH]; intros u v H; [destruct u; reflexivity|]. destruct u as [|c u]; [cbn in H; lia|]. cbn in *. apply IH. lia. Qed.
Lemma stake_app n : forall u v, n <= slen u -> stake n (u ++ v) = stake n u.
Proof. induction n as [|n IH]; intros u v H; [destruct u; reflexivity|]. destruct u as [|c u]; [cbn in H; lia|]. cbn in *. rewrite IH by lia. reflexivity. Qed.
Lemma sdrop_sdrop a : forall b s, sdrop b (sdrop a s) = sdrop (a + b) s.
Proof. induction a as [|a IH]; intros b s; [destruct s; reflexivity|]. destruct s as [|c r]; [destruct b; reflexivity|]. cbn. apply IH. Qed.
Lemma stake_add a : forall b s, stake (a + b) s = (stake a s ++ stake b (sdrop a s))%string.
Proof. induction a as [|a IH]; intros b s; [destruct s; reflexivity|]. destruct s as [|c r]; [destruct b; reflexivity|]. cbn. now rewrite IH. Qed.
Lemma prefix_len l : forall s, String.prefix l s = true -> slen l <= slen s.
Proof. induction l as [|a l IH]; intros s H; [cbn; lia|]. destruct s as [|b s]; [discriminate|]. cbn in *. destruct (Ascii.ascii_dec a b); [|discriminate]. apply IH in H. lia. Qed.
Lemma prefix_nil s : String.prefix "" s = true.
Proof. destruct s; reflexivity. Qed.
Lemma prefix_app l : forall u v, slen l <= slen u -> String.prefix l (u ++ v) = String.prefix l u.
Proof.
  induction l as [|a l IH]; intros u v H; [now rewrite !prefix_nil|]. destruct u as [|b u]; [cbn in H; lia|].
  cbn in *. destruct (Ascii.ascii_dec a b); [apply IH; lia | reflexivity].
Qed.
Lemma prefix_stake l : forall s, String.prefix l s = true -> stake (slen l) s = l.
Proof. induction l as [|a l IH]; intros s H; [destruct s; reflexivity|]. destruct s as [|b s]; [discriminate|]. cbn in *. destruct (Ascii.ascii_dec a b); [|discriminate]. subst. now rewrite IH. Qed.

Lemma in_nodup n l : In n (nodup_nat l) <-> In n l.
Proof.
  induction l as [|x l IH]; [tauto|]. cbn [nodup_nat]. destruct (existsb (Nat.eqb x) l) eqn:E.
  - rewrite IH. split; [now right|]. intros [->|H]; [|exact H]. apply existsb_exists in E as (y & Hy & Ey). apply Nat.eqb_eq in Ey. now subst.
  - cbn. now rewrite IH.
Qed.

(* ---------------- runs ---------------- *)
Lemma run_len_le pr s : run_len pr s <= slen s.
Proof. induction s as [|c r IH]; cbn; [lia|]. destruct (pr c); lia. Qed.
Lemma run_len_app pr u v : run_len pr (u ++ v) = if Nat.eqb (run_len pr u) (slen u) then slen u + run_len pr v else run_len pr u.
Proof.
  induction u as [|c u IH]; [reflexivity|]. cbn. destruct (pr c); [|reflexivity]. rewrite IH.
  destruct (Nat.eqb (run_len pr u) (slen u)) eqn:E; cbn [Nat.eqb]; rewrite E; reflexivity.
Qed.
Lemma run_prefix pr u v n : n <= slen u -> (n <= run_len pr (u ++ v) <-> n <= run_len pr u).
Proof.
  intros H. rewrite run_len_app. pose proof (run_len_le pr u). destruct (Nat.eqb (run_len pr u) (slen u)) eqn:E; [apply Nat.eqb_eq in E; lia | tauto].
Qed.
Lemma run_chars pr : forall s n c, n <= run_len pr s -> has_char c (stake n s) = true -> pr c = true.
Proof.
  induction s as [|a s IH]; intros n c Hn Hc; [destruct n; discriminate|]. destruct n as [|n]; [discriminate|].
  cbn in Hn. destruct (pr a) eqn:Ea; [|lia]. cbn in Hc. apply orb_true_iff in Hc as [Hc|Hc]; [apply Ascii.eqb_eq in Hc; now subst|].
  apply (IH n c); [lia | exact Hc].
Qed.
Lemma in_seq0 n k : In n (seq 0 (S k)) <-> n <= k.
Proof. rewrite in_seq. lia. Qed.
Lemma in_seq1 n k : In n (seq 1 k) <-> 1 <= n <= k.
Proof. rewrite in_seq. lia. Qed.

(* ---------------- repetitions ---------------- *)
Section Star.
  Variable step : string -> list nat.
  Inductive star_dec : string -> nat -> Prop :=
    | sd0 s : star_dec s 0
    | sdS s n1 n2 : In n1 (step s) -> 0 < n1 -> star_dec (sdrop n1 s) n2 -> star_dec s (n1 + n2).

  Lemma star_loop_dec : forall k s n, In n (star_loop step k s) -> star_dec s n.
  Proof.
    induction k as [|k IH]; intros s n H; [destruct H as [<-|[]]; constructor|].
    cbn [star_loop] in H. apply (proj1 (in_nodup _ _)) in H. destruct H as [<-|H]; [constructor|].
    apply in_flat_map in H as (n1 & H1 & H). destruct (Nat.eqb n1 0) eqn:E; [contradiction|]. apply Nat.eqb_neq in E.
    apply in_map_iff in H as (n2 & <- & H2). apply sdS; [exact H1 | lia | exact (IH _ _ H2)].
  Qed.

  Hypothesis step_bound : forall s n, In n (step s) -> n <= slen s.

  Lemma star_dec_bound : forall s n, star_dec s n -> n <= slen s.
  Proof. induction 1 as [|s n1 n2 H1 Hp _ IH]; [lia|]. apply step_bound in H1. rewrite sdrop_len in IH. lia. Qed.

  Lemma star_dec_loop : forall s n, star_dec s n -> forall k, slen s <= k -> In n (star_loop step k s).
  Proof.
    induction 1 as [|s n1 n2 H1 Hp Hd IH]; intros k Hk; [destruct k; [now left | cbn [star_loop]; apply in_nodup; now left]|].
    pose proof (step_bound _ _ H1) as Hb. destruct k as [|k]; [lia|]. cbn [star_loop]. apply in_nodup. right.
    apply in_flat_map. exists n1. split; [exact H1|]. destruct (Nat.eqb n1 0) eqn:E; [apply Nat.eqb_eq in E; lia|].
    apply in_map. apply IH. rewrite sdrop_len. lia.
  Qed.

  Lemma star_loop_iff s n : In n (star_loop step (S (slen s)) s) <-> star_dec s n.
  Proof. split; [apply star_loop_dec | intros H; apply star_dec_loop; [exact H | lia]]. Qed.
End Star.

Lemma star_dec_prefix (step : string -> list nat) :
  (forall u v n, n <= slen u -> (In n (step (u ++ v)%string) <-> In n (step u))) ->
  forall u v n, n <= slen u -> (star_dec step (u ++ v)%string n <-> star_dec step u n).
Proof.
  intros Hstep u v n Hn. split.
  - intros H. remember (u ++ v)%string as s eqn:Es. revert u Hn Es.
    induction H as [|s n1 n2 H1 Hp Hd IH]; intros u Hn Es; [constructor|]. subst s.
    apply sdS; [apply (Hstep u v); [lia | exact H1] | exact Hp|].
    apply IH; [rewrite sdrop_len; lia | apply sdrop_app; lia].
  - intros H. induction H as [|s n1 n2 H1 Hp Hd IH]; [constructor|].
    apply sdS; [apply (Hstep s v); [lia | exact H1] | exact Hp|].
    rewrite sdrop_app by lia. apply IH. rewrite sdrop_len. lia.
Qed.

(* ---------------- the matcher, unfolded ---------------- *)
Fixpoint seq_lens (f : lpat -> string -> list nat) (ps : list lpat) (s : string) : list nat :=
  match ps with
  | [] => [0]
  | q :: r => nodup_nat (flat_map (fun n => map (Nat.add n) (seq_lens f r (sdrop n s))) (f q s))
  end.
Fixpoint alt_lens (f : lpat -> string -> list nat) (ps : list lpat) (s : string) : list nat :=
  match ps with [] => [] | q :: r => f q s ++ alt_lens f r s end.
Lemma mlens_seq ps : forall s, mlens (LSeq ps) s = seq_lens mlens ps s.
Proof.
  cbn [mlens]. induction ps as [|q r IH]; intros s; [reflexivity|]. cbn [seq_lens]. f_equal.
  apply flat_map_ext. intros n. f_equal. apply IH.
Qed.
Lemma mlens_alt ps s : mlens (LAlt ps) s = alt_lens mlens ps s.
Proof. cbn [mlens]. induction ps as [|q r IH]; [reflexivity|]. cbn [alt_lens]. now rewrite <- IH. Qed.

Lemma in_seq_lens f q r s n : In n (seq_lens f (q :: r) s) <-> exists n1 n2, n = n1 + n2 /\ In n1 (f q s) /\ In n2 (seq_lens f r (sdrop n1 s)).
Proof.
  cbn [seq_lens]. rewrite in_nodup, in_flat_map. split.
  - intros (n1 & H1 & H). apply in_map_iff in H as (n2 & <- & H2). now exists n1, n2.
  - intros (n1 & n2 & -> & H1 & H2). exists n1. split; [exact H1 | now apply in_map].
Qed.
Lemma in_alt_lens f ps s n : In n (alt_lens f ps s) <-> exists q, In q ps /\ In n (f q s).
Proof.
  induction ps as [|q r IH]; cbn [alt_lens]; [split; [contradiction | intros (q & [] & _)]|].
  rewrite in_app_iff, IH. split.
  - intros [H|(q' & Hq & H)]; [exists q; split; [now left | exact H] | exists q'; split; [now right | exact H]].
  - intros (q' & [<-|Hq] & H); [now left | right; now exists q'].
Qed.

(* ---------------- (1) match lengths are bounded by the input ---------------- *)
Theorem mlens_bound : forall p s n, In n (mlens p s) -> n <= slen s.
Proof.
  induction p as [l|b rs| |ps IH|ps IH|q IH|q IH|q IH] using lpat_ind2; intros s n H.
  - cbn [mlens] in H. destruct (String.prefix l s) eqn:E; [|contradiction]. destruct H as [<-|[]]. now apply prefix_len.
  - cbn [mlens] in H. destruct s as [|c r]; [contradiction|]. destruct (xorb b (in_ranges c rs)); [|contradiction]. destruct H as [<-|[]]. cbn. lia.
  - cbn [mlens] in H. destruct s as [|c r]; [contradiction|]. destruct H as [<-|[]]. cbn. lia.
  - rewrite mlens_seq in H. revert s n H. induction IH as [|q r Hq _ IHr]; intros s n H.
    + destruct H as [<-|[]]. lia.
    + apply in_seq_lens in H as (n1 & n2 & -> & H1 & H2). apply Hq in H1. apply IHr in H2. rewrite sdrop_len in H2. lia.
  - rewrite mlens_alt in H. apply in_alt_lens in H as (q & Hq & H). rewrite Forall_forall in IH. exact (IH q Hq s n H).
  - cbn [mlens] in H. destruct (single_char q) as [pr|].
    + apply in_seq0 in H. pose proof (run_len_le pr s). lia.
    + apply in_nodup, star_loop_dec in H. exact (star_dec_bound _ IH _ _ H).
  - cbn [mlens] in H. destruct (single_char q) as [pr|].
    + apply in_seq1 in H. pose proof (run_len_le pr s). lia.
    + apply in_nodup, in_flat_map in H as (n1 & H1 & H). apply in_map_iff in H as (n2 & <- & H2).
      apply star_loop_dec in H2. apply (star_dec_bound _ IH) in H2. apply IH in H1. rewrite sdrop_len in H2. lia.
  - cbn [mlens] in H. destruct H as [<-|H]; [lia | exact (IH _ _ H)].
Qed.

(* ---------------- (2) a match of length n depends on the first n characters only ---------------- *)
Theorem mlens_prefix : forall p u v n, n <= slen u -> (In n (mlens p (u ++ v)%string) <-> In n (mlens p u)).
Proof.
  induction p as [l|b rs| |ps IH|ps IH|q IH|q IH|q IH] using lpat_ind2; intros u v n Hn.
  - cbn [mlens]. destruct (String.prefix l (u ++ v)%string) eqn:E1, (String.prefix l u) eqn:E2; try tauto.
    + split; [|contradiction]. intros [<-|[]]. rewrite prefix_app in E1 by exact Hn. congruence.
    + split; [contradiction|]. intros [<-|[]]. rewrite prefix_app in E1 by exact Hn. congruence.
  - cbn [mlens]. destruct u as [|c u]; [cbn; destruct v as [|c v]; [tauto|]; destruct (xorb b (in_ranges c rs)); [|tauto]; split; [intros [<-|[]]; cbn in Hn; lia | contradiction]|]. reflexivity.
  - cbn [mlens]. destruct u as [|c u]; [cbn; destruct v as [|c v]; [tauto|]; split; [intros [<-|[]]; cbn in Hn; lia | contradiction]|]. reflexivity.
  - rewrite !mlens_seq. revert u v n Hn. induction IH as [|q r Hq _ IHr]; intros u v n Hn; [reflexivity|].
    rewrite !in_seq_lens. split.
    + intros (n1 & n2 & -> & H1 & H2). exists n1, n2. split; [reflexivity|]. split; [apply (Hq u v); [lia | exact H1]|].
      rewrite sdrop_app in H2 by lia. apply (IHr (sdrop n1 u) v); [rewrite sdrop_len; lia | exact H2].
    + intros (n1 & n2 & -> & H1 & H2). exists n1, n2. split; [reflexivity|]. split; [apply (Hq u v); [lia | exact H1]|].
      rewrite sdrop_app by lia. apply (IHr (sdrop n1 u) v); [rewrite sdrop_len; lia | exact H2].
  - rewrite !mlens_alt, !in_alt_lens. rewrite Forall_forall in IH.
    split; intros (q & Hq & H); exists q; (split; [exact Hq|]); [apply (IH q Hq u v) | apply (IH q Hq u v)]; assumption.
  - cbn [mlens]. destruct (single_char q) as [pr|].
    + rewrite !in_seq0. now apply run_prefix.
    + rewrite !in_nodup, !star_loop_iff by (apply mlens_bound). now apply star_dec_prefix.
  - cbn [mlens]. destruct (single_char q) as [pr|].
    + rewrite !in_seq1. pose proof (run_prefix pr u v n Hn). lia.
    + rewrite !in_nodup, !in_flat_map. split.
      * intros (n1 & H1 & H). apply in_map_iff in H as (n2 & <- & H2). exists n1. split; [apply (IH u v); [lia | exact H1]|].
        apply in_map. rewrite sdrop_app in H2 by lia. apply star_loop_dec in H2.
        apply star_dec_loop; [apply mlens_bound | | rewrite sdrop_len; lia].
        apply (star_dec_prefix (mlens q) IH (sdrop n1 u) v n2); [rewrite sdrop_len; lia | exact H2].
      * intros (n1 & H1 & H). apply in_map_iff in H as (n2 & <- & H2). exists n1. split; [apply (IH u v); [lia | exact H1]|].
        apply in_map. rewrite sdrop_app by lia. apply star_loop_dec in H2.
        apply star_dec_loop; [apply mlens_bound | | rewrite !slen_app, sdrop_len; lia].
        apply (star_dec_prefix (mlens q) IH (sdrop n1 u) v n2); [rewrite sdrop_len; lia | exact H2].
  - cbn [mlens]. cbn [In]. rewrite (IH u v n Hn). reflexivity.
Qed.

(* ---------------- (3) a pattern that never accepts character c never matches across an occurrence of c ---------------- *)
Fixpoint avoids (c : ascii) (p : lpat) : bool :=
  match p with
  | LLit l => negb (has_char c l)
  | LSet neg rs => negb (xorb neg (in_ranges c rs))
  | LAny => false
  | LSeq ps | LAlt ps => (fix go (l : list lpat) : bool := match l with [] => true | x :: r => avoids c x && go r end) ps
  | LStar q | LPlus q | LOpt q => avoids c q
  end.
Lemma avoids_list c ps : (fix go (l : list lpat) : bool := match l with [] => true | x :: r => avoids c x && go r end) ps = forallb (avoids c) ps.
Proof. induction ps as [|x r IH]; [reflexivity|]. cbn [forallb]. now rewrite <- IH. Qed.

Lemma has_char_app c a b : has_char c (a ++ b) = has_char c a || has_char c b.
Proof. induction a as [|x a IH]; [reflexivity|]. cbn. now rewrite IH, orb_assoc. Qed.

Lemma single_avoids c q pr : single_char q = Some pr -> avoids c q = negb (pr c).
Proof.
  destruct q as [l|b rs| | | | | |]; cbn; try discriminate.
  - destruct l as [|a [|? ?]]; try discriminate. intros [= <-]. cbn. now rewrite orb_false_r.
  - intros [= <-]. reflexivity.
  - intros [= <-]. reflexivity.
Qed.

Lemma star_dec_avoids c (step : string -> list nat) :
  (forall s n, In n (step s) -> has_char c (stake n s) = false) ->
  forall s n, star_dec step s n -> has_char c (stake n s) = false.
Proof.
  intros Hs s n H. induction H as [s|s n1 n2 H1 Hp _ IH]; [destruct s; reflexivity|].
  rewrite stake_add, has_char_app, (Hs _ _ H1), IH. reflexivity.
Qed.

Theorem mlens_avoids c : forall p, avoids c p = true -> forall s n, In n (mlens p s) -> has_char c (stake n s) = false.
Proof.
  induction p as [l|b rs| |ps IH|ps IH|q IH|q IH|q IH] using lpat_ind2; intros Ha s n H.
  - cbn [mlens] in H. destruct (String.prefix l s) eqn:E; [|contradiction]. destruct H as [<-|[]].
    rewrite (prefix_stake _ _ E). cbn in Ha. now apply negb_true_iff in Ha.
  - cbn [mlens] in H. destruct s as [|a r]; [contradiction|]. destruct (xorb b (in_ranges a rs)) eqn:E; [|contradiction]. destruct H as [<-|[]].
    cbn. rewrite orb_false_r. cbn in Ha. apply negb_true_iff in Ha. destruct (Ascii.eqb a c) eqn:Eac; [|reflexivity].
    apply Ascii.eqb_eq in Eac. subst a. congruence.
  - discriminate.
  - cbn [avoids] in Ha. rewrite avoids_list in Ha. rewrite mlens_seq in H. revert s n H.
    induction IH as [|q r Hq _ IHr]; intros s n H.
    + destruct H as [<-|[]]. destruct s; reflexivity.
    + cbn [forallb] in Ha. apply andb_true_iff in Ha as [Ha1 Ha2]. apply in_seq_lens in H as (n1 & n2 & -> & H1 & H2).
      rewrite stake_add, has_char_app, (Hq Ha1 _ _ H1), (IHr Ha2 _ _ H2). reflexivity.
  - cbn [avoids] in Ha. rewrite avoids_list in Ha. rewrite mlens_alt in H. apply in_alt_lens in H as (q & Hq & H).
    rewrite Forall_forall in IH. rewrite forallb_forall in Ha. exact (IH q Hq (Ha q Hq) s n H).
  - cbn [mlens] in H. cbn [avoids] in Ha. destruct (single_char q) as [pr|] eqn:Es.
    + apply in_seq0 in H. rewrite (single_avoids c q pr Es) in Ha. apply negb_true_iff in Ha.
      destruct (has_char c (stake n s)) eqn:Ec; [|reflexivity]. rewrite (run_chars pr s n c H Ec) in Ha. discriminate.
    + apply in_nodup, star_loop_dec in H. exact (star_dec_avoids c _ (IH Ha) _ _ H).
  - cbn [mlens] in H. cbn [avoids] in Ha. destruct (single_char q) as [pr|] eqn:Es.
    + apply in_seq1 in H. rewrite (single_avoids c q pr Es) in Ha. apply negb_true_iff in Ha.
      destruct (has_char c (stake n s)) eqn:Ec; [|reflexivity]. assert (Hn : n <= run_len pr s) by lia. rewrite (run_chars pr s n c Hn Ec) in Ha. discriminate.
    + apply in_nodup, in_flat_map in H as (n1 & H1 & H). apply in_map_iff in H as (n2 & <- & H2). apply star_loop_dec in H2.
      rewrite stake_add, has_char_app, (IH Ha _ _ H1), (star_dec_avoids c _ (IH Ha) _ _ H2). reflexivity.
  - cbn [mlens] in H. destruct H as [<-|H]; [destruct s; reflexivity | exact (IH Ha _ _ H)].
Qed.

(* consequence: if the character at position k of s is c, a pattern that avoids c has no match longer than k *)
Lemma stake_has_char c : forall s k n, k < n -> (exists r, sdrop k s = String c r) -> has_char c (stake n s) = true.
Proof.
  induction s as [|a s IH]; intros k n Hk [r Hr]; [destruct k; discriminate|].
  destruct n as [|n]; [lia|]. destruct k as [|k].
  - cbn in Hr. injection Hr as -> _. cbn. now rewrite Ascii.eqb_refl.
  - cbn in Hr. cbn. rewrite (IH k n); [apply orb_true_r | lia | now exists r].
Qed.
Corollary mlens_stops_at c p u r n : avoids c p = true -> In n (mlens p (u ++ String c r)%string) -> n <= slen u.
Proof.
  intros Ha H. destruct (Nat.le_gt_cases n (slen u)) as [|Hgt]; [assumption|]. exfalso.
  pose proof (mlens_avoids c p Ha _ _ H) as Hn. rewrite (stake_has_char c _ (slen u) n Hgt) in Hn; [discriminate|].
  exists r. rewrite sdrop_app by lia. replace (sdrop (slen u) u) with "" by (clear; induction u; [reflexivity | assumption]). reflexivity.
Qed.
