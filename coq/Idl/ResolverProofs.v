(* Proofs about the Resolver model: innermost-first search, absolute lookups, key injectivity,
   order independence of registration, duplicate rejection. *)
From Coq Require Import List String Ascii Bool Arith Lia Permutation.
From PDV Require Import Lib.StrUtil Idl.Resolver.
Import ListNotations.
Open Scope string_scope. Open Scope list_scope.

Section Proofs.
  Variable A : Type.
  Notation registry := (registry A).

  (* ---- get on appended registries ---- *)
  Lemma get_app k (r1 r2 : registry) :
    get k (r1 ++ r2) = match get k r1 with Some v => Some v | None => get k r2 end.
  Proof.
    induction r1 as [|[k' v] r1 IH]; cbn; [reflexivity|].
    destruct (String.eqb k k'); [reflexivity | exact IH].
  Qed.

  Lemma get_in_keys k (r : registry) : (exists v, get k r = Some v) <-> In k (map fst r).
  Proof.
    induction r as [|[k' v] r IH]; cbn.
    - split; [intros [v H]; discriminate | contradiction].
    - destruct (String.eqb_spec k k') as [->|Hne].
      + split; [intros _; now left | intros _; now exists v].
      + rewrite IH. split; [intros H; now right | intros [H|H]; [congruence | exact H]].
  Qed.

  Lemma get_none_iff k (r : registry) : get k r = None <-> ~ In k (map fst r).
  Proof.
    rewrite <- get_in_keys. destruct (get k r) as [v|].
    - split; [discriminate | intros H; exfalso; apply H; now exists v].
    - split; [intros _ [v H]; discriminate | reflexivity].
  Qed.

  Lemma NoDup_snoc (l : list string) k : NoDup l -> ~ In k l -> NoDup (l ++ [k]).
  Proof.
    induction l as [|a l IH]; cbn; intros Hnd Hnin.
    - constructor; [intros [] | constructor].
    - inversion Hnd as [|? ? Ha Hl]; subst. constructor.
      + rewrite in_app_iff. cbn. intros [H|[H|[]]]; [contradiction | subst; apply Hnin; now left].
      + apply IH; [assumption | intros H; apply Hnin; now right].
  Qed.

  (* ---- register ---- *)
  Theorem register_rejects_iff_bound (r : registry) ns name v :
    register r ns name v = None <-> In (qkey ns name) (map fst r).
  Proof.
    unfold register. rewrite <- get_in_keys.
    destruct (get (qkey ns name) r) as [w|].
    - split; [intros _; now exists w | reflexivity].
    - split; [discriminate | intros [w H]; discriminate].
  Qed.

  Lemma register_get (r r' : registry) ns name v k :
    register r ns name v = Some r' ->
    get k r' = if String.eqb k (qkey ns name) then Some v else get k r.
  Proof.
    unfold register. destruct (get (qkey ns name) r) as [w|] eqn:E; [discriminate|].
    intros [= <-]. rewrite get_app. cbn.
    destruct (String.eqb_spec k (qkey ns name)) as [->|Hne].
    - now rewrite E.
    - now destruct (get k r).
  Qed.

  Lemma register_keys (r r' : registry) ns name v :
    register r ns name v = Some r' -> map fst r' = map fst r ++ [qkey ns name].
  Proof.
    unfold register. destruct (get _ r); [discriminate|]. intros [= <-].
    now rewrite map_app.
  Qed.

  (* ---- the search loop ---- *)
  (* suffixes of the reversed namespace = prefixes of the namespace, longest first *)
  Lemma resolve_rev_some (r : registry) rns name v :
    resolve_rev r rns name = Some v ->
    exists pre s, rns = pre ++ s /\ get (qkey (rev s) name) r = Some v /\
      forall pre' s', rns = pre' ++ s' -> List.length s < List.length s' -> get (qkey (rev s') name) r = None.
  Proof.
    induction rns as [|a rns IH]; cbn [resolve_rev]; intros H.
    - exists [], []. split; [reflexivity|]. split; [exact H|].
      intros pre' s' E Hl. symmetry in E. apply app_eq_nil in E as [_ ->]. cbn in Hl. lia.
    - destruct (get (qkey (rev (a :: rns)) name) r) as [w|] eqn:E.
      + injection H as ->. exists [], (a :: rns). split; [reflexivity|]. split; [exact E|].
        intros pre' s' E' Hl. apply (f_equal (@List.length _)) in E'. rewrite app_length in E'. cbn in *. lia.
      + destruct (IH H) as (pre & s & -> & Hg & Hmax).
        exists (a :: pre), s. split; [reflexivity|]. split; [exact Hg|].
        intros pre' s' E' Hl. destruct pre' as [|b pre'].
        * cbn in E'. subst s'. exact E.
        * cbn in E'. injection E' as -> E'. now apply (Hmax pre' s').
  Qed.

  Lemma resolve_rev_none (r : registry) rns name :
    resolve_rev r rns name = None ->
    forall pre s, rns = pre ++ s -> get (qkey (rev s) name) r = None.
  Proof.
    induction rns as [|a rns IH]; cbn [resolve_rev]; intros H pre s E.
    - symmetry in E. apply app_eq_nil in E as [_ ->]. exact H.
    - destruct (get (qkey (rev (a :: rns)) name) r) as [w|] eqn:Eg; [discriminate|].
      destruct pre as [|b pre].
      + cbn in E. subst s. exact Eg.
      + cbn in E. injection E as -> E. now apply (IH H pre s).
  Qed.

  Lemma prefix_rev_suffix (ns p q : list string) :
    ns = p ++ q -> rev ns = rev q ++ rev p.
  Proof. intros ->. apply rev_app_distr. Qed.

  (* C04: a relative reference binds to the longest registered prefix of its namespace *)
  Theorem resolve_innermost (r : registry) ns name v :
    starts_with "." name = false ->
    resolve r ns name = Some v ->
    exists p q, ns = p ++ q /\ get (qkey p name) r = Some v /\
      forall p' q', ns = p' ++ q' -> List.length p < List.length p' -> get (qkey p' name) r = None.
  Proof.
    unfold resolve. intros -> H.
    destruct (resolve_rev_some _ _ _ _ H) as (pre & s & E & Hg & Hmax).
    exists (rev s), (rev pre). split.
    - rewrite <- rev_app_distr, <- E. now rewrite rev_involutive.
    - split; [exact Hg|]. intros p' q' E' Hl.
      specialize (Hmax (rev q') (rev p')). rewrite rev_involutive in Hmax. apply Hmax.
      + subst ns. apply rev_app_distr.
      + rewrite rev_length in *. exact Hl.
  Qed.

  Theorem resolve_unknown (r : registry) ns name :
    starts_with "." name = false ->
    resolve r ns name = None ->
    forall p q, ns = p ++ q -> get (qkey p name) r = None.
  Proof.
    unfold resolve. intros -> H p q E.
    pose proof (resolve_rev_none _ _ _ H (rev q) (rev p)) as Hn.
    rewrite rev_involutive in Hn. apply Hn. subst ns. apply rev_app_distr.
  Qed.

  (* converse direction: the characterisation determines the result *)
  Theorem resolve_innermost_complete (r : registry) ns name p q v :
    starts_with "." name = false ->
    ns = p ++ q -> get (qkey p name) r = Some v ->
    (forall p' q', ns = p' ++ q' -> List.length p < List.length p' -> get (qkey p' name) r = None) ->
    resolve r ns name = Some v.
  Proof.
    intros Hrel E Hg Hmax.
    destruct (resolve r ns name) as [w|] eqn:R.
    - destruct (resolve_innermost _ _ _ _ Hrel R) as (p1 & q1 & E1 & Hg1 & Hmax1).
      destruct (Nat.lt_trichotomy (List.length p) (List.length p1)) as [Hl|[Hl|Hl]].
      + rewrite (Hmax p1 q1 E1 Hl) in Hg1. discriminate.
      + assert (p = p1) as <-.
        { subst ns. clear - E1 Hl. revert p1 E1 Hl. induction p as [|a p IH]; intros [|b p1] E1 Hl;
            cbn in *; try reflexivity; try discriminate.
          injection E1 as -> E1. f_equal. apply IH; [exact E1 | lia]. }
        congruence.
      + rewrite (Hmax1 p q E Hl) in Hg. discriminate.
    - rewrite (resolve_unknown _ _ _ Hrel R p q E) in Hg. discriminate.
  Qed.

  (* C04: a leading dot consults the root only, whatever the referencing namespace *)
  Theorem resolve_absolute (r : registry) ns ns' name :
    starts_with "." name = true ->
    resolve r ns name = get (drop1 name) r /\ resolve r ns name = resolve r ns' name.
  Proof. unfold resolve. intros ->. split; reflexivity. Qed.

  (* resolve looks at the registry only through get *)
  Lemma resolve_rev_ext (r1 r2 : registry) rns name :
    (forall k, get k r1 = get k r2) -> resolve_rev r1 rns name = resolve_rev r2 rns name.
  Proof.
    intros H. induction rns as [|a rns IH]; cbn [resolve_rev]; rewrite H; [reflexivity|].
    now rewrite IH.
  Qed.

  Theorem resolve_ext (r1 r2 : registry) ns name :
    (forall k, get k r1 = get k r2) -> resolve r1 ns name = resolve r2 ns name.
  Proof.
    intros H. unfold resolve. rewrite H. destruct (starts_with "." name); [reflexivity|].
    now apply resolve_rev_ext.
  Qed.

  (* ---- registration of a whole declaration list ---- *)
  Definition dkey (d : list string * string * A) : string := qkey (fst (fst d)) (snd (fst d)).

  Lemma register_all_keys (ds : list (list string * string * A)) : forall (r r' : registry),
    register_all r ds = Some r' -> map fst r' = map fst r ++ map dkey ds.
  Proof.
    induction ds as [|[[ns name] v] ds IH]; cbn; intros r r' H.
    - injection H as <-. now rewrite app_nil_r.
    - destruct (register r ns name v) as [r1|] eqn:E; [|discriminate].
      rewrite (IH _ _ H), (register_keys _ _ _ _ _ E), <- app_assoc. reflexivity.
  Qed.

  (* duplicates are rejected, and only duplicates *)
  Theorem register_all_accepts_iff_nodup (ds : list (list string * string * A)) : forall (r : registry),
    NoDup (map fst r) ->
    ((exists r', register_all r ds = Some r') <-> NoDup (map fst r ++ map dkey ds)).
  Proof.
    induction ds as [|[[ns name] v] ds IH]; cbn; intros r Hr.
    - rewrite app_nil_r. split; [intros _; exact Hr | intros _; now exists r].
    - destruct (register r ns name v) as [r1|] eqn:E.
      + assert (Hk := register_keys _ _ _ _ _ E).
        assert (Hnin : ~ In (qkey ns name) (map fst r)).
        { intros Hin. apply register_rejects_iff_bound with (v:=v) in Hin. congruence. }
        assert (Hr1 : NoDup (map fst r1)).
        { rewrite Hk. apply NoDup_snoc; assumption. }
        rewrite (IH r1 Hr1), Hk, <- app_assoc. reflexivity.
      + split; [intros [r' H]; discriminate|]. intros Hnd. exfalso.
        apply register_rejects_iff_bound in E.
        apply NoDup_remove_2 in Hnd. apply Hnd. apply in_or_app. now left.
  Qed.

  Lemma register_all_get (ds : list (list string * string * A)) : forall (r r' : registry) k,
    register_all r ds = Some r' ->
    get k r' = match get k r with
               | Some v => Some v
               | None => match find (fun d => String.eqb k (dkey d)) ds with
                         | Some d => Some (snd d)
                         | None => None
                         end
               end.
  Proof.
    induction ds as [|[[ns name] v] ds IH]; cbn [register_all find]; intros r r' k H.
    - injection H as <-. now destruct (get k r).
    - destruct (register r ns name v) as [r1|] eqn:E; [|discriminate].
      rewrite (IH _ _ k H), (register_get _ _ _ _ _ k E).
      change (dkey (ns, name, v)) with (qkey ns name).
      destruct (String.eqb_spec k (qkey ns name)) as [->|Hne].
      + unfold register in E. destruct (get (qkey ns name) r); [discriminate | reflexivity].
      + reflexivity.
  Qed.

  Lemma find_perm_nodup (k : string) (ds ds' : list (list string * string * A)) :
    Permutation ds ds' -> NoDup (map dkey ds) ->
    find (fun d => String.eqb k (dkey d)) ds = find (fun d => String.eqb k (dkey d)) ds'.
  Proof.
    induction 1 as [|d l l' HP IH|d1 d2 l|l1 l2 l3 HP1 IH1 HP2 IH2]; intros Hnd.
    - reflexivity.
    - cbn. inversion Hnd; subst. rewrite IH by assumption. reflexivity.
    - cbn. destruct (String.eqb_spec k (dkey d1)) as [E1|N1], (String.eqb_spec k (dkey d2)) as [E2|N2];
        try reflexivity.
      exfalso. inversion Hnd as [|? ? Hnin _]; subst. apply Hnin. left. congruence.
    - rewrite IH1 by assumption. apply IH2.
      eapply Permutation_NoDup; [apply Permutation_map; exact HP1 | exact Hnd].
  Qed.

  (* C04: declaration order does not matter - every lookup, hence every binding, is the same *)
  Theorem register_all_order_free (r : registry) ds ds' r1 :
    NoDup (map fst r) -> Permutation ds ds' ->
    register_all r ds = Some r1 ->
    exists r2, register_all r ds' = Some r2 /\
      (forall k, get k r1 = get k r2) /\
      (forall ns name, resolve r1 ns name = resolve r2 ns name).
  Proof.
    intros Hr HP H1.
    assert (Hnd : NoDup (map fst r ++ map dkey ds)).
    { apply (register_all_accepts_iff_nodup ds r Hr). now exists r1. }
    assert (Hnd' : NoDup (map fst r ++ map dkey ds')).
    { eapply Permutation_NoDup; [|exact Hnd]. apply Permutation_app_head, Permutation_map, HP. }
    destruct (proj2 (register_all_accepts_iff_nodup ds' r Hr) Hnd') as [r2 H2].
    exists r2. split; [exact H2|].
    assert (Hget : forall k, get k r1 = get k r2).
    { intros k. rewrite (register_all_get _ _ _ k H1), (register_all_get _ _ _ k H2).
      rewrite (find_perm_nodup k ds ds' HP); [reflexivity|].
      clear - Hnd. induction (map fst r) as [|a l IHl]; cbn in Hnd; [exact Hnd|].
      inversion Hnd; subst. now apply IHl. }
    split; [exact Hget|]. intros ns name. now apply resolve_ext.
  Qed.

  (* C04: declarations contributed by another file are registered into the same registry: the
     importer's lookups see them exactly as if they were declared in place *)
  Theorem register_all_app (ds1 ds2 : list (list string * string * A)) : forall (r : registry),
    register_all r (ds1 ++ ds2) =
    match register_all r ds1 with Some r1 => register_all r1 ds2 | None => None end.
  Proof.
    induction ds1 as [|[[ns name] v] ds1 IH]; cbn; intros r; [reflexivity|].
    destruct (register r ns name v); [apply IH | reflexivity].
  Qed.
End Proofs.

(* ---- the dotted key determines (namespace, name) for dot-free non-empty identifiers ---- *)
Definition dotfree (s : string) : Prop := has_char dot s = false.

Theorem qkey_injective ns name ns' name' :
  Forall dotfree ns -> dotfree name -> Forall dotfree ns' -> dotfree name' ->
  qkey ns name = qkey ns' name' -> ns = ns' /\ name = name'.
Proof.
  unfold qkey. intros F1 H1 F2 H2 E.
  apply (join_inj dot) in E.
  - apply app_inj_tail in E. exact E.
  - destruct ns; discriminate.
  - destruct ns'; discriminate.
  - apply Forall_app. split; [exact F1 | now constructor].
  - apply Forall_app. split; [exact F2 | now constructor].
Qed.
