(* End to end: replacing one white-space run (between two lexemes) by another that starts with the same character does not change the parse
   tree up to recorded positions - Idl/LexWhite.v (the lexemes) composed with Idl/LayoutFree.v (the parser reads token types and texts only). *)
From Coq Require Import List String Ascii Bool Arith Lia Relations.
From PDV Require Import Lib.StrUtil Lang.Comment Idl.GrammarDefs Idl.Lexer Idl.ParserG Idl.LayoutFree Idl.LexParseProofs Idl.LexLemmas Idl.LexStable Idl.LexWhite.
Import ListNotations.
Open Scope string_scope. Open Scope list_scope.

Lemma tokens_of_app a b : tokens_of (a ++ b) = tokens_of a ++ tokens_of b.
Proof. unfold tokens_of. apply flat_map_app. Qed.

Lemma has_lex_error_app a b : has_lex_error (a ++ b) = has_lex_error a || has_lex_error b.
Proof. unfold has_lex_error. apply existsb_app. Qed.

Lemma same_tok_refl l : Forall2 same_tok l l.
Proof. induction l as [|t l IH]; constructor; [split; reflexivity | exact IH]. Qed.

Lemma same_lexeme_tokens t1 t2 : Forall2 same_lexeme t1 t2 -> Forall2 same_tok (tokens_of t1) (tokens_of t2) /\ has_lex_error t1 = has_lex_error t2.
Proof.
  intros HF. induction HF as [|a b l1 l2 Hab _ [IH1 IH2]]; [split; [constructor | reflexivity]|].
  destruct a as [ta|xa|ca], b as [tb|xb|cb]; cbn in Hab; try contradiction.
  - split; [cbn; constructor; [exact Hab | exact IH1] | cbn; exact IH2].
  - split; [exact IH1 | cbn; exact IH2].
  - split; [exact IH1 | reflexivity].
Qed.

(* lex_run_step with the kind of the lexeme *)
Lemma lex_run_step_kind rules nm0 sk0 q pr c w' y k l cl r :
  nodup_names (map r_name rules) = true -> In (nm0, (sk0, false, LPlus q)) rules -> single_char q = Some pr ->
  others_silent rules nm0 c = true -> pr c = true -> run_len pr w' = String.length w' -> (match y with EmptyString => true | String a _ => negb (pr a) end) = true ->
  lex_from k rules (String c w' ++ y) l cl = Some r ->
  exists k0 t, k = S k0 /\ r = (if sk0 then LexSkip (String c w') else LexTok (mktok nm0 (String c w') l cl)) :: t /\
                 (let '(l2, c2) := advance (String c w') l cl in lex_from k0 rules y l2 c2 = Some t).
Proof.
  intros Hnd Hin Es Hsil Hc Hw Hy H. pose proof (run_is_one_lexeme rules nm0 sk0 q pr c w' y Hnd Hin Es Hsil Hc Hw Hy) as Eb.
  destruct k as [|k0]; [discriminate|]. change (String c w' ++ y)%string with (String c (w' ++ y)%string) in H, Eb. cbn [lex_from] in H. rewrite Eb in H.
  assert (Et : stake (S (slen w')) (String c (w' ++ y)) = String c w').
  { change (String c (w' ++ y)%string) with (String c w' ++ y)%string. change (S (slen w')) with (slen (String c w')). rewrite stake_app by lia.
    clear. generalize (String c w'). intros s. induction s as [|a s IH]; [reflexivity|]. cbn. now rewrite IH. }
  assert (Ed : sdrop (S (slen w')) (String c (w' ++ y)) = y) by (change (String c (w' ++ y)%string) with (String c w' ++ y)%string; change (S (slen w')) with (slen (String c w')); apply sdrop_all).
  rewrite Et, Ed in H. destruct (advance (String c w') l cl) as [l2 c2].
  destruct (lex_from k0 rules y l2 c2) as [t|] eqn:Er; [|discriminate]. injection H as <-.
  exists k0, t. split; [reflexivity|]. split; [reflexivity | exact Er].
Qed.

(* a SKIPPED run: the tokens the parser sees are the same, and no lexical error appears or disappears *)
Theorem skipped_run_same_tokens rules nm0 q pr c w1 w2 y la x k k' line col rest1 :
  table_ok c rules = true -> In (nm0, (true, false, LPlus q)) rules -> single_char q = Some pr -> others_silent rules nm0 c = true -> pr c = true ->
  run_len pr w1 = String.length w1 -> run_len pr w2 = String.length w2 -> (match y with EmptyString => true | String a _ => negb (pr a) end) = true ->
  lex_from k rules (x ++ String c (w1 ++ y)) line col = Some (la ++ rest1) -> concat_lexemes la = x -> no_err la ->
  String.length (x ++ String c (w2 ++ y)) <= k' ->
  exists rest2,
    lex_from k' rules (x ++ String c (w2 ++ y)) line col = Some (la ++ rest2) /\
    Forall2 same_tok (tokens_of (la ++ rest1)) (tokens_of (la ++ rest2)) /\ has_lex_error (la ++ rest1) = has_lex_error (la ++ rest2).
Proof.
  intros Hok Hin Es Hsil Hc Hw1 Hw2 Hy H1 Hla Hne Hk.
  assert (Hnd : nodup_names (map r_name rules) = true) by (unfold table_ok in Hok; apply andb_true_iff in Hok as [Hnd _]; exact Hnd).
  destruct (lex_prefix_stable c rules Hok la x (w1 ++ y) (w2 ++ y) k k' line col rest1 H1 Hla Hne Hk) as (rest2 & H2).
  pose proof (lex_suffix rules la x c (w1 ++ y) k line col rest1 H1 Hla) as S1.
  pose proof (lex_suffix rules la x c (w2 ++ y) k' line col rest2 H2 Hla) as S2.
  destruct (advance x line col) as [l0 c0].
  change (String c (w1 ++ y)%string) with (String c w1 ++ y)%string in S1. change (String c (w2 ++ y)%string) with (String c w2 ++ y)%string in S2.
  destruct (lex_run_step_kind rules nm0 true q pr c w1 y _ l0 c0 rest1 Hnd Hin Es Hsil Hc Hw1 Hy S1) as (k1 & t1 & _ & -> & R1).
  destruct (lex_run_step_kind rules nm0 true q pr c w2 y _ l0 c0 rest2 Hnd Hin Es Hsil Hc Hw2 Hy S2) as (k2 & t2 & _ & -> & R2).
  exists (LexSkip (String c w2) :: t2). split; [exact H2|].
  destruct (advance (String c w1) l0 c0) as [la1 ca1]. destruct (advance (String c w2) l0 c0) as [la2 ca2].
  destruct (lex_position_free rules k1 y la1 ca1 la2 ca2 t1 R1) as (t2' & R2' & HF).
  rewrite (lex_steps_agree rules _ _ _ _ _ _ _ R2' R2) in HF. destruct (same_lexeme_tokens _ _ HF) as [HT HE].
  rewrite !tokens_of_app, !has_lex_error_app. cbn [tokens_of flat_map has_lex_error existsb app orb]. split.
  - apply Forall2_app; [apply same_tok_refl | exact HT].
  - fold (has_lex_error t1). fold (has_lex_error t2). now rewrite HE.
Qed.

(* ... hence the same parse tree up to positions (or both rejected), for every grammar over that token table *)
Theorem skipped_run_same_tree rules prules start nm0 q pr c w1 w2 y la x rest1 :
  table_ok c rules = true -> In (nm0, (true, false, LPlus q)) rules -> single_char q = Some pr -> others_silent rules nm0 c = true -> pr c = true ->
  run_len pr w1 = String.length w1 -> run_len pr w2 = String.length w2 -> (match y with EmptyString => true | String a _ => negb (pr a) end) = true ->
  lex_all rules (x ++ String c (w1 ++ y)) = Some (la ++ rest1) -> concat_lexemes la = x -> no_err la -> has_lex_error (la ++ rest1) = false ->
  erase_o (parse_text rules prules start (x ++ String c (w1 ++ y))) = erase_o (parse_text rules prules start (x ++ String c (w2 ++ y))).
Proof.
  intros Hok Hin Es Hsil Hc Hw1 Hw2 Hy H1 Hla Hne Herr. unfold lex_all in H1.
  destruct (skipped_run_same_tokens rules nm0 q pr c w1 w2 y la x _ (String.length (x ++ String c (w2 ++ y))) 1 0 rest1 Hok Hin Es Hsil Hc Hw1 Hw2 Hy H1 Hla Hne (le_n _))
    as (rest2 & H2 & HT & HE).
  apply (parse_text_layout_free rules prules start _ _ (la ++ rest1) (la ++ rest2)); try assumption.
  now rewrite <- HE.
Qed.

(* any number of such replacements, in either direction *)
Inductive run_step (rules : list rule) (nm0 : string) (q : lpat) (pr : ascii -> bool) : string -> string -> Prop :=
| run_step_intro : forall c w1 w2 y la x rest1,
    table_ok c rules = true -> others_silent rules nm0 c = true -> pr c = true ->
    run_len pr w1 = String.length w1 -> run_len pr w2 = String.length w2 -> (match y with EmptyString => true | String a _ => negb (pr a) end) = true ->
    lex_all rules (x ++ String c (w1 ++ y)) = Some (la ++ rest1) -> concat_lexemes la = x -> no_err la -> has_lex_error (la ++ rest1) = false ->
    run_step rules nm0 q pr (x ++ String c (w1 ++ y)) (x ++ String c (w2 ++ y)).

Theorem reformatted_same_tree rules prules start nm0 q pr s1 s2 :
  In (nm0, (true, false, LPlus q)) rules -> single_char q = Some pr ->
  clos_refl_sym_trans _ (run_step rules nm0 q pr) s1 s2 ->
  erase_o (parse_text rules prules start s1) = erase_o (parse_text rules prules start s2).
Proof.
  intros Hin Es H. induction H as [a b Hab|a|a b _ IH|a b d _ IH1 _ IH2].
  - destruct Hab as [c w1 w2 y la x rest1 Hok Hsil Hc Hw1 Hw2 Hy HL Hla Hne Herr].
    exact (skipped_run_same_tree rules prules start nm0 q pr c w1 w2 y la x rest1 Hok Hin Es Hsil Hc Hw1 Hw2 Hy HL Hla Hne Herr).
  - reflexivity.
  - symmetry; exact IH.
  - now rewrite IH1.
Qed.
