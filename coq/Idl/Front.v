(* Model of Parser.parse(): syntax errors first, the visit (with @import recursion and @extern loading), deferred
   resolution + generic-argument checks, the post-resolution rule checks, and the single raise at the end. *)
From Coq Require Import List String Ascii Bool Arith.
From PDV Require Import Lib.StrUtil Idl.Cst Idl.Ast Idl.Resolver Idl.Visitor.
Import ListNotations.
Open Scope string_scope. Open Scope list_scope.

(* ---- paths (pathlib.PurePosixPath as far as visitFilepath uses it) ---- *)
Definition is_abs (p : string) : bool := starts_with "/" p.
Definition segs (p : string) : list string := filter (fun s => negb (String.eqb s "") && negb (String.eqb s ".")) (split_on "/"%char p).
Definition mk_path (abs : bool) (ss : list string) : string :=
  match abs, ss with
  | true, _ => ("/" ++ join "/" ss)%string
  | false, [] => "."
  | false, _ => join "/" ss
  end.
Definition norm (p : string) : string := mk_path (is_abs p) (segs p).          (* Path(p): drops '.' and '//' only *)
Definition pjoin (a b : string) : string := if is_abs b then norm b else mk_path (is_abs a) (segs a ++ segs b).
Definition parent (p : string) : string := mk_path (is_abs p) (removelast (segs p)).
(* lexical resolution of '..' - only for looking files up in the (symlink-free) model file system *)
Fixpoint collapse (ss acc : list string) : list string :=
  match ss with
  | [] => rev acc
  | ".." :: r => collapse r (tl acc)
  | s :: r => collapse r (s :: acc)
  end.
Definition canon (cwd p : string) : string :=
  let q := if is_abs p then p else pjoin cwd p in mk_path true (collapse (segs q) []).

(* a file of the model file system: its parse tree, the syntax errors the listeners collected, or an extern YAML *)
Inductive fentry :=
  | FIdl (tree : cst) (syntax : list (nat * nat))
  | FExtern (types : list (tdef * pos)) (bad : bool)   (* bad: YAML/validation error -> InputParsingException *)
  | FDir.
Definition fsys := list (string * fentry).      (* keyed by canonical absolute path *)

Fixpoint fs_get (k : string) (fs : fsys) : option fentry :=
  match fs with [] => None | (k', v) :: r => if String.eqb k k' then Some v else fs_get k r end.

Record world := mkworld { w_fs : fsys; w_cwd : string }.

Definition exists_file (w : world) (p : string) : bool :=
  match fs_get (canon (w_cwd w) p) (w_fs w) with Some FDir | None => false | Some _ => true end.

Inductive found := FoundSelf | Found (p : string) | NotFound.

(* visitFilepath: literal path, directory of the importing file, include directories - in that order *)
Definition candidates (e : env) (path : string) : list string :=
  [norm path; pjoin (parent (e_idl e)) path] ++ map (fun d => pjoin d path) (e_incdirs e).

Definition search (w : world) (e : env) (path : string) : found :=
  match find (exists_file w) (candidates e path) with
  | Some sp => if String.eqb sp (norm (e_idl e)) then FoundSelf else Found sp
  | None => NotFound
  end.

Definition add_binding (rid : nat) (t : tdef) : M unit :=
  fun s => Ok (tt, mkvst (s_decls s) (s_refs s) (s_imports s) (s_ns s) (s_stack s) (s_errors s) (s_reg s) (s_next s) (s_binds s ++ [(rid, t)])).

Fixpoint bound (rid : nat) (b : list (nat * tdef)) : option tdef :=
  match b with [] => None | (r, t) :: rest => if Nat.eqb r rid then Some t else bound rid rest end.

(* ---- deferred resolution + generic argument checks (parse(): for type_ref in self.type_refs) ---- *)
Definition resolve_ref (e : env) (r : refsite) : M unit :=
  let! s := get_st in
  match bound (rs_rid r) (s_binds s) with
  | Some _ => ret tt                                        (* if not type_ref.type_def: ... *)
  | None =>
      match resolve (s_reg s) (rs_ns r) (rs_name r) with
      | None => add_error (mkdiag "Resolver.TypeResolvingException" 170 (p_file (rs_pos r)) (p_sl (rs_pos r)) (p_sc (rs_pos r)) "unknown-type")
      | Some td =>
          let! _ := add_binding (rs_rid r) td in
          match rs_nparams r, td_params td with
          | 0, _ => ret tt
          | S _, [] => add_error (parsing_error (p_file (rs_pos r)) (rs_pos r) "no-generics")
          | n, ps => if Nat.eqb n (List.length ps) then ret tt
                     else add_error (parsing_error (p_file (rs_pos r)) (rs_pos r) "generic-arity")
          end
      end
  end.

(* ---- post-resolution checks over ALL declarations of this parser, imported ones included ---- *)
Definition tref_prim (b : list (nat * tdef)) (t : tref) : option prim :=
  match t with
  | TData _ _ _ _ _ rid => option_map td_prim (bound rid b)
  | TFunc _ _ _ => Some PFunction
  end.
Definition is_prim (b : list (nat * tdef)) (t : tref) (p : prim) : bool :=
  match tref_prim b t with Some q => prim_eqb p q | None => false end.

Definition err_at (t : pos) (tag : string) : diag := parsing_error (p_file t) t tag.

Definition check_field (b : list (nat * tdef)) (ord : bool) (f : field) : list diag :=
  (if is_prim b (fd_ty f) PError then [err_at (tref_pos (fd_ty f)) "error-field"]
   else if is_prim b (fd_ty f) PInterface then [err_at (tref_pos (fd_ty f)) "interface-field"] else []) ++
  (if ord && is_prim b (fd_ty f) PCollection then [err_at (fd_pos f) "ord-collection"] else []).

(* "Only errors can be thrown": after the fix an unresolved reference is skipped (it already has its 170) *)
Definition check_throws (b : list (nat * tdef)) (th : option (list tref)) : list diag :=
  match th with
  | None => []
  | Some ts => flat_map (fun t => match tref_prim b t with
                                  | Some PError | None => []
                                  | Some _ => [err_at (tref_pos t) "throws-non-error"]
                                  end) ts
  end.

Definition check_params (b : list (nat * tdef)) (tag : string) (ps : list param) : list diag :=
  flat_map (fun p => if is_prim b (param_ty p) PError then [err_at (tref_pos (param_ty p)) tag] else []) ps.

Definition check_ret (b : list (nat * tdef)) (tag : string) (r : option tref) : list diag :=
  match r with Some t => if is_prim b t PError then [err_at (tref_pos t) tag] else [] | None => [] end.

Definition check_method (b : list (nat * tdef)) (m : method) : list diag :=
  check_ret b "error-return" (me_ret m) ++ check_throws b (me_throws m) ++ check_params b "error-param" (me_params m).

Definition check_decl (b : list (nat * tdef)) (d : decl) : list diag :=
  match d with
  | DRecord _ fields _ deriving _ => flat_map (check_field b (mem_str "ord" deriving)) fields
  | DInterface _ _ _ methods _ _ => flat_map (check_method b) methods
  | DFunction f => check_ret b "error-return-fn" (func_ret f) ++ check_params b "error-param-fn" (func_params f) ++
                   check_throws b (func_throws f)
  | _ => []
  end.

Definition post_checks (b : list (nat * tdef)) (ds : list decl) : list diag := flat_map (check_decl b) ds.

Definition add_errors (ds : list diag) : M unit :=
  fun s => Ok (tt, mkvst (s_decls s) (s_refs s) (s_imports s) (s_ns s) (s_stack s) (s_errors s ++ ds) (s_reg s) (s_next s) (s_binds s)).

(* what parse() hands back: on success the four lists; with errors the ParsingExceptionList carrying the same *)
Record parsed := mkparsed { pr_ok : bool; pr_state : vst; pr_ast : list (option node) }.

Definition fresh_state (s : vst) : vst :=   (* a new Parser object sharing resolver and id counter *)
  mkvst [] [] [] [] [] [] (s_reg s) (s_next s) (s_binds s).

Definition register_extern (file : string) (tp : tdef * pos) : M unit :=
  let! s := get_st in
  match register (s_reg s) (td_ns (fst tp)) (td_name (fst tp)) (fst tp) with
  | None => fun _ => Raise "Resolver.TypeResolvingException" 170 (p_file (snd tp)) (p_sl (snd tp)) (p_sc (snd tp))
  | Some r' => set_reg r'
  end.

Section Parse.
  Variable w : world.
  Variable keys : list string.
  Variable deriving : list string.
  Variable incdirs : list string.

  (* fuel = remaining import depth (the Python recursion limit) *)
  Fixpoint parse (fuel : nat) (idl : string) (import_pos : option pos) (s0 : vst) {struct fuel} : res parsed :=
    let e := mkenv idl keys deriving incdirs in
    match fuel with
    | 0 =>
        (* RecursionError somewhere below this parse(): "Circular import detected ... indirectly imports itself" *)
        let d := match import_pos with
                 | Some p => mkdiag "Parser.ParsingException" 150 (p_file p) (p_sl p) (p_sc p) "circular-indirect"
                 | None => mkdiag "Parser.ParsingException" 150 "" 0 0 "circular-indirect"
                 end in
        let s := fresh_state s0 in
        Ok (mkparsed false (mkvst [] [] [] [] [] [d] (s_reg s) (s_next s) (s_binds s)) [])
    | S f =>
        match fs_get (canon (w_cwd w) idl) (w_fs w) with
        | None | Some FDir | Some (FExtern _ _) =>
            Raise "FileNotFoundException" 2 "" 0 0        (* read_idl: FileNotFoundError / IsADirectoryError *)
        | Some (FIdl tree syntax) =>
            let s1 := fresh_state s0 in
            let syn := map (fun lc => mkdiag "Parser.ParsingException" 150 idl (fst lc) (snd lc) "syntax") syntax in
            let visit_load (c : cst) : M unit :=
              match c with
              | R "load" _ _ ks =>
                  (fix each (l : list cst) : M unit :=
                     match l with
                     | [] => ret tt
                     | k :: r =>
                         let! _ :=
                           (match k with
                            | R "importDef" _ _ _ | R "extern" _ _ _ =>
                                let! fp := lift (deref "visit(None): ctx.filepath()" (rule1 "filepath" k)) in
                                let! node := lift (deref "filepath: ctx.FILEPATH() is None" (tok1 "FILEPATH" fp)) in
                                if tok_is_err node then ret tt else
                                let path := middle_str (tok_text node) in
                                let! p := lift (position e fp) in
                                match search w e path with
                                | FoundSelf => add_error (parsing_error idl p "circular-direct")
                                | NotFound => add_error (mkdiag "FileNotFoundException" 2 idl (p_sl p) (p_sc p) "missing-file")
                                | Found sp =>
                                    let abs := if is_abs sp then sp else pjoin (w_cwd w) sp in
                                    let! _ := add_import (mkfileref abs p) in
                                    if is_rule "extern" k then
                                      match fs_get (canon (w_cwd w) abs) (w_fs w) with
                                      | Some (FExtern types bad) =>
                                          if bad then add_error (mkdiag "InputParsingException" 140 abs 0 0 "extern-invalid")
                                          else let! _ := mmap (register_extern abs) types in ret tt
                                      | _ => add_error (mkdiag "InputParsingException" 140 abs 0 0 "extern-invalid")
                                      end
                                    else
                                      let! ip := lift (position e k) in
                                      fun s =>
                                        match parse f abs (Some ip) s with
                                        | Ok pr =>
                                            let si := pr_state pr in
                                            Ok (tt, mkvst (s_decls s ++ s_decls si) (s_refs s ++ s_refs si) (s_imports s) (s_ns s) (s_stack s)
                                                          (s_errors s ++ s_errors si) (s_reg si) (s_next si) (s_binds si))
                                        | Crash t => Crash t
                                        | Raise c k0 fl l cl => Raise c k0 fl l cl
                                        end
                                end
                            | _ => ret tt
                            end) in
                         each r
                     end) ks
              | _ => ret tt
              end in
            let body : M (list (option node)) :=
              let! _ := add_errors syn in
              let! _ := mmap visit_load (rules "load" tree) in
              let! ast := mmap (visit_ns_content e DEPTH) (rules "namespaceContent" tree) in
              let! s := get_st in
              let! _ := mmap (resolve_ref e) (s_refs s) in
              let! s' := get_st in
              let! _ := add_errors (post_checks (s_binds s') (s_decls s')) in
              ret ast in
            match body s1 with
            | Ok (ast, s) => Ok (mkparsed (match s_errors s with [] => true | _ => false end) s ast)
            | Crash t => Crash t
            | Raise c k fl l cl => Raise c k fl l cl
            end
        end
    end.
End Parse.
