(* Canonical, comparable rendering of the front-end model's results (same shape as tools/pdv/front_val.py builds
   from the implementation's objects). *)
From Coq Require Import List String Ascii Bool Arith.
From PDV Require Import Lib.StrUtil Idl.Cst Idl.Ast Idl.Resolver Idl.Visitor Idl.Front.
Import ListNotations.
Open Scope string_scope. Open Scope list_scope.

Inductive val := VNone | VB (b : bool) | VN (n : nat) | VS (s : string) | VL (l : list val) | VO (fs : list (string * val)).

Fixpoint val_eqb (a b : val) {struct a} : bool :=
  match a, b with
  | VNone, VNone => true
  | VB x, VB y => Bool.eqb x y
  | VN x, VN y => Nat.eqb x y
  | VS x, VS y => String.eqb x y
  | VL x, VL y => (fix go (x y : list val) : bool :=
                     match x, y with [], [] => true | a' :: x', b' :: y' => val_eqb a' b' && go x' y' | _, _ => false end) x y
  | VO x, VO y => (fix go (x y : list (string * val)) : bool :=
                     match x, y with
                     | [], [] => true
                     | (k, a') :: x', (k', b') :: y' => String.eqb k k' && val_eqb a' b' && go x' y'
                     | _, _ => false
                     end) x y
  | _, _ => false
  end.

(* the harness always roots the model file system at /R; files are reported relative to it *)
Definition ROOT := "/R".
Fixpoint strip_prefix (p s : string) : option string :=
  match p, s with
  | EmptyString, _ => Some s
  | String a p', String b s' => if Ascii.eqb a b then strip_prefix p' s' else None
  | _, _ => None
  end.
Definition relfile (f : string) : string :=
  if String.eqb f "" then "" else
  let c := canon ROOT f in
  match strip_prefix (ROOT ++ "/") c with Some r => r | None => c end.

Definition vstrs (l : list string) : val := VL (map VS l).
Definition vopt {A} (f : A -> val) (o : option A) : val := match o with Some a => f a | None => VNone end.
Definition vpos (p : pos) : val := VO [("file", VS (relfile (p_file p))); ("s", VL [VN (p_sl p); VN (p_sc p)]); ("e", VL [VN (p_el p); VN (p_ec p)])].
Definition prim_name (p : prim) : string :=
  match p with PPrimitive => "primitive" | PCollection => "collection" | PInterface => "interface" | PRecord => "record"
             | PEnum => "enum" | PFlags => "flags" | PFunction => "function" | PError => "error" end.
Definition vtdef (t : tdef) : val := VO [("name", VS (td_name t)); ("ns", vstrs (td_ns t)); ("prim", VS (prim_name (td_prim t)))].

Section WithBindings.
  Variable b : list (nat * tdef).

  Fixpoint vtref (t : tref) : val :=
    match t with
    | TData name ns p params opt rid =>
        VO [("name", VS name); ("ns", vstrs ns); ("opt", VB opt); ("pos", vpos p);
            ("params", VL ((fix go (l : list tref) := match l with [] => [] | x :: r => vtref x :: go r end) params));
            ("bound", vopt vtdef (bound rid b))]
    | TFunc ns p f => VO [("name", VS "<function>"); ("ns", vstrs ns); ("pos", vpos p); ("fn", vfunc f)]
    end
  with vfunc (f : func) : val :=
    match f with
    | mkfunc name p comment params targets ns rt th anon =>
        VO [("k", VS "Function"); ("name", VS name); ("ns", vstrs ns); ("pos", vpos p); ("comment", vopt VS comment);
            ("anonymous", VB anon); ("targets", vstrs targets);
            ("params", VL ((fix go (l : list param) := match l with [] => [] | x :: r => vparam x :: go r end) params));
            ("ret", match rt with Some t => vtref t | None => VNone end);
            ("throws", match th with
                       | Some ts => VL ((fix go (l : list tref) := match l with [] => [] | x :: r => vtref x :: go r end) ts)
                       | None => VNone
                       end)]
    end
  with vparam (p : param) : val :=
    match p with mkparam n ps t => VO [("name", VS n); ("pos", vpos ps); ("type", vtref t)] end.

  Definition norm_deriving (l : list string) : list string :=
    (if mem_str "eq" l then ["eq"] else []) ++ (if mem_str "ord" l then ["ord"] else []).

  Definition vcommon (k : string) (c : common) : list (string * val) :=
    [("k", VS k); ("name", VS (c_name c)); ("ns", vstrs (c_ns c)); ("pos", vpos (c_pos c)); ("comment", vopt VS (c_comment c))].

  Definition vmethod (m : method) : val :=
    VO [("name", VS (me_name m)); ("pos", vpos (me_pos m)); ("comment", vopt VS (me_comment m)); ("static", VB (me_static m));
        ("const", VB (me_const m)); ("async", VB (me_async m)); ("params", VL (map vparam (me_params m)));
        ("ret", vopt vtref (me_ret m)); ("throws", vopt (fun ts => VL (map vtref ts)) (me_throws m))].

  Definition vdecl (d : decl) : val :=
    match d with
    | DEnum c items => VO (vcommon "Enum" c ++
        [("items", VL (map (fun i => VO [("name", VS (m_name i)); ("pos", vpos (m_pos i)); ("comment", vopt VS (m_comment i))]) items))])
    | DFlags c fl => VO (vcommon "Flags" c ++
        [("flags", VL (map (fun i => VO [("name", VS (fl_name i)); ("pos", vpos (fl_pos i)); ("comment", vopt VS (fl_comment i));
                                         ("all", VB (fl_all i)); ("none", VB (fl_none i))]) fl))])
    | DRecord c fields targets deriving deps => VO (vcommon "Record" c ++
        [("fields", VL (map (fun f => VO [("name", VS (fd_name f)); ("pos", vpos (fd_pos f)); ("comment", vopt VS (fd_comment f));
                                          ("type", vtref (fd_ty f))]) fields));
         ("targets", vstrs targets); ("deriving", vstrs (norm_deriving deriving)); ("deps", vstrs deps)])
    | DInterface c main targets methods props deps => VO (vcommon "Interface" c ++
        [("main", VB main); ("targets", vstrs targets); ("methods", VL (map vmethod methods));
         ("props", VL (map (fun p => VO [("name", VS (pr_name p)); ("pos", vpos (pr_pos p)); ("comment", vopt VS (pr_comment p));
                                         ("type", vtref (pr_ty p))]) props));
         ("deps", vstrs deps)])
    | DFunction f => vfunc f
    | DError c codes deps => VO (vcommon "ErrorDomain" c ++
        [("codes", VL (map (fun e => VO [("name", VS (ec_name e)); ("pos", vpos (ec_pos e)); ("comment", vopt VS (ec_comment e));
                                         ("params", VL (map vparam (ec_params e)))]) codes));
         ("deps", vstrs deps)])
    end.

  Fixpoint vnode (n : node) : val :=
    match n with
    | NDecl d => vdecl d
    | NNamespace name p comment children =>
        VO [("k", VS "Namespace"); ("name", VS name); ("pos", vpos p); ("comment", vopt VS comment);
            ("children", VL ((fix go (l : list node) := match l with [] => [] | x :: r => vnode x :: go r end) children))]
    end.
End WithBindings.

Fixpoint insert_nat (n : nat) (l : list nat) : list nat :=
  match l with [] => [n] | x :: r => if Nat.ltb n x then n :: l else if Nat.eqb n x then l else x :: insert_nat n r end.
Definition nodup_sorted (l : list nat) : list nat := fold_right insert_nat [] l.

Definition vdiag (d : diag) : val :=
  VO [("cls", VS (d_cls d)); ("code", VN (d_code d)); ("file", VS (relfile (d_file d))); ("line", VN (d_line d)); ("col", VN (d_col d))].

Definition vref (b : list (nat * tdef)) (r : refsite) : val :=
  VO [("name", VS (rs_name r)); ("ns", vstrs (rs_ns r)); ("pos", vpos (rs_pos r)); ("bound", vopt vtdef (bound (rs_rid r) b))].

(* the whole observable outcome of API.parse *)
Definition voutcome (r : res parsed) : val :=
  match r with
  | Crash t => VO [("outcome", VS "internal")]
  | Raise c k fl l cl => VO [("outcome", VS "app"); ("cls", VS c); ("code", VN k); ("file", VS (relfile fl)); ("line", VN l); ("col", VN cl)]
  | Ok p =>
      let s := pr_state p in
      VO [("outcome", VS (if pr_ok p then "ok" else "list"));
          ("errors", VL (map vdiag (s_errors s)));
          ("error_codes", VL (map VN (nodup_sorted (map d_code (s_errors s)))));
          ("def_names", vstrs (map (fun d => let t := decl_tdef d in join "." (td_ns t ++ [td_name t])) (s_decls s)));
          ("defs", VL (map (vdecl (s_binds s)) (s_decls s)));
          ("refs", VL (map (vref (s_binds s)) (s_refs s)));
          ("ast", VL (map (vopt (vnode (s_binds s))) (pr_ast p)));
          ("imports", VL (map (fun f => VO [("path", VS (relfile (fr_path f))); ("pos", vpos (fr_pos f))]) (s_imports s)))]
  end.

Definition crash_tag (r : res parsed) : string := match r with Crash t => t | _ => "" end.
