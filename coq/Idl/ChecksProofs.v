(* The post-resolution rule checks report exactly the rule violations - at every member index of every declaration
   (imported ones included: they are elements of the same list) - and the deferred resolution step never crashes. *)
From Coq Require Import List String Ascii Bool Arith.
From PDV Require Import Lib.StrUtil Idl.Cst Idl.Ast Idl.Resolver Idl.Visitor Idl.Front.
Import ListNotations.
Open Scope string_scope. Open Scope list_scope.

Section Checks.
  Variable b : list (nat * tdef).

  (* the documented restrictions, as a relation between a declaration and the diagnostics it deserves *)
  Inductive field_violation (ord : bool) (f : field) : diag -> Prop :=
    | FV_error : is_prim b (fd_ty f) PError = true -> field_violation ord f (err_at (tref_pos (fd_ty f)) "error-field")
    | FV_interface : is_prim b (fd_ty f) PInterface = true -> field_violation ord f (err_at (tref_pos (fd_ty f)) "interface-field")
    | FV_ord : ord = true -> is_prim b (fd_ty f) PCollection = true -> field_violation ord f (err_at (fd_pos f) "ord-collection").

  Inductive throws_violation (th : option (list tref)) : diag -> Prop :=
    | TV : forall ts t p, th = Some ts -> In t ts -> tref_prim b t = Some p -> p <> PError ->
           throws_violation th (err_at (tref_pos t) "throws-non-error").

  Inductive params_violation (tag : string) (ps : list param) : diag -> Prop :=
    | PV : forall p, In p ps -> is_prim b (param_ty p) PError = true -> params_violation tag ps (err_at (tref_pos (param_ty p)) tag).

  Inductive ret_violation (tag : string) (r : option tref) : diag -> Prop :=
    | RV : forall t, r = Some t -> is_prim b t PError = true -> ret_violation tag r (err_at (tref_pos t) tag).

  Inductive decl_violation : decl -> diag -> Prop :=
    | DV_field : forall c fields targets deriving deps f x,
        In f fields -> field_violation (mem_str "ord" deriving) f x -> decl_violation (DRecord c fields targets deriving deps) x
    | DV_method_ret : forall c main targets methods props deps m x,
        In m methods -> ret_violation "error-return" (me_ret m) x -> decl_violation (DInterface c main targets methods props deps) x
    | DV_method_throws : forall c main targets methods props deps m x,
        In m methods -> throws_violation (me_throws m) x -> decl_violation (DInterface c main targets methods props deps) x
    | DV_method_param : forall c main targets methods props deps m x,
        In m methods -> params_violation "error-param" (me_params m) x -> decl_violation (DInterface c main targets methods props deps) x
    | DV_fn_ret : forall f x, ret_violation "error-return-fn" (func_ret f) x -> decl_violation (DFunction f) x
    | DV_fn_param : forall f x, params_violation "error-param-fn" (func_params f) x -> decl_violation (DFunction f) x
    | DV_fn_throws : forall f x, throws_violation (func_throws f) x -> decl_violation (DFunction f) x.

  Lemma is_prim_excl t : is_prim b t PError = true -> is_prim b t PInterface = false.
  Proof. unfold is_prim. destruct (tref_prim b t) as [[]|]; cbn; congruence. Qed.

  Lemma check_field_spec ord f x : In x (check_field b ord f) <-> field_violation ord f x.
  Proof.
    unfold check_field. rewrite in_app_iff. split.
    - intros [H|H].
      + destruct (is_prim b (fd_ty f) PError) eqn:E1.
        * destruct H as [<-|[]]. now constructor.
        * destruct (is_prim b (fd_ty f) PInterface) eqn:E2; [|destruct H]. destruct H as [<-|[]]. now constructor.
      + destruct ord; cbn in H; [|destruct H]. destruct (is_prim b (fd_ty f) PCollection) eqn:E; [|destruct H].
        destruct H as [<-|[]]. now constructor.
    - intros H. destruct H as [H|H|H1 H2].
      + left. rewrite H. now left.
      + left. destruct (is_prim b (fd_ty f) PError) eqn:E.
        * apply is_prim_excl in E. congruence.
        * rewrite H. now left.
      + right. subst ord. cbn. rewrite H2. now left.
  Qed.

  Lemma check_throws_spec th x : In x (check_throws b th) <-> throws_violation th x.
  Proof.
    unfold check_throws. destruct th as [ts|].
    - rewrite in_flat_map. split.
      + intros (t & Hin & H). destruct (tref_prim b t) as [p|] eqn:E; [|destruct H].
        destruct p; try destruct H as [<-|[]]; try (destruct H; fail); econstructor; eauto; discriminate.
      + intros H. destruct H as [ts' t p [= <-] Hin Hp Hne]. exists t. split; [exact Hin|]. rewrite Hp.
        destruct p; try (now left). contradiction.
    - split; [intros [] | intros H; destruct H; discriminate].
  Qed.

  Lemma check_params_spec tag ps x : In x (check_params b tag ps) <-> params_violation tag ps x.
  Proof.
    unfold check_params. rewrite in_flat_map. split.
    - intros (p & Hin & H). destruct (is_prim b (param_ty p) PError) eqn:E; [|destruct H]. destruct H as [<-|[]]. now constructor.
    - intros [p Hin Hp]. exists p. split; [exact Hin|]. rewrite Hp. now left.
  Qed.

  Lemma check_ret_spec tag r x : In x (check_ret b tag r) <-> ret_violation tag r x.
  Proof.
    unfold check_ret. destruct r as [t|].
    - split.
      + destruct (is_prim b t PError) eqn:E; [|intros []]. intros [<-|[]]. now econstructor.
      + intros [t' [= <-] Hp]. rewrite Hp. now left.
    - split; [intros [] | intros [t' H _]; discriminate].
  Qed.

  Theorem check_decl_spec d x : In x (check_decl b d) <-> decl_violation d x.
  Proof.
    destruct d as [c items|c fl|c fields targets deriving deps|c main targets methods props deps|f|c codes deps]; cbn [check_decl].
    - split; [intros [] | intros H; inversion H].
    - split; [intros [] | intros H; inversion H].
    - rewrite in_flat_map. split.
      + intros (f & Hin & H). apply check_field_spec in H. econstructor; eauto.
      + intros H. inversion H; subst. exists f. split; [assumption|]. now apply check_field_spec.
    - rewrite in_flat_map. split.
      + intros (m & Hin & H). unfold check_method in H. rewrite !in_app_iff in H. destruct H as [H|[H|H]].
        * apply check_ret_spec in H. eapply DV_method_ret; eauto.
        * apply check_throws_spec in H. eapply DV_method_throws; eauto.
        * apply check_params_spec in H. eapply DV_method_param; eauto.
      + intros H. inversion H; subst; exists m; (split; [assumption|]); unfold check_method; rewrite !in_app_iff.
        * left. now apply check_ret_spec.
        * right; left. now apply check_throws_spec.
        * right; right. now apply check_params_spec.
    - rewrite !in_app_iff, check_ret_spec, check_params_spec, check_throws_spec. split.
      + intros [H|[H|H]]; [now apply DV_fn_ret | now apply DV_fn_param | now apply DV_fn_throws].
      + intros H. inversion H; subst; auto.
    - split; [intros [] | intros H; inversion H].
  Qed.

  (* C05: sound and complete, for declaration lists of any length and members at any index *)
  Theorem post_checks_spec ds x : In x (post_checks b ds) <-> exists d, In d ds /\ decl_violation d x.
  Proof.
    unfold post_checks. rewrite in_flat_map. split; intros (d & Hin & H); exists d; (split; [exact Hin|]); now apply check_decl_spec.
  Qed.

  Theorem post_checks_accept_iff ds : post_checks b ds = [] <-> forall d x, In d ds -> ~ decl_violation d x.
  Proof.
    split.
    - intros E d x Hin Hv. assert (H : In x (post_checks b ds)) by (apply post_checks_spec; eauto). rewrite E in H. destruct H.
    - intros H. destruct (post_checks b ds) as [|x r] eqn:E; [reflexivity|].
      assert (Hx : In x (post_checks b ds)) by (rewrite E; now left).
      apply post_checks_spec in Hx as (d & Hin & Hv). exfalso. eapply H; eauto.
  Qed.

  (* declarations contributed by imports are checked like local ones; order and position in the list are irrelevant *)
  Theorem post_checks_app ds1 ds2 : post_checks b (ds1 ++ ds2) = post_checks b ds1 ++ post_checks b ds2.
  Proof. unfold post_checks. apply flat_map_app. Qed.
End Checks.

(* ---- deferred resolution: never an internal error, whatever the references and the registry ---- *)
Theorem resolve_ref_total e r s : exists s', resolve_ref e r s = Ok (tt, s').
Proof.
  unfold resolve_ref, mbind, get_st. destruct (bound (rs_rid r) (s_binds s)); [eexists; reflexivity|].
  destruct (resolve (s_reg s) (rs_ns r) (rs_name r)) as [td|]; [|eexists; reflexivity].
  cbn [add_binding]. destruct (rs_nparams r) as [|n]; [eexists; reflexivity|].
  destruct (td_params td) as [|p ps]; [eexists; reflexivity|].
  destruct (Nat.eqb (S n) (List.length (p :: ps))); eexists; reflexivity.
Qed.

Theorem resolve_all_total e refs : forall s, exists l s', mmap (resolve_ref e) refs s = Ok (l, s').
Proof.
  induction refs as [|r rest IH]; intros s; [now exists [], s|].
  cbn [mmap]. unfold mbind at 1. destruct (resolve_ref_total e r s) as [s1 ->].
  destruct (IH s1) as (l & s2 & E). unfold mbind. rewrite E. now exists (tt :: l), s2.
Qed.

(* what resolution reports for one reference *)
Theorem resolve_ref_unknown e r s s' :
  bound (rs_rid r) (s_binds s) = None -> resolve (s_reg s) (rs_ns r) (rs_name r) = None ->
  resolve_ref e r s = Ok (tt, s') ->
  s_errors s' = s_errors s ++ [mkdiag "Resolver.TypeResolvingException" 170 (p_file (rs_pos r)) (p_sl (rs_pos r)) (p_sc (rs_pos r)) "unknown-type"].
Proof. unfold resolve_ref, mbind, get_st. intros -> ->. cbn. intros [= <-]. reflexivity. Qed.

Theorem resolve_ref_binds e r s s' td :
  bound (rs_rid r) (s_binds s) = None -> resolve (s_reg s) (rs_ns r) (rs_name r) = Some td ->
  resolve_ref e r s = Ok (tt, s') ->
  s_binds s' = s_binds s ++ [(rs_rid r, td)] /\
  (s_errors s' = s_errors s <-> (rs_nparams r = 0 \/ (td_params td <> [] /\ rs_nparams r = List.length (td_params td)))).
Proof.
  unfold resolve_ref, mbind, get_st. intros -> ->. cbn [add_binding].
  destruct (rs_nparams r) as [|n] eqn:En.
  - intros [= <-]. cbn. split; [reflexivity|]. split; auto.
  - destruct (td_params td) as [|p ps] eqn:Ep.
    + intros [= <-]. cbn. split; [reflexivity|]. split.
      * intros H. exfalso. apply (f_equal (@List.length _)) in H. rewrite app_length in H. cbn in H. clear - H.
        induction (List.length (s_errors s)); cbn in H; [discriminate | injection H as H; auto].
      * intros [H|[H _]]; [discriminate | contradiction].
    + destruct (Nat.eqb (S n) (List.length (p :: ps))) eqn:E.
      * intros [= <-]. cbn. split; [reflexivity|]. split; [|reflexivity]. intros _. right. split; [discriminate|].
        now apply Nat.eqb_eq in E.
      * intros [= <-]. cbn. split; [reflexivity|]. split.
        -- intros H. exfalso. apply (f_equal (@List.length _)) in H. rewrite app_length in H. cbn in H. clear - H.
           induction (List.length (s_errors s)); cbn in H; [discriminate | injection H as H; auto].
        -- intros [H|[_ H]]; [discriminate|]. apply Nat.eqb_neq in E. contradiction.
Qed.
