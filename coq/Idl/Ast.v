(* The AST of src/pydjinni/parser/ast.py + base_models.py, as far as the front end computes it.
   Type references carry the index (rid) of their entry in Parser.type_refs: resolution fills a table indexed by rid,
   which models the in-place mutation of the shared TypeReference objects. *)
From Coq Require Import List String Bool Arith.
Import ListNotations.
Open Scope string_scope. Open Scope list_scope.

Record pos := mkpos { p_file : string; p_sl : nat; p_sc : nat; p_el : nat; p_ec : nat }.

Inductive tref :=
  | TData (name : string) (ns : list string) (p : pos) (params : list tref) (opt : bool) (rid : nat)
  | TFunc (ns : list string) (p : pos) (f : func)     (* TypeReference(name="<function>", type_def=function) *)
with func :=
  | mkfunc (fname : string) (fpos : pos) (fcomment : option string) (fparams : list param) (ftargets : list string)
           (fns : list string) (fret : option tref) (fthrows : option (list tref)) (fanon : bool)
with param :=
  | mkparam (pname : string) (ppos : pos) (pty : tref).

Record member := mkmember { m_name : string; m_pos : pos; m_comment : option string }.
Record flag := mkflag { fl_name : string; fl_pos : pos; fl_comment : option string; fl_all : bool; fl_none : bool }.
Record field := mkfield { fd_name : string; fd_pos : pos; fd_comment : option string; fd_ty : tref }.
Record method := mkmethod { me_name : string; me_pos : pos; me_comment : option string; me_params : list param;
                            me_ret : option tref; me_static : bool; me_const : bool; me_async : bool;
                            me_throws : option (list tref) }.
Record prop := mkprop { pr_name : string; pr_pos : pos; pr_comment : option string; pr_ty : tref }.
Record ecode := mkecode { ec_name : string; ec_pos : pos; ec_comment : option string; ec_params : list param }.
Record common := mkcommon { c_name : string; c_ns : list string; c_pos : pos; c_comment : option string }.

Inductive decl :=
  | DEnum (c : common) (items : list member)
  | DFlags (c : common) (flags : list flag)
  | DRecord (c : common) (fields : list field) (targets : list string) (deriving : list string) (deps : list string)
  | DInterface (c : common) (main : bool) (targets : list string) (methods : list method) (props : list prop) (deps : list string)
  | DFunction (f : func)
  | DError (c : common) (codes : list ecode) (deps : list string).

Inductive node := NDecl (d : decl) | NNamespace (name : string) (p : pos) (comment : option string) (children : list node).

Inductive prim := PPrimitive | PCollection | PInterface | PRecord | PEnum | PFlags | PFunction | PError.

(* what resolution binds a reference to: identity (qualified name), kind and generic parameter names *)
Record tdef := mktdef { td_name : string; td_ns : list string; td_prim : prim; td_params : list string }.

Definition func_name (f : func) : string := match f with mkfunc n _ _ _ _ _ _ _ _ => n end.
Definition func_ns (f : func) : list string := match f with mkfunc _ _ _ _ _ ns _ _ _ => ns end.
Definition func_pos (f : func) : pos := match f with mkfunc _ p _ _ _ _ _ _ _ => p end.
Definition func_params (f : func) : list param := match f with mkfunc _ _ _ ps _ _ _ _ _ => ps end.
Definition func_ret (f : func) : option tref := match f with mkfunc _ _ _ _ _ _ r _ _ => r end.
Definition func_throws (f : func) : option (list tref) := match f with mkfunc _ _ _ _ _ _ _ t _ => t end.
Definition func_targets (f : func) : list string := match f with mkfunc _ _ _ _ t _ _ _ _ => t end.
Definition param_ty (p : param) : tref := match p with mkparam _ _ t => t end.
Definition param_name (p : param) : string := match p with mkparam n _ _ => n end.

Definition tref_name (t : tref) : string := match t with TData n _ _ _ _ _ => n | TFunc _ _ _ => "<function>" end.
Definition tref_pos (t : tref) : pos := match t with TData _ _ p _ _ _ => p | TFunc _ p _ => p end.
Definition tref_params (t : tref) : list tref := match t with TData _ _ _ ps _ _ => ps | TFunc _ _ _ => [] end.

Definition decl_tdef (d : decl) : tdef :=
  match d with
  | DEnum c _ => mktdef (c_name c) (c_ns c) PEnum []
  | DFlags c _ => mktdef (c_name c) (c_ns c) PFlags []
  | DRecord c _ _ _ _ => mktdef (c_name c) (c_ns c) PRecord []
  | DInterface c _ _ _ _ _ => mktdef (c_name c) (c_ns c) PInterface []
  | DFunction f => mktdef (func_name f) (func_ns f) PFunction []
  | DError c _ _ => mktdef (c_name c) (c_ns c) PError []
  end.

Definition decl_pos (d : decl) : pos :=
  match d with
  | DEnum c _ | DFlags c _ | DRecord c _ _ _ _ | DInterface c _ _ _ _ _ | DError c _ _ => c_pos c
  | DFunction f => func_pos f
  end.

Definition prim_eqb (a b : prim) : bool :=
  match a, b with
  | PPrimitive, PPrimitive | PCollection, PCollection | PInterface, PInterface | PRecord, PRecord
  | PEnum, PEnum | PFlags, PFlags | PFunction, PFunction | PError, PError => true
  | _, _ => false
  end.
