(* The notation of Idl.g4 as data: lexer patterns and EBNF terms (produced by tools/pdv/translate_grammar.py). *)
From Coq Require Import List String Ascii Bool.
Import ListNotations.

Inductive lpat :=
  | LLit (s : string)
  | LSet (negated : bool) (ranges : list (nat * nat))      (* [a-z0-9_] / ~[\r\n] : inclusive character-code ranges *)
  | LAny
  | LSeq (l : list lpat)
  | LAlt (l : list lpat)
  | LStar (p : lpat)                                       (* greedy or not: the set of match lengths is the same *)
  | LPlus (p : lpat)
  | LOpt (p : lpat).

Inductive gexp :=
  | GTok (name : string)
  | GRule (name : string)
  | GSeq (l : list gexp)
  | GAlt (l : list gexp)
  | GStar (g : gexp)
  | GPlus (g : gexp)
  | GOpt (g : gexp).
