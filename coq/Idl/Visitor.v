(* Model of src/pydjinni/parser/parser.py: the ANTLR visitor (class Parser(IdlVisitor)) on the dumped parse tree.
   Evaluation order of every visit method follows the Python (keyword arguments left to right), because it
   decides the order of type_refs / type_decls / errors.  Every dereference of something that may be None is a deref. *)
From Coq Require Import List String Ascii Bool Arith.
From PDV Require Import Lib.StrUtil Idl.Cst Idl.Ast Idl.Resolver.
Import ListNotations.
Open Scope string_scope. Open Scope list_scope.

Record diag := mkdiag { d_cls : string; d_code : nat; d_file : string; d_line : nat; d_col : nat; d_tag : string }.
Record refsite := mkref { rs_name : string; rs_ns : list string; rs_pos : pos; rs_nparams : nat; rs_rid : nat }.
Record fileref := mkfileref { fr_path : string; fr_pos : pos }.

Record vst := mkvst {
  s_decls : list decl;           (* self.type_decls *)
  s_refs : list refsite;         (* self.type_refs *)
  s_imports : list fileref;      (* self.file_imports *)
  s_ns : list string;            (* self.current_namespace *)
  s_stack : list nat;            (* self.current_namespace_stack_size *)
  s_errors : list diag;          (* self.errors *)
  s_reg : registry tdef;         (* self.resolver.registry (shared with imported parsers) *)
  s_next : nat;                  (* fresh reference ids *)
  s_binds : list (nat * tdef)    (* type_ref.type_def for resolved references *)
}.

Record env := mkenv {
  e_idl : string;                (* self.idl *)
  e_keys : list string;          (* self.target_keys *)
  e_deriving : list string;      (* self.default_deriving *)
  e_incdirs : list string        (* self.include_dirs *)
}.

Definition M (A : Type) := vst -> res (A * vst).
Definition ret {A} (a : A) : M A := fun s => Ok (a, s).
Definition mbind {A B} (m : M A) (f : A -> M B) : M B :=
  fun s => match m s with Ok (a, s') => f a s' | Crash t => Crash t | Raise c k fl l cl => Raise c k fl l cl end.
Notation "'let!' x := e 'in' f" := (mbind e (fun x => f)) (at level 200, x pattern, e at level 100, f at level 200, right associativity).
Definition lift {A} (r : res A) : M A := fun s => match r with Ok a => Ok (a, s) | Crash t => Crash t | Raise c k fl l cl => Raise c k fl l cl end.
Definition get_st : M vst := fun s => Ok (s, s).
Definition crash {A} (t : string) : M A := fun _ => Crash t.

Fixpoint mmap {A B} (f : A -> M B) (l : list A) : M (list B) :=
  match l with
  | [] => ret []
  | x :: r => let! y := f x in let! ys := mmap f r in ret (y :: ys)
  end.

Definition add_error (d : diag) : M unit :=
  fun s => Ok (tt, mkvst (s_decls s) (s_refs s) (s_imports s) (s_ns s) (s_stack s) (s_errors s ++ [d]) (s_reg s) (s_next s) (s_binds s)).
Definition add_decl (d : decl) : M unit :=
  fun s => Ok (tt, mkvst (s_decls s ++ [d]) (s_refs s) (s_imports s) (s_ns s) (s_stack s) (s_errors s) (s_reg s) (s_next s) (s_binds s)).
Definition add_import (f : fileref) : M unit :=
  fun s => Ok (tt, mkvst (s_decls s) (s_refs s) (s_imports s ++ [f]) (s_ns s) (s_stack s) (s_errors s) (s_reg s) (s_next s) (s_binds s)).
Definition set_ns (ns : list string) (stk : list nat) : M unit :=
  fun s => Ok (tt, mkvst (s_decls s) (s_refs s) (s_imports s) ns stk (s_errors s) (s_reg s) (s_next s) (s_binds s)).
Definition set_reg (r : registry tdef) : M unit :=
  fun s => Ok (tt, mkvst (s_decls s) (s_refs s) (s_imports s) (s_ns s) (s_stack s) (s_errors s) r (s_next s) (s_binds s)).
Definition fresh_ref (name : string) (ns : list string) (p : pos) (np : nat) : M nat :=
  fun s => let rid := s_next s in
           Ok (rid, mkvst (s_decls s) (s_refs s ++ [mkref name ns p np rid]) (s_imports s) (s_ns s) (s_stack s)
                          (s_errors s) (s_reg s) (S rid) (s_binds s)).

Definition parsing_error (file : string) (p : pos) (tag : string) : diag :=
  mkdiag "Parser.ParsingException" 150 file (p_sl p) (p_sc p) tag.

(* _position(ctx): ctx.start.line/column, ctx.stop.line, ctx.stop.column + len(ctx.stop.text) *)
Definition position (e : env) (c : cst) : res pos :=
  match c with
  | R _ (Some (sl, sc)) (Some (el, ec, len)) _ => Ok (mkpos (e_idl e) sl sc el (ec + len))
  | R _ None _ _ => Crash "position: ctx.start is None"
  | R _ _ None _ => Crash "position: ctx.stop is None"
  | T _ _ _ _ _ => Crash "position of a terminal"
  end.

(* visitIdentifier: Identifier(ctx.ID().getText()) *)
Definition visit_identifier (c : cst) : res string :=
  do t <- deref "identifier: ctx.ID() is None" (tok1 "ID" c); Ok (tok_text t).

(* self.visit(ctx.identifier()) *)
Definition name_of (c : cst) : res string :=
  do i <- deref "visit(None): ctx.identifier()" (rule1 "identifier" c); visit_identifier i.

(* visitNsIdentifier: (ctx.ID() or ctx.NS_ID()).getText() *)
Definition visit_ns_identifier (c : cst) : res string :=
  match tok1 "ID" c with
  | Some t => Ok (tok_text t)
  | None => do t <- deref "nsIdentifier: ctx.NS_ID() is None" (tok1 "NS_ID" c); Ok (tok_text t)
  end.

(* Python str.strip() on the ASCII whitespace a COMMENT token can contain *)
Definition is_ws (a : ascii) : bool :=
  match a with " "%char | "009"%char | "011"%char | "012"%char | "013"%char | "010"%char => true | _ => false end.
Fixpoint lstrip (s : string) : string :=
  match s with String a r => if is_ws a then lstrip r else s | EmptyString => "" end.
Definition strip (s : string) : string := str_rev (lstrip (str_rev (lstrip s))).

(* visitComment: "\n".join([line.getText()[1:].strip() for line in ctx.COMMENT()]) *)
Definition visit_comment (c : cst) : string :=
  join (String "010"%char "") (map (fun t => strip (drop1 (tok_text t))) (toks "COMMENT" c)).
Definition comment_of (c : cst) : option string :=
  match rule1 "comment" c with Some k => Some (visit_comment k) | None => None end.

Definition has_tok (n : string) (c : cst) : bool := match tok1 n c with Some _ => true | None => false end.

Definition mem_str (x : string) (l : list string) : bool := existsb (String.eqb x) l.

(* visitTargets (after the aliasing fix): '+any' -> all keys; '+x' adds; '-x' removes; only '-x' -> all but x *)
Definition eval_targets (keys : list string) (flags : list string) : list string :=
  let includes0 := if mem_str "+any" flags then keys else [] in
  let includes1 := includes0 ++ map drop1 (filter (fun t => starts_with "+" t && negb (String.eqb t "+any")) flags) in
  let excludes := map drop1 (filter (fun t => negb (starts_with "+" t)) flags) in
  let includes := match includes1, excludes with [], _ :: _ => keys | _, _ => includes1 end in
  filter (fun t => negb (mem_str t excludes)) includes.

Definition visit_targets (e : env) (c : cst) : M (list string) :=
  let flags := map tok_text (toks "TARGET" c) in
  let ts := eval_targets (e_keys e) flags in
  let unknown := filter (fun t => negb (mem_str t (e_keys e))) ts in
  match unknown with
  | [] => ret ts
  | _ => let! p := lift (position e c) in
         let! _ := mmap (fun _ => add_error (parsing_error (e_idl e) p "unknown-target")) unknown in
         ret ts
  end.

Definition targets_of (e : env) (c : cst) : M (list string) :=
  let! t := lift (deref "visit(None): ctx.targets()" (rule1 "targets" c)) in visit_targets e t.

(* signature() inside visitFunction *)
Fixpoint underscores (n : nat) : string := match n with 0 => "" | S k => String "_"%char (underscores k) end.
(* re.sub(r'\W', '_', name): names are ASCII here (lexer), so \W is everything but letters, digits and '_' *)
Definition word_char (c : ascii) : bool :=
  let n := nat_of_ascii c in
  (Nat.leb 48 n && Nat.leb n 57) || (Nat.leb 65 n && Nat.leb n 90) || (Nat.leb 97 n && Nat.leb n 122) || Nat.eqb n 95.
Fixpoint sanitize (s : string) : string :=
  match s with EmptyString => EmptyString | String c r => String (if word_char c then c else "_"%char) (sanitize r) end.
Fixpoint signature (fuel : nat) (t : tref) (depth : nat) : string :=
  match fuel with
  | 0 => sanitize (tref_name t)
  | S f => join (underscores depth) (sanitize (tref_name t) :: map (fun p => signature f p (S depth)) (tref_params t))
  end.

Fixpoint dependencies (fuel : nat) (ts : list tref) : list string :=
  match fuel with
  | 0 => []
  | S f => flat_map (fun t => tref_name t :: dependencies f (tref_params t)) ts
  end.

Definition DEPTH := 240.

Section Visit.
  Variable e : env.

  (* typeRef / dataType / function / parameter / throwing are mutually recursive.  The bodies are written with open
     recursion (the recursive visits are parameters) and tied together by a fuel-indexed mutual fixpoint; fuel bounds
     the nesting depth of type expressions. *)
  Definition typeref_body (vfunction : cst -> M func) (vdatatype : cst -> M tref) (c : cst) : M tref :=
    match rule1 "function" c with
    | Some fc =>
        let! fn := vfunction fc in
        let! _ := add_decl (DFunction fn) in
        let! p := lift (position e c) in
        let! s := get_st in
        ret (TFunc (s_ns s) p fn)
    | None =>
        let! d := lift (deref "visit(None): ctx.dataType()" (rule1 "dataType" c)) in
        vdatatype d
    end.

  Definition datatype_body (vdatatype : cst -> M tref) (c : cst) : M tref :=
    let! ni := lift (deref "visit(None): ctx.nsIdentifier()" (rule1 "nsIdentifier" c)) in
    let! name := lift (visit_ns_identifier ni) in
    let! params := mmap vdatatype (rules "dataType" c) in
    let! p := lift (position e c) in
    let! s := get_st in
    let! rid := fresh_ref name (s_ns s) p (List.length params) in
    ret (TData name (s_ns s) p params (has_tok "OPTIONAL" c) rid).

  Definition parameter_body (vtyperef : cst -> M tref) (c : cst) : M param :=
    let! n := lift (name_of c) in
    let! p := lift (position e c) in
    let! tr := lift (deref "visit(None): ctx.typeRef()" (rule1 "typeRef" c)) in
    let! t := vtyperef tr in
    ret (mkparam n p t).

  Definition throwing_body (vtyperef : cst -> M tref) (c : cst) : M (list tref) :=
    mmap vtyperef (rules "typeRef" c).

  Definition function_body (vtyperef : cst -> M tref) (vparameter : cst -> M param) (vthrowing : cst -> M (list tref))
             (c : cst) : M func :=
    (* targets = self.visit(ctx.targets()) or self.target_keys if ctx.FUNCTION() else self.target_keys *)
    let! targets := (if has_tok "FUNCTION" c
                     then let! t := targets_of e c in ret (match t with [] => e_keys e | _ => t end)
                     else ret (e_keys e)) in
    let! rt := match rule1 "typeRef" c with
               | Some tr => let! t := vtyperef tr in ret (Some t)
               | None => ret None
               end in
    let! params := mmap vparameter (rules "parameter" c) in
    let! throwing := match rule1 "throwing" c with
                     | Some th => let! t := vthrowing th in ret (Some t)
                     | None => ret None
                     end in
    let name := join "_" (["function"] ++ targets ++ map (fun p => signature DEPTH (param_ty p) 2) params ++
                          [match rt with Some t => signature DEPTH t 2 | None => "void" end] ++
                          match throwing with Some ts => "throws" :: map (fun t => sanitize (tref_name t)) ts | None => [] end) in
    let! p := lift (position e c) in
    let! s := get_st in
    ret (mkfunc name p None params targets (s_ns s) rt throwing true).

  Fixpoint visit_typeref (fuel : nat) (c : cst) {struct fuel} : M tref :=
    match fuel with 0 => crash "fuel" | S f => typeref_body (visit_function f) (visit_datatype f) c end
  with visit_datatype (fuel : nat) (c : cst) {struct fuel} : M tref :=
    match fuel with 0 => crash "fuel" | S f => datatype_body (visit_datatype f) c end
  with visit_parameter (fuel : nat) (c : cst) {struct fuel} : M param :=
    match fuel with 0 => crash "fuel" | S f => parameter_body (visit_typeref f) c end
  with visit_throwing (fuel : nat) (c : cst) {struct fuel} : M (list tref) :=
    match fuel with 0 => crash "fuel" | S f => throwing_body (visit_typeref f) c end
  with visit_function (fuel : nat) (c : cst) {struct fuel} : M func :=
    match fuel with 0 => crash "fuel" | S f => function_body (visit_typeref f) (visit_parameter f) (visit_throwing f) c end.

  Definition opt_typeref (c : cst) : M (option tref) :=
    match rule1 "typeRef" c with
    | Some tr => let! t := visit_typeref DEPTH tr in ret (Some t)
    | None => ret None
    end.

  Definition visit_item (c : cst) : M member :=
    let! n := lift (name_of c) in
    let! p := lift (position e c) in
    ret (mkmember n p (comment_of c)).

  Definition visit_enum (c : cst) : M decl :=
    let! n := lift (name_of c) in
    let! p := lift (position e c) in
    let! items := mmap visit_item (rules "item" c) in
    let! s := get_st in
    ret (DEnum (mkcommon n (s_ns s) p (comment_of c)) items).

  (* visitModifier *)
  Definition visit_modifier (c : cst) : M (bool * bool) :=
    let! t := lift (deref "modifier: ctx.ID() is None" (tok1 "ID" c)) in
    let v := tok_text t in
    let! _ := (if String.eqb v "all" || String.eqb v "none" then ret tt
               else let! p := lift (position e c) in add_error (parsing_error (e_idl e) p "bad-flag-modifier")) in
    ret (String.eqb v "all", String.eqb v "none").

  Definition visit_flag (c : cst) : M flag :=
    let! an := match rule1 "modifier" c with Some m => visit_modifier m | None => ret (false, false) end in
    let! n := lift (name_of c) in
    let! p := lift (position e c) in
    ret (mkflag n p (comment_of c) (fst an) (snd an)).

  Definition visit_flags (c : cst) : M decl :=
    let! n := lift (name_of c) in
    let! p := lift (position e c) in
    let! fl := mmap visit_flag (rules "flag" c) in
    let! s := get_st in
    ret (DFlags (mkcommon n (s_ns s) p (comment_of c)) fl).

  Definition is_tfunc (t : tref) : bool := match t with TFunc _ _ _ => true | _ => false end.

  Definition visit_field (c : cst) : M field :=
    let! n := lift (name_of c) in
    let! p := lift (position e c) in
    let! tr := lift (deref "visit(None): ctx.typeRef()" (rule1 "typeRef" c)) in
    let! t := visit_typeref DEPTH tr in
    let! _ := (if is_tfunc t then let! tp := lift (position e tr) in add_error (parsing_error (e_idl e) tp "function-field")
               else ret tt) in
    ret (mkfield n p (comment_of c) t).

  Definition DERIVINGS := ["eq"; "ord"].
  (* visitDeclaration *)
  Definition visit_declaration (c : cst) : M (option string) :=
    let! t := lift (deref "declaration: ctx.ID() is None" (tok1 "ID" c)) in
    let v := tok_text t in
    if mem_str v DERIVINGS then ret (Some v)
    else let! p := lift (position e c) in
         let! _ := add_error (parsing_error (e_idl e) p "bad-deriving") in ret None.

  Fixpoint somes {A} (l : list (option A)) : list A :=
    match l with [] => [] | Some a :: r => a :: somes r | None :: r => somes r end.

  Definition visit_record (c : cst) : M decl :=
    let! fields := mmap visit_field (rules "field" c) in
    let! deriving := match rule1 "deriving" c with
                     | Some d => let! ds := mmap visit_declaration (rules "declaration" d) in
                                 ret (somes ds ++ e_deriving e)
                     | None => ret (e_deriving e)
                     end in
    let! n := lift (name_of c) in
    let! p := lift (position e c) in
    let! targets := targets_of e c in
    let! s := get_st in
    ret (DRecord (mkcommon n (s_ns s) p (comment_of c)) fields targets deriving
                 (dependencies DEPTH (map fd_ty fields))).

  Definition visit_method (c : cst) : M method :=
    let! n := lift (name_of c) in
    let! p := lift (position e c) in
    let! params := mmap (visit_parameter DEPTH) (rules "parameter" c) in
    let! rt := opt_typeref c in
    let! throwing := match rule1 "throwing" c with
                     | Some th => let! t := visit_throwing DEPTH th in ret (Some t)
                     | None => ret None
                     end in
    let m := mkmethod n p (comment_of c) params rt (has_tok "STATIC" c) (has_tok "CONST" c) (has_tok "ASYNC" c) throwing in
    let! _ := (if me_static m && me_const m then add_error (parsing_error (e_idl e) p "static-and-const") else ret tt) in
    ret m.

  Definition visit_prop (c : cst) : M prop :=
    let! n := lift (name_of c) in
    let! p := lift (position e c) in
    (* type_ref=self.visit(ctx.typeRef()) if ctx.typeRef() else None  -> pydantic refuses None *)
    let! tr := lift (deref "Property.type_ref is None (ValidationError)" (rule1 "typeRef" c)) in
    let! t := visit_typeref DEPTH tr in
    ret (mkprop n p (comment_of c) t).

  Definition method_deps (m : method) : list tref :=
    map param_ty (me_params m) ++ match me_throws m with Some (x :: r) => x :: r | _ => [] end ++
    match me_ret m with Some t => [t] | None => [] end.

  Definition list_eqb (a b : list string) : bool :=
    (fix go (a b : list string) := match a, b with [], [] => true | x :: a', y :: b' => String.eqb x y && go a' b' | _, _ => false end) a b.

  Definition visit_interface (c : cst) : M decl :=
    let! methods := mmap visit_method (rules "method" c) in
    let! props := mmap visit_prop (rules "prop" c) in
    let deps := flat_map method_deps methods ++ map pr_ty props in
    let! n := lift (name_of c) in
    let! p := lift (position e c) in
    let! t0 := targets_of e c in
    let targets := match t0 with [] => e_keys e | _ => t0 end in
    let main := has_tok "MAIN" c in
    let! s := get_st in
    let cpp_only := list_eqb targets ["cpp"] in
    let! _ := (if main && negb cpp_only then add_error (parsing_error (e_idl e) p "main-not-cpp") else ret tt) in
    let! _ := mmap (fun m => if negb cpp_only && me_static m
                             then add_error (parsing_error (e_idl e) (me_pos m) "static-not-cpp") else ret tt) methods in
    ret (DInterface (mkcommon n (s_ns s) p (comment_of c)) main targets methods props (dependencies DEPTH deps)).

  Definition visit_error_code (c : cst) : M ecode :=
    let! params := mmap (visit_parameter DEPTH) (rules "parameter" c) in
    let! n := lift (name_of c) in
    let! p := lift (position e c) in
    ret (mkecode n p (comment_of c) params).

  Definition visit_error_domain (c : cst) : M decl :=
    let! codes := mmap visit_error_code (rules "errorCode" c) in
    let! n := lift (name_of c) in
    let! p := lift (position e c) in
    let! s := get_st in
    ret (DError (mkcommon n (s_ns s) p (comment_of c)) codes
                (dependencies DEPTH (flat_map (fun ec => map param_ty (ec_params ec)) codes))).

  Definition visit_named_function (c : cst) : M decl :=
    let! fc := lift (deref "visit(None): ctx.function()" (rule1 "function" c)) in
    let! fn := visit_function DEPTH fc in
    let! n := lift (name_of c) in
    let! p := lift (position e c) in
    match fn with
    | mkfunc _ _ _ ps ts ns rt th _ => ret (DFunction (mkfunc n p (comment_of c) ps ts ns rt th false))
    end.

  Definition first_some {A} (l : list (option A)) : option A :=
    match somes l with x :: _ => Some x | [] => None end.

  (* visitTypeDecl: the first alternative present; register; append *)
  Definition visit_type_decl (c : cst) : M (option decl) :=
    let alts := [("enum", visit_enum); ("flags", visit_flags); ("record", visit_record); ("interface", visit_interface);
                 ("namedFunction", visit_named_function); ("errorDomain", visit_error_domain)] in
    match first_some (map (fun a => match rule1 (fst a) c with Some k => Some (snd a k) | None => None end) alts) with
    | Some m =>
        let! d := m in
        let! s := get_st in
        let td := decl_tdef d in
        match register (s_reg s) (td_ns td) (td_name td) td with
        | None => fun _ => Raise "Resolver.TypeResolvingException" 170 (p_file (decl_pos d)) (p_sl (decl_pos d)) (p_sc (decl_pos d))
        | Some r' => let! _ := set_reg r' in let! _ := add_decl d in ret (Some d)
        end
    | None =>
        let! p := lift (position e c) in
        let! _ := add_error (parsing_error (e_idl e) p "unknown-type-decl") in ret None
    end.

  Fixpoint drop_last_n {A} (n : nat) (l : list A) : res (list A) :=
    match n with
    | 0 => Ok l
    | S k => match rev l with [] => Crash "pop from empty list" | _ :: r => drop_last_n k (rev r) end
    end.

  (* namespaceContent is not overridden: visitChildren returns the result of the last child *)
  Fixpoint ns_children (vnamespace : cst -> M node) (ks : list cst) (last : option node) : M (option node) :=
    match ks with
    | [] => ret last
    | k :: r =>
        let! v := (match k with
                   | R "typeDecl" _ _ _ => let! d := visit_type_decl k in ret (option_map NDecl d)
                   | R "namespace" _ _ _ => let! n := vnamespace k in ret (Some n)
                   | _ => ret None
                   end) in
        ns_children vnamespace r v
    end.

  Definition namespace_body (vcontent : cst -> M (option node)) (c : cst) : M node :=
    let! ni := lift (deref "visit(None): ctx.nsIdentifier()" (rule1 "nsIdentifier" c)) in
    let! name := lift (visit_ns_identifier ni) in
    let segs := split_on dot name in
    let! s := get_st in
    let! _ := set_ns (s_ns s ++ segs) (s_stack s ++ [List.length segs]) in
    let comment := comment_of c in
    let! p := lift (position e c) in
    let! children := mmap vcontent (rules "namespaceContent" c) in
    let! s2 := get_st in
    let! n := lift (deref "pop from empty list" (hd_error (rev (s_stack s2)))) in
    let! ns' := lift (drop_last_n n (s_ns s2)) in
    let! _ := set_ns ns' (rev (tl (rev (s_stack s2)))) in
    ret (NNamespace name p comment (somes children)).

  Fixpoint visit_ns_content (fuel : nat) (c : cst) {struct fuel} : M (option node) :=
    match fuel with 0 => crash "fuel" | S f => ns_children (visit_namespace f) (kids_of c) None end
  with visit_namespace (fuel : nat) (c : cst) {struct fuel} : M node :=
    match fuel with 0 => crash "fuel" | S f => namespace_body (visit_ns_content f) c end.
End Visit.
