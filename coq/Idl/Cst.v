(* ANTLR parse trees as dumped by tools/pdv/impl/cst_dump.py, the result type of the front-end model, and the child
   getters the generated IdlParser contexts offer (getToken / getTokens / getTypedRuleContext(s)). *)
From Coq Require Import List String Ascii Bool Arith.
Import ListNotations.
Open Scope string_scope. Open Scope list_scope.

Inductive cst :=
  | T (ty text : string) (line col : nat) (err : bool)            (* terminal; err: ErrorNodeImpl *)
  | R (rule : string) (start : option (nat * nat)) (stop : option (nat * nat * nat)) (kids : list cst).
  (* start = (line, column) of ctx.start; stop = (line, column, len(text)) of ctx.stop *)

(* outcome of a front-end computation: a Python-level internal error is a value, never hidden by totality *)
Inductive res (A : Type) :=
  | Ok (a : A)
  | Crash (tag : string)          (* AttributeError / TypeError / ... escaping pydjinni code *)
  | Raise (cls : string) (code : nat) (file : string) (line col : nat).  (* a bare ApplicationException *)
Arguments Ok {A}. Arguments Crash {A}. Arguments Raise {A}.

Definition bind {A B} (x : res A) (f : A -> res B) : res B :=
  match x with Ok a => f a | Crash t => Crash t | Raise c k fl l cl => Raise c k fl l cl end.
Notation "'do' x <- e ; f" := (bind e (fun x => f)) (at level 200, x pattern, e at level 100, f at level 200, right associativity).

Definition deref {A} (tag : string) (o : option A) : res A :=
  match o with Some a => Ok a | None => Crash tag end.

Definition kids_of (c : cst) : list cst := match c with R _ _ _ k => k | T _ _ _ _ _ => [] end.
Definition is_rule (n : string) (c : cst) : bool := match c with R r _ _ _ => String.eqb r n | _ => false end.
Definition is_tok (n : string) (c : cst) : bool := match c with T t _ _ _ _ => String.eqb t n | _ => false end.

(* ctx.item() / ctx.COMMENT() : all children of that kind, in order *)
Definition rules (n : string) (c : cst) : list cst := filter (is_rule n) (kids_of c).
Definition toks (n : string) (c : cst) : list cst := filter (is_tok n) (kids_of c).
(* ctx.identifier() / ctx.ID() : the first such child or None *)
Definition rule1 (n : string) (c : cst) : option cst := hd_error (rules n c).
Definition tok1 (n : string) (c : cst) : option cst := hd_error (toks n c).

Definition tok_text (c : cst) : string := match c with T _ x _ _ _ => x | _ => "" end.
Definition tok_is_err (c : cst) : bool := match c with T _ _ _ _ e => e | _ => false end.

(* node.getText() of a rule context: concatenation of the leaves *)
Fixpoint get_text (c : cst) : string :=
  match c with
  | T _ x _ _ _ => x
  | R _ _ _ k => (fix go (l : list cst) : string := match l with [] => "" | x :: r => (get_text x ++ go r)%string end) k
  end.

Fixpoint mapM {A B} (f : A -> res B) (l : list A) : res (list B) :=
  match l with
  | [] => Ok []
  | x :: r => do y <- f x; do ys <- mapM f r; Ok (y :: ys)
  end.
