(* Documentation commands in IDL comments (parser/markdown_plugins.py + parser/comment_processor.py), for the comments the
   visitor produces: visitComment strips every '#' line on both sides, so no line of a comment starts or ends with a blank -
   the continuation clause of the command pattern (a following line that starts with a blank) can never apply.
   A line is a command line when it starts with '@' or a backslash directly followed by the command name; the text is what
   follows the name when the next character is a blank (stripped), otherwise empty ('@deprecatedx' is the bare command).
   - deprecated: sets decl.deprecated to the text, or to True when the text is empty; the LAST command wins;
   - param <name> <text>: the documentation of the first parameter called <name>, when <text> is not empty (methods and
     error codes only); the last command for a name wins;
   - returns / throws: nothing at parse time.
   The class of plain comments for which this is the whole story (no list, quote, heading, fence, HTML or indented-code line;
   every line starts with a letter, a digit followed by a letter, or a command) is what the generator of K-commands emits;
   mistune is trusted for the rest. *)
From Coq Require Import List String Ascii Bool Arith.
From PDV Require Import Lib.StrUtil Lang.Comment.
Import ListNotations.
Open Scope string_scope. Open Scope list_scope.

Inductive dep := DNo | DYes | DMsg (s : string).

Definition is_blank4 (c : ascii) : bool :=
  Ascii.eqb c " "%char || Ascii.eqb c "009"%char || Ascii.eqb c "011"%char || Ascii.eqb c "012"%char.
Fixpoint lstrip (s : string) : string := match s with String c r => if is_blank4 c then lstrip r else s | EmptyString => "" end.
Fixpoint drop (n : nat) (s : string) : string := match n, s with S k, String _ r => drop k r | _, _ => s end.

(* Some text when the line is the command  name *)
Definition cmd_text (name line : string) : option string :=
  match line with
  | String c r =>
      if (Ascii.eqb c "@"%char || Ascii.eqb c bslash) && String.prefix name r then
        match drop (String.length name) r with
        | String b rest => if is_blank4 b then Some (lstrip rest) else Some ""
        | EmptyString => Some ""
        end
      else None
  | EmptyString => None
  end.

Definition dep_of_text (t : string) : dep := match t with EmptyString => DYes | _ => DMsg t end.

(* decl.deprecated after ParserCommentProcessor ran over the comment (initial value: not deprecated) *)
Definition deprecated_of (comment : string) : dep :=
  fold_left (fun acc line => match cmd_text "deprecated" line with Some t => dep_of_text t | None => acc end) (split_on nl comment) DNo.

(* first word and the rest (text.split()[0], text[len(word)+1:] then inline rendering strips the blanks) *)
Fixpoint word (s : string) : string := match s with String c r => if is_blank4 c then "" else String c (word r) | EmptyString => "" end.
Definition param_cmd (line : string) : option (option (string * string)) :=
  match cmd_text "param" line with
  | Some EmptyString => Some None                      (* '@param' without a name *)
  | Some t => let w := word t in Some (Some (w, lstrip (drop (String.length w) t)))
  | None => None
  end.

(* parameter documentation: names in order -> documentation (None = untouched) *)
Fixpoint set_first (name doc : string) (ps : list (string * option string)) : list (string * option string) :=
  match ps with
  | [] => []
  | (n, d) :: r => if String.eqb n name then (n, Some doc) :: r else (n, d) :: set_first name doc r
  end.
Definition params_of (comment : string) (names : list string) : list (string * option string) :=
  fold_left (fun acc line => match param_cmd line with
                             | Some (Some (n, EmptyString)) => acc
                             | Some (Some (n, d)) => set_first n d acc
                             | _ => acc end)
            (split_on nl comment) (map (fun n => (n, None)) names).

(* ---- what the property needs: the spelling of the command character does not matter, and only command lines matter ---- *)
Lemma cmd_text_spelling name rest : cmd_text name (String "@" rest) = cmd_text name (String bslash rest).
Proof. reflexivity. Qed.

Definition swap_spelling (line : string) : string :=
  match line with
  | String c r => if Ascii.eqb c "@"%char then String bslash r else if Ascii.eqb c bslash then String "@" r else line
  | EmptyString => ""
  end.
Lemma cmd_text_swap name line : cmd_text name (swap_spelling line) = cmd_text name line.
Proof.
  destruct line as [|c r]; [reflexivity|]. unfold swap_spelling.
  destruct (Ascii.eqb c "@"%char) eqn:E1; [apply Ascii.eqb_eq in E1; subst c; reflexivity|].
  destruct (Ascii.eqb c bslash) eqn:E2; [apply Ascii.eqb_eq in E2; subst c; reflexivity | reflexivity].
Qed.

Lemma fold_dep_ext (l1 l2 : list string) : Forall2 (fun a b => cmd_text "deprecated" a = cmd_text "deprecated" b) l1 l2 ->
  forall acc, fold_left (fun acc line => match cmd_text "deprecated" line with Some t => dep_of_text t | None => acc end) l1 acc
            = fold_left (fun acc line => match cmd_text "deprecated" line with Some t => dep_of_text t | None => acc end) l2 acc.
Proof. induction 1 as [|a b l1 l2 Hab _ IH]; intros acc; [reflexivity|]. cbn [fold_left]. rewrite Hab. apply IH. Qed.

(* the deprecation state depends on the command lines only, through their texts: whichever of the two documented spellings is used *)
Theorem deprecated_spelling_free (lines : list string) : Forall (fun l => has_char nl l = false) lines -> lines <> [] ->
  deprecated_of (join (String nl "") (map swap_spelling lines)) = deprecated_of (join (String nl "") lines).
Proof.
  intros Hnl Hne. unfold deprecated_of.
  rewrite !split_on_join; try assumption.
  - apply fold_dep_ext. clear. induction lines as [|a l IH]; constructor; [apply cmd_text_swap | exact IH].
  - destruct lines; [contradiction | discriminate].
  - apply Forall_forall. intros x Hx. apply in_map_iff in Hx as (y & <- & Hy).
    rewrite Forall_forall in Hnl. specialize (Hnl y Hy). destruct y as [|c r]; [reflexivity|]. unfold swap_spelling.
    destruct (Ascii.eqb c "@"%char); [cbn in *; apply orb_false_iff in Hnl as [_ H]; now rewrite H|].
    destruct (Ascii.eqb c bslash); [cbn in *; apply orb_false_iff in Hnl as [_ H]; now rewrite H | exact Hnl].
Qed.

(* a comment without command lines leaves the declaration alone *)
Theorem no_command_no_deprecation comment :
  Forall (fun l => cmd_text "deprecated" l = None) (split_on nl comment) -> deprecated_of comment = DNo.
Proof.
  unfold deprecated_of. generalize DNo. induction (split_on nl comment) as [|a l IH]; intros acc H; [reflexivity|].
  inversion H as [|? ? Ha Hl]; subst. cbn [fold_left]. rewrite Ha. now apply IH.
Qed.

(* the last deprecated command decides *)
Theorem last_deprecated_wins (before after : list string) line t :
  cmd_text "deprecated" line = Some t -> Forall (fun l => cmd_text "deprecated" l = None) after ->
  forall acc, fold_left (fun acc line => match cmd_text "deprecated" line with Some t => dep_of_text t | None => acc end) (before ++ line :: after) acc
              = dep_of_text t.
Proof.
  intros Hl Ha acc. rewrite fold_left_app. cbn [fold_left]. rewrite Hl.
  generalize (dep_of_text t). induction after as [|a l IH]; intros d; [reflexivity|].
  inversion Ha as [|? ? H1 H2]; subst. cbn [fold_left]. rewrite H1. now apply IH.
Qed.

Example cmd_examples :
  deprecated_of ("some text" ++ String nl "\deprecated use other") = DMsg "use other" /\
  deprecated_of "@deprecated" = DYes /\ deprecated_of "@deprecatedx" = DYes /\ deprecated_of "x @deprecated" = DNo /\
  deprecated_of ("@deprecated a" ++ String nl "@deprecated  b  c") = DMsg "b  c" /\
  params_of ("@param a the a" ++ String nl "\param b" ++ String nl "@param  c   two  words" ++ String nl "@param") ["a"; "b"; "c"; "a"]
  = [("a", Some "the a"); ("b", None); ("c", Some "two  words"); ("a", None)].
Proof. vm_compute. repeat split; reflexivity. Qed.
