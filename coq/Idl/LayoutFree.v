(* Layout cannot reach the parse tree except through positions: the parser model looks at token TYPES only, and copies token texts
   into the leaves.  If two token streams agree on (type, text) - as two layouts of one program do, white space being skipped by the
   lexer - every parse of the one corresponds to a parse of the other with the same tree up to the recorded positions, in the same order. *)
From Coq Require Import List String Ascii Bool Arith Lia.
From PDV Require Import Lib.StrUtil Idl.GrammarDefs Idl.Cst Idl.Lexer Idl.ParserG.
Import ListNotations.
Open Scope string_scope. Open Scope list_scope.

Fixpoint erase (c : cst) : cst :=
  match c with
  | T ty x _ _ e => T ty x 0 0 e
  | R r _ _ k => R r None None ((fix go (l : list cst) : list cst := match l with [] => [] | x :: t => erase x :: go t end) k)
  end.
Lemma erase_R r s e k : erase (R r s e k) = R r None None (map erase k).
Proof. reflexivity. Qed.

Definition same_tok (a b : token) : Prop := tk_type a = tk_type b /\ tk_text a = tk_text b.
Definition rel (a b : list cst * nat) : Prop := snd a = snd b /\ map erase (fst a) = map erase (fst b).

Lemma Forall2_flat_map {A B C D} (R : A -> B -> Prop) (S : C -> D -> Prop) (f : A -> list C) (g : B -> list D) :
  (forall a b, R a b -> Forall2 S (f a) (g b)) -> forall l1 l2, Forall2 R l1 l2 -> Forall2 S (flat_map f l1) (flat_map g l2).
Proof. intros H l1 l2 HF. induction HF as [|a b l1 l2 Hab _ IH]; [constructor|]. cbn [flat_map]. apply Forall2_app; [now apply H | exact IH]. Qed.
Lemma Forall2_map2 {A B C D} (R : A -> B -> Prop) (S : C -> D -> Prop) (f : A -> C) (g : B -> D) :
  (forall a b, R a b -> S (f a) (g b)) -> forall l1 l2, Forall2 R l1 l2 -> Forall2 S (map f l1) (map g l2).
Proof. intros H l1 l2 HF. induction HF; constructor; auto. Qed.
Lemma Forall2_nth {A B} (R : A -> B -> Prop) l1 l2 : Forall2 R l1 l2 -> forall n,
  match nth_error l1 n, nth_error l2 n with Some a, Some b => R a b | None, None => True | _, _ => False end.
Proof. intros HF. induction HF as [|a b l1 l2 Hab _ IH]; intros [|n]; cbn; auto. apply IH. Qed.

Lemma Forall2_len {A B} (R : A -> B -> Prop) l1 l2 : Forall2 R l1 l2 -> List.length l1 = List.length l2.
Proof. induction 1; cbn; congruence. Qed.

Lemma dedup_rel : forall l1 l2, Forall2 rel l1 l2 -> forall seen, Forall2 rel (dedup_end seen l1) (dedup_end seen l2).
Proof.
  intros l1 l2 HF. induction HF as [|a b l1 l2 [Hs He] _ IH]; intros seen; [constructor|]. cbn [dedup_end]. rewrite Hs.
  destruct (existsb (Nat.eqb (snd b)) seen); [apply IH|]. constructor; [split; assumption | apply IH].
Qed.

Section Layout.
  Variable rules : list (string * gexp).
  Variables toks1 toks2 : list token.
  Hypothesis Hsame : Forall2 same_tok toks1 toks2.

  Lemma rel_seq (pf1 pf2 : gexp -> nat -> list (list cst * nat)) :
    (forall x pos, Forall2 rel (pf1 x pos) (pf2 x pos)) ->
    forall l pos, Forall2 rel (seq_parse pf1 l pos) (seq_parse pf2 l pos).
  Proof.
    intros Hpf. induction l as [|x l IH]; intros pos; cbn [seq_parse]; [repeat constructor|].
    apply dedup_rel. apply (Forall2_flat_map rel rel) with (l1 := pf1 x pos) (l2 := pf2 x pos); [|apply Hpf].
    intros a b [Hs He]. rewrite Hs. apply (Forall2_map2 rel rel); [|apply IH].
    intros c d [Hs2 He2]. split; cbn [fst snd]; [exact Hs2 | now rewrite !map_app, He, He2].
  Qed.

  Theorem parse_layout_free : forall fuel g pos, Forall2 rel (parse rules toks1 fuel g pos) (parse rules toks2 fuel g pos).
  Proof.
    induction fuel as [|f IH]; intros g pos; [constructor|].
    destruct g as [n|n|l|l|x|x|x]; cbn [parse].
    - pose proof (Forall2_nth _ _ _ Hsame pos) as Hn.
      destruct (nth_error toks1 pos) as [t1|], (nth_error toks2 pos) as [t2|]; try contradiction; [|constructor].
      destruct Hn as [Hty Htx]. rewrite Hty. destruct (String.eqb (tk_type t2) n); [|constructor].
      constructor; [|constructor]. split; [reflexivity|]. cbn. unfold leaf. now rewrite Hty, Htx.
    - destruct (lookup rules n) as [body|]; [|constructor].
      apply (Forall2_map2 rel rel); [|apply IH]. intros a b [Hs He]. split; cbn [fst snd]; [exact Hs|].
      cbn [map]. now rewrite !erase_R, He.
    - apply rel_seq. apply IH.
    - apply dedup_rel. apply (Forall2_flat_map eq rel); [intros a b <-; apply IH|]. clear. induction l; constructor; auto.
    - apply dedup_rel. apply Forall2_app; [|repeat constructor].
      apply (Forall2_flat_map rel rel) with (l1 := parse rules toks1 f x pos) (l2 := parse rules toks2 f x pos); [|apply IH].
      intros a b [Hs He]. rewrite Hs. destruct (Nat.eqb (snd b) pos); [constructor|].
      apply (Forall2_map2 rel rel); [|apply IH]. intros c d [Hs2 He2]. split; cbn [fst snd]; [exact Hs2 | now rewrite !map_app, He, He2].
    - apply dedup_rel. apply (Forall2_flat_map rel rel) with (l1 := parse rules toks1 f x pos) (l2 := parse rules toks2 f x pos); [|apply IH].
      intros a b [Hs He]. rewrite Hs.
      apply (Forall2_map2 rel rel); [|apply IH]. intros c d [Hs2 He2]. split; cbn [fst snd]; [exact Hs2 | now rewrite !map_app, He, He2].
    - apply dedup_rel. apply Forall2_app; [apply IH | repeat constructor].
  Qed.
End Layout.

(* two texts whose token streams agree on types and texts get the same parse tree up to positions (or are both rejected) *)
Definition erase_o (o : option cst) : option cst := match o with Some k => Some (erase k) | None => None end.

Lemma filter_rel n l1 l2 : Forall2 rel l1 l2 ->
  Forall2 rel (filter (fun r => Nat.eqb (snd r) n) l1) (filter (fun r => Nat.eqb (snd r) n) l2).
Proof.
  intros HF. induction HF as [|a b l1 l2 [Hs He] _ IH]; [constructor|]. cbn [filter]. rewrite Hs.
  destruct (Nat.eqb (snd b) n); [constructor; [split; assumption | exact IH] | exact IH].
Qed.

Theorem parse_text_layout_free lrules prules start s1 s2 ls1 ls2 :
  lex_all lrules s1 = Some ls1 -> lex_all lrules s2 = Some ls2 -> has_lex_error ls1 = false -> has_lex_error ls2 = false ->
  Forall2 same_tok (tokens_of ls1) (tokens_of ls2) ->
  erase_o (parse_text lrules prules start s1) = erase_o (parse_text lrules prules start s2).
Proof.
  intros L1 L2 E1 E2 HF. unfold parse_text. rewrite L1, L2, E1, E2.
  assert (HT : Forall2 same_tok (tokens_of ls1 ++ [eof_token s1]) (tokens_of ls2 ++ [eof_token s2])).
  { apply Forall2_app; [exact HF|]. constructor; [|constructor]. unfold eof_token, same_tok.
    destruct (advance s1 1 0), (advance s2 1 0). split; reflexivity. }
  assert (HL : List.length (tokens_of ls1 ++ [eof_token s1]) = List.length (tokens_of ls2 ++ [eof_token s2])) by (eapply Forall2_len; exact HT).
  rewrite HL. set (n := List.length (tokens_of ls2 ++ [eof_token s2])).
  pose proof (filter_rel n _ _ (parse_layout_free (map (fun kv => (fst kv, norm (snd kv))) prules) _ _ HT (20 * n + 200) (GRule start) 0)) as HR.
  destruct HR as [|a b l1 l2 [Hs He] _]; [reflexivity|].
  destruct a as [ka pa], b as [kb pb]. cbn [fst snd] in *. destruct ka as [|x ka], kb as [|y kb]; try discriminate; [reflexivity|].
  cbn [map] in He. injection He as He _. cbn [erase_o]. now rewrite He.
Qed.
