(* Replacing one white-space run by another (that starts with the same character) between two lexemes does not change the tokens:
   the lexemes in front are the same (Idl/LexStable.v), the run itself is one skipped lexeme, and the rest is tokenised to the same
   types and texts - only the recorded positions move. *)
From Coq Require Import List String Ascii Bool Arith Lia.
From PDV Require Import Lib.StrUtil Lang.Comment Idl.GrammarDefs Idl.Lexer Idl.LexParseProofs Idl.LexLemmas Idl.LexStable.
Import ListNotations.
Open Scope string_scope. Open Scope list_scope.

(* ---------------- positions do not influence the choice of tokens ---------------- *)
Definition same_lexeme (a b : lexeme) : Prop :=
  match a, b with
  | LexTok t, LexTok u => tk_type t = tk_type u /\ tk_text t = tk_text u
  | LexSkip x, LexSkip y => x = y
  | LexErr c, LexErr d => c = d
  | _, _ => False
  end.

Lemma lex_position_free rules : forall k s l1 c1 l2 c2 ls1,
  lex_from k rules s l1 c1 = Some ls1 -> exists ls2, lex_from k rules s l2 c2 = Some ls2 /\ Forall2 same_lexeme ls1 ls2.
Proof.
  induction k as [|k IH]; intros s l1 c1 l2 c2 ls1 H.
  - destruct s; [|discriminate]. injection H as <-. exists []. split; [reflexivity | constructor].
  - destruct s as [|a s0]; [injection H as <-; exists []; split; [reflexivity | constructor]|]. cbn [lex_from] in H |- *.
    destruct (best_rule rules (String a s0)) as [[[nm sk] n]|].
    + destruct (advance (stake n (String a s0)) l1 c1) as [l1' c1']. destruct (advance (stake n (String a s0)) l2 c2) as [l2' c2'].
      destruct (lex_from k rules (sdrop n (String a s0)) l1' c1') as [r|] eqn:Er; [|discriminate]. injection H as <-.
      destruct (IH _ _ _ l2' c2' _ Er) as (r2 & E2 & HF). rewrite E2. eexists. split; [reflexivity|]. constructor; [|exact HF].
      destruct sk; cbn; auto.
    + destruct (advance (String a "") l1 c1) as [l1' c1']. destruct (advance (String a "") l2 c2) as [l2' c2'].
      destruct (lex_from k rules s0 l1' c1') as [r|] eqn:Er; [|discriminate]. injection H as <-.
      destruct (IH _ _ _ l2' c2' _ Er) as (r2 & E2 & HF). rewrite E2. eexists. split; [reflexivity|]. constructor; [reflexivity | exact HF].
Qed.

(* more steps than needed change nothing *)
Lemma lex_steps_enough rules : forall k s l c ls, lex_from k rules s l c = Some ls -> forall k', k <= k' -> lex_from k' rules s l c = Some ls.
Proof.
  induction k as [|k IH]; intros s l c ls H k' Hk.
  - destruct s; [|discriminate]. destruct k'; exact H.
  - destruct s as [|a s0]; [destruct k'; exact H|]. destruct k' as [|k']; [lia|]. cbn [lex_from] in H |- *.
    destruct (best_rule rules (String a s0)) as [[[nm sk] n]|].
    + destruct (advance (stake n (String a s0)) l c) as [l' c']. destruct (lex_from k rules (sdrop n (String a s0)) l' c') as [r|] eqn:Er; [|discriminate].
      now rewrite (IH _ _ _ _ Er k' ltac:(lia)).
    + destruct (advance (String a "") l c) as [l' c']. destruct (lex_from k rules s0 l' c') as [r|] eqn:Er; [|discriminate].
      now rewrite (IH _ _ _ _ Er k' ltac:(lia)).
Qed.

(* ---------------- a white-space run is one lexeme ---------------- *)
Definition others_silent (rules : list rule) (nm0 : string) (c : ascii) : bool :=
  forallb (fun r => String.eqb (r_name r) nm0 || nomatch_first c (r_pat r)) rules.

Lemma silent_rule_len c p lazy skip t : nomatch_first c p = true -> rule_len (skip, lazy, p) (String c t) = 0.
Proof.
  intros Hn. unfold rule_len. assert (Hz : forall k, In k (mlens p (String c t)) -> k = 0) by (intros k; apply (nomatch_first_sound c p Hn)).
  destruct lazy.
  - destruct (min_pos_spec (mlens p (String c t))) as [[E _]|(P & I & _)]; [exact E | specialize (Hz _ I); lia].
  - destruct (max_list_in (mlens p (String c t))) as [E|I]; [exact E | specialize (Hz _ I); lia].
Qed.

Lemma best_rule_some rules s nm r : In (nm, r) rules -> 0 < rule_len r s -> exists w, best_rule rules s = Some w.
Proof.
  induction rules as [|[nm0 r0] rest IH]; intros Hin Hp; [contradiction|]. cbn [best_rule].
  destruct (best_rule rest s) as [[[nm1 sk1] n1]|] eqn:E.
  - destruct (Nat.ltb (rule_len r0 s) n1); [eexists; reflexivity|]. destruct (Nat.eqb (rule_len r0 s) 0); eexists; reflexivity.
  - destruct Hin as [[= -> ->]|Hin]; [destruct (Nat.eqb (rule_len r s) 0) eqn:Ez; [apply Nat.eqb_eq in Ez; lia | eexists; reflexivity]|].
    destruct (IH Hin Hp) as (w & Ew). congruence.
Qed.

Theorem run_is_one_lexeme rules nm0 sk0 q pr c w' y :
  nodup_names (map r_name rules) = true -> In (nm0, (sk0, false, LPlus q)) rules -> single_char q = Some pr ->
  others_silent rules nm0 c = true -> pr c = true -> run_len pr w' = String.length w' -> (match y with EmptyString => true | String a _ => negb (pr a) end) = true ->
  best_rule rules (String c w' ++ y) = Some (nm0, sk0, S (String.length w')).
Proof.
  intros Hnd Hin Es Hsil Hc Hw Hy. set (s := (String c w' ++ y)%string).
  assert (Hlen0 : rule_len (sk0, false, LPlus q) s = S (slen w')).
  { unfold rule_len. cbn [mlens]. rewrite Es, max_seq1. unfold s. change (String c w' ++ y)%string with (String c (w' ++ y)%string). cbn [run_len]. rewrite Hc. f_equal.
    rewrite run_len_app, Hw, Nat.eqb_refl. destruct y as [|a y']; [cbn; lia|]. cbn [run_len]. apply negb_true_iff in Hy. rewrite Hy. lia. }
  destruct (best_rule_some rules s _ _ Hin ltac:(rewrite Hlen0; lia)) as ([[nm sk] n] & Eb).
  destruct (best_rule_spec _ _ _ _ _ Eb) as ((rw & Hw1 & Hw2 & Hw3) & Hmax & Hpos).
  unfold others_silent in Hsil. rewrite forallb_forall in Hsil. pose proof (Hsil _ Hw1) as Hr. cbn [r_name r_pat fst snd] in Hr.
  apply orb_true_iff in Hr as [Hr|Hr].
  - apply String.eqb_eq in Hr. subst nm. assert (E : (nm0, rw) = (nm0, (sk0, false, LPlus q))) by (apply (nodup_names_in rules Hnd); [exact Hw1 | exact Hin | reflexivity]).
    injection E as ->. cbn [fst] in Hw3. subst sk. rewrite Hlen0 in Hw2. subst n. exact Eb.
  - exfalso. destruct rw as [[skw lzw] pw]. cbn [fst snd] in *. unfold s in Hw2. change (String c w' ++ y)%string with (String c (w' ++ y)%string) in Hw2.
    rewrite (silent_rule_len c pw lzw skw _ Hr) in Hw2. lia.
Qed.

Lemma lex_steps_agree rules k1 k2 s l c r1 r2 : lex_from k1 rules s l c = Some r1 -> lex_from k2 rules s l c = Some r2 -> r1 = r2.
Proof.
  intros H1 H2. pose proof (lex_steps_enough rules _ _ _ _ _ H1 (Nat.max k1 k2) (Nat.le_max_l _ _)) as E1.
  pose proof (lex_steps_enough rules _ _ _ _ _ H2 (Nat.max k1 k2) (Nat.le_max_r _ _)) as E2. congruence.
Qed.

Lemma sdrop_all s t : sdrop (String.length s) (s ++ t) = t.
Proof. induction s as [|a s IH]; [destruct t; reflexivity | exact IH]. Qed.

(* one step of the lexer on a white-space run followed by y *)
Lemma lex_run_step rules nm0 sk0 q pr c w' y k l cl r :
  nodup_names (map r_name rules) = true -> In (nm0, (sk0, false, LPlus q)) rules -> single_char q = Some pr ->
  others_silent rules nm0 c = true -> pr c = true -> run_len pr w' = String.length w' -> (match y with EmptyString => true | String a _ => negb (pr a) end) = true ->
  lex_from k rules (String c w' ++ y) l cl = Some r ->
  exists k0 e t, k = S k0 /\ r = e :: t /\ lexeme_text e = String c w' /\
                 (let '(l2, c2) := advance (String c w') l cl in lex_from k0 rules y l2 c2 = Some t).
Proof.
  intros Hnd Hin Es Hsil Hc Hw Hy H. pose proof (run_is_one_lexeme rules nm0 sk0 q pr c w' y Hnd Hin Es Hsil Hc Hw Hy) as Eb.
  destruct k as [|k0]; [discriminate|]. change (String c w' ++ y)%string with (String c (w' ++ y)%string) in H, Eb. cbn [lex_from] in H. rewrite Eb in H.
  assert (Et : stake (S (slen w')) (String c (w' ++ y)) = String c w').
  { change (String c (w' ++ y)%string) with (String c w' ++ y)%string. change (S (slen w')) with (slen (String c w')). rewrite stake_app by lia.
    clear. generalize (String c w'). intros s. induction s as [|a s IH]; [reflexivity|]. cbn. now rewrite IH. }
  assert (Ed : sdrop (S (slen w')) (String c (w' ++ y)) = y) by (change (String c (w' ++ y)%string) with (String c w' ++ y)%string; change (S (slen w')) with (slen (String c w')); apply sdrop_all).
  rewrite Et, Ed in H. destruct (advance (String c w') l cl) as [l2 c2].
  destruct (lex_from k0 rules y l2 c2) as [t|] eqn:Er; [|discriminate]. injection H as <-.
  exists k0, (if sk0 then LexSkip (String c w') else LexTok (mktok nm0 (String c w') l cl)), t. split; [reflexivity|]. split; [reflexivity|]. split; [destruct sk0; reflexivity | exact Er].
Qed.

(* the statement: one white-space run replaced by another that starts with the same character *)
Theorem white_space_run_replaceable rules nm0 sk0 q pr c w1 w2 y la x k k' line col rest1 :
  table_ok c rules = true -> In (nm0, (sk0, false, LPlus q)) rules -> single_char q = Some pr -> others_silent rules nm0 c = true -> pr c = true ->
  run_len pr w1 = String.length w1 -> run_len pr w2 = String.length w2 -> (match y with EmptyString => true | String a _ => negb (pr a) end) = true ->
  lex_from k rules (x ++ String c (w1 ++ y)) line col = Some (la ++ rest1) -> concat_lexemes la = x -> no_err la ->
  String.length (x ++ String c (w2 ++ y)) <= k' ->
  exists rest2 e1 t1 e2 t2,
    lex_from k' rules (x ++ String c (w2 ++ y)) line col = Some (la ++ rest2) /\
    rest1 = e1 :: t1 /\ rest2 = e2 :: t2 /\ lexeme_text e1 = String c w1 /\ lexeme_text e2 = String c w2 /\ Forall2 same_lexeme t1 t2.
Proof.
  intros Hok Hin Es Hsil Hc Hw1 Hw2 Hy H1 Hla Hne Hk.
  assert (Hnd : nodup_names (map r_name rules) = true) by (unfold table_ok in Hok; apply andb_true_iff in Hok as [Hnd _]; exact Hnd).
  destruct (lex_prefix_stable c rules Hok la x (w1 ++ y) (w2 ++ y) k k' line col rest1 H1 Hla Hne Hk) as (rest2 & H2).
  pose proof (lex_suffix rules la x c (w1 ++ y) k line col rest1 H1 Hla) as S1.
  pose proof (lex_suffix rules la x c (w2 ++ y) k' line col rest2 H2 Hla) as S2.
  destruct (advance x line col) as [l0 c0].
  change (String c (w1 ++ y)%string) with (String c w1 ++ y)%string in S1. change (String c (w2 ++ y)%string) with (String c w2 ++ y)%string in S2.
  destruct (lex_run_step rules nm0 sk0 q pr c w1 y _ l0 c0 rest1 Hnd Hin Es Hsil Hc Hw1 Hy S1) as (k1 & e1 & t1 & _ & -> & T1 & R1).
  destruct (lex_run_step rules nm0 sk0 q pr c w2 y _ l0 c0 rest2 Hnd Hin Es Hsil Hc Hw2 Hy S2) as (k2 & e2 & t2 & _ & -> & T2 & R2).
  exists (e2 :: t2), e1, t1, e2, t2. repeat split; try assumption; try reflexivity.
  destruct (advance (String c w1) l0 c0) as [la1 ca1]. destruct (advance (String c w2) l0 c0) as [la2 ca2].
  destruct (lex_position_free rules k1 y la1 ca1 la2 ca2 t1 R1) as (t2' & R2' & HF).
  now rewrite <- (lex_steps_agree rules _ _ _ _ _ _ _ R2' R2).
Qed.
