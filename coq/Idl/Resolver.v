(* Model of src/pydjinni/parser/resolver.py : Resolver.register / Resolver.resolve.
   The registry is the Python dict keyed by the dotted string '.'.join(namespace + [name]).
   Definitions only (proofs are in ResolverProofs.v) so the model runs even if a proof breaks. *)
From Coq Require Import List String Ascii Bool.
From PDV Require Import Lib.StrUtil.
Import ListNotations.
Open Scope string_scope. Open Scope list_scope.

Section Resolver.
  Variable A : Type.

  Definition registry := list (string * A).

  Fixpoint get (k : string) (r : registry) : option A :=
    match r with
    | [] => None
    | (k', v) :: t => if String.eqb k k' then Some v else get k t
    end.

  (* registry_name = ".".join(datatype.namespace + [datatype.name]) *)
  Definition qkey (ns : list string) (name : string) : string := join "." (ns ++ [name]).

  (* register: None models `raise TypeResolvingException("... already exists")` *)
  Definition register (r : registry) (ns : list string) (name : string) (v : A) : option registry :=
    match get (qkey ns name) r with
    | Some _ => None
    | None => Some (r ++ [(qkey ns name, v)])
    end.

  (* the while loop of resolve(): rns is namespace_copy reversed; pop() drops its head *)
  Fixpoint resolve_rev (r : registry) (rns : list string) (name : string) : option A :=
    match rns with
    | [] => get (qkey [] name) r
    | _ :: rest =>
        match get (qkey (rev rns) name) r with
        | Some v => Some v
        | None => resolve_rev r rest name
        end
    end.

  (* resolve: None models `raise TypeResolvingException("Unknown type ...")` at the reference *)
  Definition resolve (r : registry) (ns : list string) (name : string) : option A :=
    if starts_with "." name then get (drop1 name) r
    else resolve_rev r (rev ns) name.

  (* registering a whole list of declarations, in order; None = some duplicate *)
  Fixpoint register_all (r : registry) (ds : list (list string * string * A)) : option registry :=
    match ds with
    | [] => Some r
    | (ns, name, v) :: rest =>
        match register r ns name v with
        | None => None
        | Some r' => register_all r' rest
        end
    end.
End Resolver.

Arguments get {A}. Arguments register {A}. Arguments resolve {A}. Arguments resolve_rev {A}.
Arguments register_all {A}.
