(* The loop lemma for loops whose iterations do not change the interpreter state (no namespace counters): if every iteration
   prints h a idx last and gives the state back, the loop prints the concatenation of h over the list, in list order. *)
From Coq Require Import List String Ascii ZArith Bool Arith Lia.
From PDV Require Import Lib.StrUtil Jinja.Tir Jinja.Interp Jinja.InterpLemmas.
Import ListNotations.
Open Scope string_scope. Open Scope list_scope.

Section Pure.
  Context {A : Type}.
  Variable gv : A -> val.
  Variable f : val -> nat -> bool -> state -> state * string.
  Variable st : state.
  Variable h : A -> nat -> bool -> string.

  Fixpoint plines (l : list A) (idx : nat) : string :=
    match l with [] => "" | a :: r => (h a idx (match r with [] => true | _ => false end) ++ plines r (S idx))%string end.

  Hypothesis step : forall a idx last, f (gv a) idx last st = (st, h a idx last).

  Lemma loop_over_pure (l : list A) : forall idx, loop_over f (map gv l) idx st = (st, plines l idx).
  Proof.
    induction l as [|a r IH]; intros idx; [reflexivity|].
    cbn [map loop_over plines].
    replace (match map gv r with [] => true | _ => false end) with (match r with [] => true | _ => false end) by (destruct r; reflexivity).
    rewrite step, IH. reflexivity.
  Qed.
End Pure.

(* one chunk per element, in list order: the k-th printed chunk is about the k-th element *)
Lemma plines_nth {A : Type} (h : A -> nat -> bool -> string) : forall l idx k a, nth_error l k = Some a ->
  exists pre post, plines h l idx = (pre ++ h a (idx + k) (match skipn (S k) l with [] => true | _ => false end) ++ post)%string.
Proof.
  induction l as [|x r IH]; intros idx k a Hn; [destruct k; discriminate|].
  destruct k as [|k'].
  - cbn in Hn. injection Hn as ->. exists "", (plines h r (S idx)). cbn [plines skipn]. rewrite Nat.add_0_r. reflexivity.
  - cbn in Hn. destruct (IH (S idx) k' a Hn) as (pre & post & E).
    exists (h x idx (match r with [] => true | _ => false end) ++ pre)%string, post. cbn [plines]. rewrite E.
    replace (S idx + k') with (idx + S k') by lia. cbn [skipn]. now rewrite !sapp_assoc.
Qed.

(* nothing else is printed: the output is exactly the chunks of the elements (no chunk for anything that is not in the list) *)
Lemma plines_app {A : Type} (h : A -> nat -> bool -> string) : forall l1 l2 idx, l2 <> [] ->
  plines h (l1 ++ l2) idx = (plines (fun a i _ => h a i false) l1 idx ++ plines h l2 (idx + List.length l1))%string.
Proof.
  induction l1 as [|x r IH]; intros l2 idx Hne.
  - cbn. now rewrite Nat.add_0_r.
  - cbn [app plines List.length]. rewrite IH by exact Hne. rewrite sapp_assoc.
    replace (match r ++ l2 with [] => true | _ => false end) with false by (destruct r; [destruct l2; [contradiction|reflexivity] | reflexivity]).
    replace (S idx + List.length r) with (idx + S (List.length r)) by lia. reflexivity.
Qed.
