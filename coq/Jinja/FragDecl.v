(* Render lemmas for the member lists of the record declarations: for EVERY field list the C++ struct prints one const
   member per field with its type_spec and name in declaration order, a constructor with the same list and one
   initialiser per field; the Java class prints one field, one constructor parameter and one assignment per field. *)
From Coq Require Import List String Ascii ZArith Bool Arith Lia.
From PDV Require Import Lib.StrUtil Lang.Comment Marshal.Ident Jinja.Tir Jinja.Interp Jinja.InterpLemmas Jinja.Slice
                        Gen.Templates Jinja.FragFlags Jinja.FragEnums Jinja.FragRecord.
Import ListNotations.
Open Scope string_scope. Open Scope list_scope.

Record dfield := mkdfield { df_cpp_type : string; df_cpp_name : string; df_cpp_depr : string; df_has_comment : bool; df_cpp_comment : string;
                            df_java_mod : string; df_java_type : string; df_java_name : string }.
Definition dfieldv (f : dfield) : val :=
  VObj [("comment", if df_has_comment f then VStr "c" else VNone);
        ("cpp", VObj [("type_spec", VStr (df_cpp_type f)); ("name", VStr (df_cpp_name f)); ("deprecated", VStr (df_cpp_depr f));
                      ("comment", VStr (df_cpp_comment f))]);
        ("java", VObj [("field_modifier", VStr (df_java_mod f)); ("data_type", VStr (df_java_type f)); ("name", VStr (df_java_name f))])].
Definition dstate (fl : list dfield) : state := mkst [("type_def", VObj [("fields", VList (map dfieldv fl))])] [].

Ltac tstep_d :=
  repeat (rewrite ?execs_cons, ?execs_nil, ?exec_out, ?exec_if0;
          cbn [out_str eval assoc upd String.eqb Ascii.eqb Bool.eqb truthy to_str scope nss bind attr_of loopv negb
               fold_right as_list dfieldv df_cpp_type df_cpp_name df_cpp_depr df_has_comment df_cpp_comment df_java_mod df_java_type df_java_name
               dstate g_cstart g_cend g_cprefix cpp_cfg java_cfg fst snd andb orb]).

Lemma loop_over_d (f : val -> nat -> bool -> state -> state * string) (st : state) (h : dfield -> nat -> bool -> string) :
  (forall a idx last, f (dfieldv a) idx last st = (st, h a idx last)) ->
  forall l idx, loop_over f (map dfieldv l) idx st =
                (st, (fix go (l : list dfield) (idx : nat) : string :=
                        match l with [] => "" | a :: r => (h a idx (match r with [] => true | _ => false end) ++ go r (S idx))%string end) l idx).
Proof.
  intros Hstep l. induction l as [|a r IH]; intros idx; [reflexivity|].
  cbn [map loop_over].
  replace (match map dfieldv r with [] => true | _ => false end) with (match r with [] => true | _ => false end) by (destruct r; reflexivity).
  rewrite Hstep, IH. reflexivity.
Qed.

Fixpoint lines (h : dfield -> nat -> bool -> string) (l : list dfield) (idx : nat) : string :=
  match l with [] => "" | a :: r => (h a idx (match r with [] => true | _ => false end) ++ lines h r (S idx))%string end.
Lemma lines_fix h l : forall idx,
  (fix go (l : list dfield) (idx : nat) : string :=
     match l with [] => "" | a :: r => (h a idx (match r with [] => true | _ => false end) ++ go r (S idx))%string end) l idx = lines h l idx.
Proof. induction l as [|a r IH]; intros idx; [reflexivity|]. cbn [lines]. now rewrite <- IH. Qed.

(* one theorem shape for all six loops *)
Ltac loop_proof shape step hfun :=
  intros fl; rewrite shape, exec_for; unfold for_items;
  match goal with |- context [as_list (eval ?g ?st (EAttr (EVar "type_def") "fields"))] =>
    replace (as_list (eval g st (EAttr (EVar "type_def") "fields"))) with (map dfieldv fl) by reflexivity end;
  rewrite (loop_over_d _ (dstate fl) hfun); [f_equal; apply (lines_fix hfun) | intros a idx last; apply step].

(* ---- C++ struct members ---- *)
Definition cpp_members_loop : stmt := Eval vm_compute in get_loop "fields" 0 t_cpp_header_record_jinja2_hpp.
Definition cpp_members_body : list stmt := Eval vm_compute in body_of cpp_members_loop.
Lemma cpp_members_shape : cpp_members_loop = SFor "field" (EAttr (EVar "type_def") "fields") None cpp_members_body. Proof. reflexivity. Qed.
Definition cpp_member (f : dfield) (_ : nat) (_ : bool) : string :=
  ((if df_has_comment f then "    " ++ indent_filter (comment_filter (Some "/**") (Some " */") " * " (df_cpp_comment f)) ++ String nl "" else "") ++
   "    const " ++ df_cpp_type f ++ " " ++ df_cpp_name f ++ df_cpp_depr f ++ ";" ++ String nl "")%string.
Lemma cpp_member_step fl f idx last :
  for_step (execs cpp_cfg) "field" cpp_members_body (scope (dstate fl)) (dfieldv f) idx last (dstate fl) = (dstate fl, cpp_member f idx last).
Proof. unfold for_step, cpp_members_body, cpp_member. tstep_d. destruct (df_has_comment f); tstep_d; snorm; reflexivity. Qed.
Theorem cpp_members_render : forall fl, exec cpp_cfg cpp_members_loop (dstate fl) = (dstate fl, lines cpp_member fl 0).
Proof. loop_proof cpp_members_shape cpp_member_step cpp_member. Qed.

(* ---- C++ constructor parameters and initialisers ---- *)
Definition cpp_ctor_loop : stmt := Eval vm_compute in get_loop "fields" 1 t_cpp_header_record_jinja2_hpp.
Definition cpp_ctor_body : list stmt := Eval vm_compute in body_of cpp_ctor_loop.
Lemma cpp_ctor_shape : cpp_ctor_loop = SFor "field" (EAttr (EVar "type_def") "fields") None cpp_ctor_body. Proof. reflexivity. Qed.
Definition cpp_ctor_param (f : dfield) (_ : nat) (last : bool) : string := (df_cpp_type f ++ " " ++ df_cpp_name f ++ (if last then "" else ", "))%string.
Lemma cpp_ctor_step fl f idx last :
  for_step (execs cpp_cfg) "field" cpp_ctor_body (scope (dstate fl)) (dfieldv f) idx last (dstate fl) = (dstate fl, cpp_ctor_param f idx last).
Proof. unfold for_step, cpp_ctor_body, cpp_ctor_param. tstep_d. destruct last; tstep_d; snorm; reflexivity. Qed.
Theorem cpp_ctor_render : forall fl, exec cpp_cfg cpp_ctor_loop (dstate fl) = (dstate fl, lines cpp_ctor_param fl 0).
Proof. loop_proof cpp_ctor_shape cpp_ctor_step cpp_ctor_param. Qed.

Definition cpp_init_loop : stmt := Eval vm_compute in get_loop "fields" 2 t_cpp_header_record_jinja2_hpp.
Definition cpp_init_body : list stmt := Eval vm_compute in body_of cpp_init_loop.
Lemma cpp_init_shape : cpp_init_loop = SFor "field" (EAttr (EVar "type_def") "fields") None cpp_init_body. Proof. reflexivity. Qed.
Definition cpp_init (f : dfield) (idx : nat) (_ : bool) : string :=
  ("    " ++ (if Nat.eqb idx 0 then ": " else ", ") ++ df_cpp_name f ++ "(std::move(" ++ df_cpp_name f ++ "))" ++ String nl "")%string.
Lemma cpp_init_step fl f idx last :
  for_step (execs cpp_cfg) "field" cpp_init_body (scope (dstate fl)) (dfieldv f) idx last (dstate fl) = (dstate fl, cpp_init f idx last).
Proof. unfold for_step, cpp_init_body, cpp_init. tstep_d. destruct (Nat.eqb idx 0); tstep_d; snorm; reflexivity. Qed.
Theorem cpp_init_render : forall fl, exec cpp_cfg cpp_init_loop (dstate fl) = (dstate fl, lines cpp_init fl 0).
Proof. loop_proof cpp_init_shape cpp_init_step cpp_init. Qed.

(* ---- Java fields, constructor parameters, assignments ---- *)
Definition java_fields_loop : stmt := Eval vm_compute in get_loop "fields" 0 t_java_record_jinja2_java.
Definition java_fields_body : list stmt := Eval vm_compute in body_of java_fields_loop.
Lemma java_fields_shape : java_fields_loop = SFor "field" (EAttr (EVar "type_def") "fields") None java_fields_body. Proof. reflexivity. Qed.
Definition java_field (f : dfield) (_ : nat) (_ : bool) : string :=
  ("    " ++ df_java_mod f ++ df_java_type f ++ " " ++ df_java_name f ++ ";" ++ String nl "")%string.
Lemma java_field_step fl f idx last :
  for_step (execs java_cfg) "field" java_fields_body (scope (dstate fl)) (dfieldv f) idx last (dstate fl) = (dstate fl, java_field f idx last).
Proof. unfold for_step, java_fields_body, java_field. tstep_d. snorm. reflexivity. Qed.
Theorem java_fields_render : forall fl, exec java_cfg java_fields_loop (dstate fl) = (dstate fl, lines java_field fl 0).
Proof. loop_proof java_fields_shape java_field_step java_field. Qed.

Definition java_ctor_loop : stmt := Eval vm_compute in get_loop "fields" 1 t_java_record_jinja2_java.
Definition java_ctor_body : list stmt := Eval vm_compute in body_of java_ctor_loop.
Lemma java_ctor_shape : java_ctor_loop = SFor "field" (EAttr (EVar "type_def") "fields") None java_ctor_body. Proof. reflexivity. Qed.
Definition java_ctor_param (f : dfield) (_ : nat) (last : bool) : string :=
  ("        " ++ df_java_type f ++ " " ++ df_java_name f ++ (if last then "" else ",") ++ String nl "")%string.
Lemma java_ctor_step fl f idx last :
  for_step (execs java_cfg) "field" java_ctor_body (scope (dstate fl)) (dfieldv f) idx last (dstate fl) = (dstate fl, java_ctor_param f idx last).
Proof. unfold for_step, java_ctor_body, java_ctor_param. tstep_d. destruct last; tstep_d; snorm; reflexivity. Qed.
Theorem java_ctor_render : forall fl, exec java_cfg java_ctor_loop (dstate fl) = (dstate fl, lines java_ctor_param fl 0).
Proof. loop_proof java_ctor_shape java_ctor_step java_ctor_param. Qed.

Definition java_assign_loop : stmt := Eval vm_compute in get_loop "fields" 2 t_java_record_jinja2_java.
Definition java_assign_body : list stmt := Eval vm_compute in body_of java_assign_loop.
Lemma java_assign_shape : java_assign_loop = SFor "field" (EAttr (EVar "type_def") "fields") None java_assign_body. Proof. reflexivity. Qed.
Definition java_assign (f : dfield) (_ : nat) (_ : bool) : string :=
  ("        this." ++ df_java_name f ++ " = " ++ df_java_name f ++ ";" ++ String nl "")%string.
Lemma java_assign_step fl f idx last :
  for_step (execs java_cfg) "field" java_assign_body (scope (dstate fl)) (dfieldv f) idx last (dstate fl) = (dstate fl, java_assign f idx last).
Proof. unfold for_step, java_assign_body, java_assign. tstep_d. snorm. reflexivity. Qed.
Theorem java_assign_render : forall fl, exec java_cfg java_assign_loop (dstate fl) = (dstate fl, lines java_assign fl 0).
Proof. loop_proof java_assign_shape java_assign_step java_assign. Qed.

(* one line per field, in declaration order: the k-th printed item is about the k-th field *)
Theorem lines_nth h : forall l idx k f, nth_error l k = Some f ->
  exists pre post, lines h l idx = (pre ++ h f (idx + k) (match skipn (S k) l with [] => true | _ => false end) ++ post)%string.
Proof.
  induction l as [|a r IH]; intros idx k f Hn; [destruct k; discriminate|].
  destruct k as [|k'].
  - cbn in Hn. injection Hn as ->. exists "", (lines h r (S idx)). cbn [lines skipn]. rewrite Nat.add_0_r. reflexivity.
  - cbn in Hn. destruct (IH (S idx) k' f Hn) as (pre & post & E).
    exists (h a idx (match r with [] => true | _ => false end) ++ pre)%string, post. cbn [lines]. rewrite E.
    replace (S idx + k') with (idx + S k') by lia. cbn [skipn]. now rewrite !sapp_assoc.
Qed.
