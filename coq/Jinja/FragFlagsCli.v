(* Render lemma for the C++/CLI flags template (header/flags.jinja2.hpp of cppcli): for every flag list the loop prints one
   enumerator per flag whose value expression is the one of flag_enumerators (an extra [System::Obsolete] line for deprecated flags). *)
From Coq Require Import List String Ascii ZArith Bool Arith Lia.
From PDV Require Import Lib.StrUtil Lang.Comment Marshal.Ident Jinja.Tir Jinja.Interp Jinja.InterpLemmas Jinja.Slice
                        Lang.EnumBody Gen.Templates Jinja.FragFlags.
Import ListNotations.
Open Scope string_scope. Open Scope list_scope.

Definition cli_cfg : gencfg := mkgencfg (Some "/**") (Some " */") " * ".

Definition cli_flags_loop : stmt :=
  Eval vm_compute in match find_for_in "flags" t_cppcli_header_flags_jinja2_hpp with Some f => f | None => SOther "missing" end.
Definition cli_flags_body : list stmt :=
  Eval vm_compute in match cli_flags_loop with SFor _ _ _ b => b | _ => [] end.

Lemma cli_flags_loop_shape : cli_flags_loop = SFor "flag" (EAttr (EVar "type_def") "flags") None cli_flags_body.
Proof. reflexivity. Qed.

(* deprecated flags (f_depr non-empty) get an attribute line; the comment test is on the rendered comment *)
Definition cflagv (f : flagrec) : val :=
  VObj [("cppcli", VObj [("name", VStr (f_name f)); ("comment", if f_has_comment f then VStr (String "c" (f_comment f)) else VNone);
                         ("deprecated", VStr (f_depr f))]);
        ("deprecated", VStr (f_depr f));
        ("none", VBool (f_none f)); ("all", VBool (f_all f))].

Section Render.
  Variable fl_all : list flagrec.

  Definition cname (f : flagrec) : string := f_name f.
  Definition cnames : list string := map cname (filter ordinary fl_all).

  Definition csc0 : list (string * val) :=
    [("counter", VNs "counter"); ("type_def", VObj [("flags", VList (map cflagv fl_all))])].
  Definition cmkstate (c : nat) : state := mkst csc0 [("counter", [("value", VInt (Z.of_nat c))])].

  Definition cvalue (f : flagrec) (c : nat) : vexpr := if f_none f then VZero else if f_all f then VOr cnames else VShift c.

  Definition cline (f : flagrec) (last : bool) (c : nat) : string :=
    ((if f_has_comment f
      then "    " ++ indent_filter (comment_filter (Some "/**") (Some " */") " * " (String "c" (f_comment f))) ++ String nl ""
      else "") ++
     (if negb (String.eqb (f_depr f) "") then "    " ++ indent_filter (f_depr f) ++ String nl "" else "") ++
     "    " ++ cname f ++ " = " ++ print_vexpr (cvalue f c) ++ (if last then "" else ",") ++ String nl "")%string.
End Render.

Ltac tstep_c :=
  repeat (rewrite ?execs_cons, ?execs_nil, ?exec_out, ?exec_if0, ?exec_if1, ?exec_setns;
          cbn [out_str eval assoc upd String.eqb Ascii.eqb Bool.eqb truthy to_str scope nss bind attr_of loopv negb
               fold_right as_list cflagv f_name f_depr f_has_comment f_comment f_none f_all g_cstart g_cend g_cprefix cli_cfg
               fst snd andb orb]).

Lemma cfilter_ordinary_items st (l : list flagrec) :
  for_items cli_cfg "flag" (Some (EAnd (ENot (EAttr (EVar "flag") "none")) (ENot (EAttr (EVar "flag") "all")))) st (map cflagv l)
  = map cflagv (filter ordinary l).
Proof.
  unfold for_items. induction l as [|f r IH]; [reflexivity|].
  cbn [map filter]. rewrite IH. unfold ordinary.
  cbn [eval bind scope assoc String.eqb Ascii.eqb Bool.eqb attr_of cflagv truthy negb].
  destruct (f_none f), (f_all f); reflexivity.
Qed.

Definition cinner_body : list stmt :=
  [SOut [EConcat [EAttr (EAttr (EVar "flag") "cppcli") "name"; ECond (ENot (EAttr (EVar "loop") "last")) (EStr " | ") None]]].

Lemma cjoin_bar_fold (l : list flagrec) :
  fold_lines (fun (f : flagrec) (last : bool) (_ : unit) => (cname f ++ (if last then "" else " | "))%string) (fun _ u => u) l tt
  = join " | " (map (cname) l).
Proof.
  induction l as [|f r IH]; [reflexivity|]. cbn [fold_lines map]. rewrite IH.
  destruct r as [|f2 r'].
  - cbn [map join]. now rewrite !sapp_nil_r.
  - cbn [map]. rewrite join_cons_cons. now rewrite sapp_assoc.
Qed.

Lemma cinner_loop (fl_all : list flagrec) lv fv n :
  exec cli_cfg (SFor "flag" (EAttr (EVar "type_def") "flags")
                      (Some (EAnd (ENot (EAttr (EVar "flag") "none")) (ENot (EAttr (EVar "flag") "all")))) cinner_body)
       (bind "loop" lv (bind "flag" fv (mkst (csc0 fl_all) n)))
  = (bind "loop" lv (bind "flag" fv (mkst (csc0 fl_all) n)), join " | " (cnames fl_all)).
Proof.
  set (st := bind "loop" lv (bind "flag" fv (mkst (csc0 fl_all) n))).
  rewrite exec_for.
  replace (as_list (eval cli_cfg st (EAttr (EVar "type_def") "flags"))) with (map cflagv fl_all) by reflexivity.
  rewrite cfilter_ordinary_items.
  destruct (loop_over_map cflagv (for_step (execs cli_cfg) "flag" cinner_body (scope st)) (fun (_ : unit) s => s = st)
              (fun f last _ => (cname f ++ (if last then "" else " | "))%string) (fun _ u => u)) with
      (l := filter ordinary fl_all) (idx := 0) (st := st) (s := tt) as (st' & E & Hinv).
  - intros a idx last s0 u ->. exists st. split; [|reflexivity].
    unfold for_step, cinner_body, st, csc0. tstep_c. unfold cname. destruct last; cbn [negb truthy to_str]; snorm; reflexivity.
  - reflexivity.
  - rewrite E, Hinv. f_equal. unfold cnames. apply cjoin_bar_fold.
Qed.

Lemma cli_step fl_all f idx last c :
  for_step (execs cli_cfg) "flag" cli_flags_body (csc0 fl_all) (cflagv f) idx last (cmkstate fl_all c)
  = (cmkstate fl_all (next f c), cline fl_all f last c).
Proof.
  unfold for_step, cli_flags_body, cmkstate, cline, cvalue, next, ordinary, csc0, cname.
  tstep_c.
  destruct (f_has_comment f); tstep_c;
  destruct (String.eqb (f_depr f) ""); cbn [negb truthy]; tstep_c;
  destruct (f_none f); tstep_c.
  all: try (destruct (f_all f); tstep_c).
  all: try (fold (csc0 fl_all);
            change [SOut [EConcat [EAttr (EAttr (EVar "flag") "cppcli") "name"; ECond (ENot (EAttr (EVar "loop") "last")) (EStr " | ") None]]] with cinner_body;
            rewrite cinner_loop; unfold csc0; tstep_c).
  all: destruct last; tstep_c; cbn [print_vexpr negb]; rewrite ?z_to_str_of_nat; snorm; try reflexivity.
  all: try (repeat f_equal; lia).
Qed.

Fixpoint clines (fl_all fl : list flagrec) (c : nat) : string :=
  match fl with
  | [] => ""
  | f :: r => (cline fl_all f (match r with [] => true | _ => false end) c ++ clines fl_all r (next f c))%string
  end.

Lemma clines_fold fl_all fl c :
  fold_lines (fun f last c => cline fl_all f last c) next fl c = clines fl_all fl c.
Proof. revert c. induction fl as [|f r IH]; intros c; [reflexivity|]. cbn [fold_lines clines]. now rewrite IH. Qed.

Theorem cli_flags_loop_renders (fl : list flagrec) :
  exists c', exec cli_cfg cli_flags_loop (cmkstate fl 0) = (cmkstate fl c', clines fl fl 0).
Proof.
  rewrite cli_flags_loop_shape, exec_for. unfold for_items.
  replace (as_list (eval cli_cfg (cmkstate fl 0) (EAttr (EVar "type_def") "flags"))) with (map cflagv fl) by reflexivity.
  destruct (loop_over_map cflagv (for_step (execs cli_cfg) "flag" cli_flags_body (scope (cmkstate fl 0)))
              (fun c s => s = cmkstate fl c) (fun f last c => cline fl f last c) next) with
      (l := fl) (idx := 0) (st := cmkstate fl 0) (s := 0) as (st' & E & Hinv).
  - intros a idx last s0 c ->. exists (cmkstate fl (next a c)). split; [|reflexivity]. apply cli_step.
  - reflexivity.
  - rewrite E, Hinv, clines_fold. eexists. reflexivity.
Qed.

(* the value expressions are those of flag_enumerators over the cprefixed names: same bit numbering as C++ *)
Definition cprefixed (f : flagrec) : flagrec :=
  mkflagrec (f_name f) (f_depr f) (f_has_comment f) (f_comment f) (f_none f) (f_all f).

Theorem cli_values_are_spec fl_all fl c :
  map (fun fc => (cname (fst fc), cvalue fl_all (fst fc) (snd fc)))
      ((fix go (l : list flagrec) (c : nat) : list (flagrec * nat) := match l with [] => [] | f :: r => (f, c) :: go r (next f c) end) fl c)
  = flag_enumerators (cnames fl_all) (map (cprefixed) fl) c.
Proof.
  revert c. induction fl as [|f r IH]; intros c; [reflexivity|].
  cbn [map flag_enumerators cprefixed f_name f_none f_all]. unfold cvalue at 1, cname at 1. cbn [fst snd]. f_equal.
  now rewrite IH.
Qed.
