(* Render lemma for the C++ flags template: for EVERY flag list (any length, none/all flags anywhere, comments and
   deprecations on any flag) the for-loop of header/flags.jinja2.hpp - as translated from /repo on this run - prints
   exactly the enumerators of Lang.EnumBody.flags_spec, one per line, in order. *)
From Coq Require Import List String Ascii ZArith Bool Arith Lia.
From PDV Require Import Lib.StrUtil Lang.Comment Marshal.Ident Jinja.Tir Jinja.Interp Jinja.InterpLemmas Jinja.Slice
                        Lang.EnumBody Gen.Templates.
Import ListNotations.
Open Scope string_scope. Open Scope list_scope.

Definition cpp_cfg : gencfg := mkgencfg (Some "/**") (Some " */") " * ".

Definition cpp_flags_loop : stmt :=
  Eval vm_compute in match find_for_in "flags" t_cpp_header_flags_jinja2_hpp with Some f => f | None => SOther "missing" end.
Definition cpp_flags_body : list stmt :=
  Eval vm_compute in match cpp_flags_loop with SFor _ _ _ b => b | _ => [] end.

(* the translated loop has the expected outer shape (checked on every run against the regenerated template) *)
Lemma cpp_flags_loop_shape : cpp_flags_loop = SFor "flag" (EAttr (EVar "type_def") "flags") None cpp_flags_body.
Proof. reflexivity. Qed.

Definition flagv (f : flagrec) : val :=
  VObj [("cpp", VObj [("name", VStr (f_name f)); ("comment", VStr (f_comment f)); ("deprecated", VStr (f_depr f))]);
        ("comment", if f_has_comment f then VStr "c" else VNone);
        ("none", VBool (f_none f)); ("all", VBool (f_all f))].

Section Render.
  Variable fl_all : list flagrec.

  Definition sc0 : list (string * val) :=
    [("counter", VNs "counter"); ("type_def", VObj [("flags", VList (map flagv fl_all))])].
  Definition mkstate (c : nat) : state := mkst sc0 [("counter", [("value", VInt (Z.of_nat c))])].

  Definition value_text (f : flagrec) (c : nat) : string :=
    print_vexpr (if f_none f then VZero else if f_all f then VOr (ordinary_names fl_all) else VShift c).

  Definition line (f : flagrec) (last : bool) (c : nat) : string :=
    ((if f_has_comment f
      then "    " ++ indent_filter (comment_filter (Some "/**") (Some " */") " * " (f_comment f)) ++ String nl ""
      else "") ++
     "    " ++ f_name f ++ f_depr f ++ " = " ++ value_text f c ++ (if last then "" else ",") ++ String nl "")%string.

  Definition next (f : flagrec) (c : nat) : nat := if ordinary f then S c else c.
End Render.

Global Opaque z_to_str nat_to_str indent_filter comment_filter.

Lemma z_to_str_of_nat c : z_to_str (Z.of_nat c) = nat_to_str c.
Proof.
  Transparent z_to_str.
  destruct c as [|n]; [reflexivity|]. cbn [Z.of_nat z_to_str]. now rewrite SuccNat2Pos.id_succ.
  Opaque z_to_str.
Qed.

Ltac tstep :=
  repeat (rewrite ?execs_cons, ?execs_nil, ?exec_out, ?exec_if0, ?exec_if1, ?exec_setns;
          cbn [out_str eval assoc upd String.eqb Ascii.eqb Bool.eqb truthy to_str scope nss bind attr_of loopv negb
               fold_right as_list flagv f_name f_depr f_has_comment f_comment f_none f_all g_cstart g_cend g_cprefix cpp_cfg
               fst snd andb orb]).
Ltac snorm := repeat (rewrite ?sapp_nil_r, ?sapp_assoc; cbn [append]).

(* the inner loop of an `all` flag prints the ordinary flag names joined by " | " and leaves the state alone *)
Lemma filter_ordinary_items st (l : list flagrec) :
  for_items cpp_cfg "flag" (Some (EAnd (ENot (EAttr (EVar "flag") "none")) (ENot (EAttr (EVar "flag") "all")))) st (map flagv l)
  = map flagv (filter ordinary l).
Proof.
  unfold for_items. induction l as [|f r IH]; [reflexivity|].
  cbn [map filter]. rewrite IH. unfold ordinary.
  cbn [eval bind scope assoc String.eqb Ascii.eqb Bool.eqb attr_of flagv truthy negb].
  destruct (f_none f), (f_all f); reflexivity.
Qed.

Global Opaque exec execs.

Definition inner_body : list stmt :=
  [SOut [EConcat [EAttr (EAttr (EVar "flag") "cpp") "name"; ECond (ENot (EAttr (EVar "loop") "last")) (EStr " | ") None]]].

Lemma join_bar_fold (l : list flagrec) :
  fold_lines (fun (f : flagrec) (last : bool) (_ : unit) => (f_name f ++ (if last then "" else " | "))%string) (fun _ u => u) l tt
  = join " | " (map f_name l).
Proof.
  induction l as [|f r IH]; [reflexivity|]. cbn [fold_lines map]. rewrite IH.
  destruct r as [|f2 r'].
  - cbn [map join]. now rewrite !sapp_nil_r.
  - cbn [map]. rewrite join_cons_cons. now rewrite sapp_assoc.
Qed.

Lemma inner_loop (fl_all : list flagrec) (st : state) :
  assoc "type_def" (scope st) = Some (VObj [("flags", VList (map flagv fl_all))]) ->
  exec cpp_cfg (SFor "flag" (EAttr (EVar "type_def") "flags")
                     (Some (EAnd (ENot (EAttr (EVar "flag") "none")) (ENot (EAttr (EVar "flag") "all")))) inner_body) st
  = (st, join " | " (ordinary_names fl_all)).
Proof.
  intros Ht. rewrite exec_for. cbn [eval]. rewrite Ht. cbn [attr_of assoc String.eqb Ascii.eqb Bool.eqb as_list].
  rewrite filter_ordinary_items.
  destruct (loop_over_map flagv (for_step (execs cpp_cfg) "flag" inner_body (scope st)) (fun (_ : unit) s => s = st)
              (fun f last _ => (f_name f ++ (if last then "" else " | "))%string) (fun _ u => u)) with
      (l := filter ordinary fl_all) (idx := 0) (st := st) (s := tt) as (st' & E & Hinv).
  - intros a idx last s0 u ->. exists st. split; [|reflexivity].
    unfold for_step, inner_body. tstep. destruct last; cbn [negb truthy to_str]; snorm; destruct st; reflexivity.
  - reflexivity.
  - rewrite E, Hinv. f_equal. unfold ordinary_names. apply join_bar_fold.
Qed.

Lemma inner_loop_here fl_all lv fv n :
  exec cpp_cfg
    (SFor "flag" (EAttr (EVar "type_def") "flags")
       (Some (EAnd (ENot (EAttr (EVar "flag") "none")) (ENot (EAttr (EVar "flag") "all"))))
       [SOut [EConcat [EAttr (EAttr (EVar "flag") "cpp") "name"; ECond (ENot (EAttr (EVar "loop") "last")) (EStr " | ") None]]])
    (bind "loop" lv (bind "flag" fv (mkst (sc0 fl_all) n)))
  = (bind "loop" lv (bind "flag" fv (mkst (sc0 fl_all) n)), join " | " (ordinary_names fl_all)).
Proof. apply (inner_loop fl_all). reflexivity. Qed.

Lemma cpp_step fl_all f idx last c :
  for_step (execs cpp_cfg) "flag" cpp_flags_body (sc0 fl_all) (flagv f) idx last (mkstate fl_all c)
  = (mkstate fl_all (next f c), line fl_all f last c).
Proof.
  unfold for_step, cpp_flags_body, mkstate, line, value_text, next, ordinary, sc0.
  tstep.
  destruct (f_has_comment f); tstep;
  destruct (f_none f); tstep.
  all: try (destruct (f_all f); tstep).
  all: try (fold (sc0 fl_all); rewrite inner_loop_here; unfold sc0; tstep).
  all: destruct last; tstep; cbn [print_vexpr negb]; rewrite ?z_to_str_of_nat; snorm; try reflexivity.
  all: try (repeat f_equal; lia).
Qed.

(* text of the whole enumerator list: one line per flag, in order, counter threaded through the ordinary flags *)
Fixpoint lines (fl_all fl : list flagrec) (c : nat) : string :=
  match fl with
  | [] => ""
  | f :: r => (line fl_all f (match r with [] => true | _ => false end) c ++ lines fl_all r (next f c))%string
  end.

Lemma lines_fold fl_all fl c :
  fold_lines (fun f last c => line fl_all f last c) next fl c = lines fl_all fl c.
Proof. revert c. induction fl as [|f r IH]; intros c; [reflexivity|]. cbn [fold_lines lines]. now rewrite IH. Qed.

(* the render lemma: for ALL flag lists *)
Theorem cpp_flags_loop_renders (fl : list flagrec) :
  exists c', exec cpp_cfg cpp_flags_loop (mkstate fl 0) = (mkstate fl c', lines fl fl 0).
Proof.
  rewrite cpp_flags_loop_shape, exec_for. unfold for_items.
  replace (as_list (eval cpp_cfg (mkstate fl 0) (EAttr (EVar "type_def") "flags"))) with (map flagv fl) by reflexivity.
  destruct (loop_over_map flagv (for_step (execs cpp_cfg) "flag" cpp_flags_body (scope (mkstate fl 0)))
              (fun c s => s = mkstate fl c) (fun f last c => line fl f last c) next) with
      (l := fl) (idx := 0) (st := mkstate fl 0) (s := 0) as (st' & E & Hinv).
  - intros a idx last s0 c ->. exists (mkstate fl (next a c)). split; [|reflexivity]. apply cpp_step.
  - reflexivity.
  - rewrite E, Hinv, lines_fold. eexists. reflexivity.
Qed.

(* and the printed lines are exactly the enumerators of flags_spec: name, then " = ", then the printed value expression *)
Definition enumerator_line (fl_all : list flagrec) (f : flagrec) (e : string * vexpr) (last : bool) : string :=
  ((if f_has_comment f
    then "    " ++ indent_filter (comment_filter (Some "/**") (Some " */") " * " (f_comment f)) ++ String nl ""
    else "") ++
   "    " ++ fst e ++ f_depr f ++ " = " ++ print_vexpr (snd e) ++ (if last then "" else ",") ++ String nl "")%string.

Fixpoint spec_lines (fl_all fl : list flagrec) (es : list (string * vexpr)) : string :=
  match fl, es with
  | f :: r, e :: es' => (enumerator_line fl_all f e (match r with [] => true | _ => false end) ++ spec_lines fl_all r es')%string
  | _, _ => ""
  end.

Theorem lines_are_spec fl_all fl c :
  lines fl_all fl c = spec_lines fl_all fl (flag_enumerators (ordinary_names fl_all) fl c).
Proof.
  revert c. induction fl as [|f r IH]; intros c; [reflexivity|].
  cbn [lines flag_enumerators spec_lines]. rewrite IH. reflexivity.
Qed.

Theorem cpp_flags_render_spec (fl : list flagrec) :
  exists c', exec cpp_cfg cpp_flags_loop (mkstate fl 0) = (mkstate fl c', spec_lines fl fl (flags_spec fl)).
Proof.
  destruct (cpp_flags_loop_renders fl) as [c' E]. exists c'. rewrite E. f_equal. apply lines_are_spec.
Qed.
