(* Render lemmas for the error-code lists of the Objective-C NS_ERROR_ENUM and of the C++/CLI exception class: for EVERY code list
   one enumerator / one nested class declaration per error code, in declaration order. *)
From Coq Require Import List String Ascii ZArith Bool Arith Lia.
From PDV Require Import Lib.StrUtil Lang.Comment Marshal.Ident Jinja.Tir Jinja.Interp Jinja.InterpLemmas Jinja.Slice Jinja.LoopPure
                        Gen.Templates Jinja.FragFlags Jinja.FragEnums Jinja.FragFlagsObjc Jinja.FragFlagsCli Jinja.FragRecord Jinja.FragEnums2.
Import ListNotations.
Open Scope string_scope. Open Scope list_scope.

Record ecode2 := mkecode2 { ec_objc_name : string; ec_objc_comment : option string; ec_objc_attributes : list string; ec_cli_name : string }.
Definition ecode2v (c : ecode2) : val :=
  VObj [("objc", VObj [("name", VStr (ec_objc_name c)); ("comment", ostr (ec_objc_comment c)); ("attributes", VList (map VStr (ec_objc_attributes c)))]);
        ("cppcli", VObj [("name", VStr (ec_cli_name c))])].
Definition ec2state (tn : string) (cl : list ecode2) : state :=
  mkst [("type_def", VObj [("error_codes", VList (map ecode2v cl)); ("objc", VObj [("name", VStr tn)])])] [].

Ltac tstep_ec :=
  repeat (rewrite ?execs_cons, ?execs_nil, ?exec_out, ?exec_if0;
          cbn [out_str eval assoc upd String.eqb Ascii.eqb Bool.eqb truthy to_str scope nss bind attr_of loopv negb
               fold_right as_list ecode2v ostr ec_objc_name ec_objc_comment ec_objc_attributes ec_cli_name ec2state
               g_cstart g_cend g_cprefix objc_cfg cli_cfg fst snd andb orb]).
Ltac ec_loop_proof shape step hfun tn cl :=
  rewrite shape, exec_for; unfold for_items;
  match goal with |- context [as_list (eval ?g ?st (EAttr (EVar "type_def") "error_codes"))] =>
    replace (as_list (eval g st (EAttr (EVar "type_def") "error_codes"))) with (map ecode2v cl) by reflexivity end;
  apply (loop_over_pure ecode2v _ (ec2state tn cl) hfun); intros a idx last; apply step.

Definition objc_codes_loop : stmt := Eval vm_compute in get_loop "error_codes" 0 t_objc_header_error_domain_jinja2_h.
Definition objc_codes_body : list stmt := Eval vm_compute in body_of objc_codes_loop.
Lemma objc_codes_shape : objc_codes_loop = SFor "error_code" (EAttr (EVar "type_def") "error_codes") None objc_codes_body. Proof. reflexivity. Qed.
Definition objc_code_line (tn : string) (c : ecode2) (_ : nat) (last : bool) : string :=
  ((if has_text (ec_objc_comment c) then "    " ++ indent_filter (comment_filter None None "/// " (to_str (ostr (ec_objc_comment c)))) ++ String nl "" else "") ++
   "    " ++ tn ++ ec_objc_name c ++ indent_filter (concat_filter (map VStr (ec_objc_attributes c)) (String nl "") "") ++ (if last then "" else ",") ++ String nl "")%string.
Lemma objc_code_step tn cl c idx last :
  for_step (execs objc_cfg) "error_code" objc_codes_body (scope (ec2state tn cl)) (ecode2v c) idx last (ec2state tn cl) = (ec2state tn cl, objc_code_line tn c idx last).
Proof.
  unfold for_step, objc_codes_body, objc_code_line, has_text. tstep_ec.
  (destruct (ec_objc_comment c) as [x|]; tstep_ec; [destruct (String.eqb x ""); cbn [negb]; tstep_ec|]); destruct last; cbn [negb]; tstep_ec; snorm; reflexivity.
Qed.
Theorem objc_codes_render : forall tn cl, exec objc_cfg objc_codes_loop (ec2state tn cl) = (ec2state tn cl, plines (objc_code_line tn) cl 0).
Proof. intros tn cl. ec_loop_proof objc_codes_shape objc_code_step (objc_code_line tn) tn cl. Qed.

Definition cli_codes_loop : stmt := Eval vm_compute in get_loop "error_codes" 0 t_cppcli_header_error_domain_jinja2_hpp.
Definition cli_codes_body : list stmt := Eval vm_compute in body_of cli_codes_loop.
Lemma cli_codes_shape : cli_codes_loop = SFor "error_code" (EAttr (EVar "type_def") "error_codes") None cli_codes_body. Proof. reflexivity. Qed.
Definition cli_code_line (c : ecode2) (_ : nat) (_ : bool) : string := ("    ref class " ++ ec_cli_name c ++ ";" ++ String nl "")%string.
Lemma cli_code_step tn cl c idx last :
  for_step (execs cli_cfg) "error_code" cli_codes_body (scope (ec2state tn cl)) (ecode2v c) idx last (ec2state tn cl) = (ec2state tn cl, cli_code_line c idx last).
Proof. unfold for_step, cli_codes_body, cli_code_line. tstep_ec. snorm. reflexivity. Qed.
Theorem cli_codes_render : forall tn cl, exec cli_cfg cli_codes_loop (ec2state tn cl) = (ec2state tn cl, plines cli_code_line cl 0).
Proof. intros tn cl. ec_loop_proof cli_codes_shape cli_code_step cli_code_line tn cl. Qed.
