(* Render lemmas for the method declarations of the Objective-C protocol/interface header and of the C++/CLI abstract ref
   class: for EVERY method list and EVERY parameter list the loop prints one declaration per IDL method, in order.
   ObjC:     <specifier> ([<annotation> ]<type_decl> | void)<name>[:(<type>)<p1> <p2>:(<type>)<p2> ...]<attributes>;
   C++/CLI:  static|virtual <typename> <name>(<[attr]type name, ...>)[ abstract];
   The strings themselves (type_decl, typename, specifier, names) are those of the marshalling layer (K-marshal / K-ident). *)
From Coq Require Import List String Ascii ZArith Bool Arith Lia.
From PDV Require Import Lib.StrUtil Lang.Comment Marshal.Ident Jinja.Tir Jinja.Interp Jinja.InterpLemmas Jinja.Slice Jinja.LoopPure
                        Gen.Templates Jinja.FragFlags Jinja.FragEnums Jinja.FragFlagsObjc Jinja.FragFlagsCli Jinja.FragRecord Jinja.FragEnums2
                        Jinja.FragIface.
Import ListNotations.
Open Scope string_scope. Open Scope list_scope.

(* ---------------------------------------------------------------- Objective-C ---------------------------------------------------------------- *)
Record oparam := mkoparam { op_name : string; op_annotation : option string; op_type_decl : string }.
Record omethod := mkomethod { om_comment : option string; om_specifier : string; om_async : bool; om_annotation : option string;
                              om_type_decl : string; om_name : string; om_params : list oparam; om_attributes : list string }.
Definition oparamv (p : oparam) : val :=
  VObj [("name", VStr (op_name p)); ("annotation", ostr (op_annotation p)); ("type_decl", VStr (op_type_decl p))].
Definition omethodv (m : omethod) : val :=
  VObj [("asynchronous", VBool (om_async m));
        ("objc", VObj [("comment", ostr (om_comment m)); ("specifier", VStr (om_specifier m)); ("annotation", ostr (om_annotation m));
                       ("type_decl", VStr (om_type_decl m)); ("name", VStr (om_name m));
                       ("parameters", VList (map oparamv (om_params m))); ("attributes", VList (map VStr (om_attributes m)))])].
Definition oistate (ml : list omethod) : state := mkst [("type_def", VObj [("methods", VList (map omethodv ml))])] [].

Definition oiface_loop : stmt := Eval vm_compute in get_loop "methods" 0 t_objc_header_interface_jinja2_h.
Definition oiface_body : list stmt := Eval vm_compute in body_of oiface_loop.
Lemma oiface_shape : oiface_loop = SFor "method" (EAttr (EVar "type_def") "methods") None oiface_body. Proof. reflexivity. Qed.
Definition oparam_loop : stmt := Eval vm_compute in nth 2 oiface_body (SOther "missing").
Definition oparam_body : list stmt := Eval vm_compute in body_of oparam_loop.
Lemma oparam_shape : oparam_loop = SFor "parameter" (EAttr (EAttr (EVar "method") "objc") "parameters") None oparam_body. Proof. reflexivity. Qed.

Definition annot_prefix (a : option string) : string := if has_text a then (to_str (ostr a) ++ " ")%string else "".
Definition oparam_item (p : oparam) (idx : nat) (_ : bool) : string :=
  ((if Nat.eqb idx 0 then ":" else " " ++ op_name p ++ ":") ++ "(" ++ annot_prefix (op_annotation p) ++ op_type_decl p ++ ")" ++ op_name p)%string.

Lemma oparam_step st p idx last :
  for_step (execs objc_cfg) "parameter" oparam_body (scope st) (oparamv p) idx last st = (st, oparam_item p idx last).
Proof.
  unfold for_step, oparam_body, oparam_item, annot_prefix, has_text. destruct st as [sc ns].
  repeat (rewrite ?execs_cons, ?execs_nil, ?exec_out;
          cbn [out_str eval assoc upd String.eqb Ascii.eqb Bool.eqb truthy to_str scope nss bind attr_of loopv negb fold_right
               oparamv ostr op_name op_annotation op_type_decl fst snd]).
  destruct (Nat.eqb idx 0); cbn [truthy to_str];
    (destruct (op_annotation p) as [a|]; cbn [ostr truthy to_str]; [destruct (String.eqb a ""); cbn [negb to_str]|]); snorm; reflexivity.
Qed.

Definition omethod_decl (m : omethod) : string :=
  ((if has_text (om_comment m) then comment_filter None None "/// " (to_str (ostr (om_comment m))) ++ String nl "" else "") ++
   om_specifier m ++ " (" ++ (if om_async m then "void" else annot_prefix (om_annotation m) ++ om_type_decl m) ++ ")" ++ om_name m ++
   plines oparam_item (om_params m) 0 ++
   indent_n 2 (concat_filter (map VStr (om_attributes m)) (String nl "") "") ++ ";" ++ String nl "")%string.

Lemma oparam_loop_here ml m lv :
  exec objc_cfg oparam_loop (bind "loop" lv (bind "method" (omethodv m) (oistate ml)))
  = (bind "loop" lv (bind "method" (omethodv m) (oistate ml)), plines oparam_item (om_params m) 0).
Proof.
  rewrite oparam_shape, exec_for. unfold for_items.
  replace (as_list (eval objc_cfg (bind "loop" lv (bind "method" (omethodv m) (oistate ml))) (EAttr (EAttr (EVar "method") "objc") "parameters")))
    with (map oparamv (om_params m)) by reflexivity.
  apply (loop_over_pure oparamv _ _ oparam_item). intros a idx last. apply oparam_step.
Qed.

Ltac tstep_oi :=
  repeat (rewrite ?execs_cons, ?execs_nil, ?exec_out, ?exec_if0;
          cbn [out_str eval assoc upd String.eqb Ascii.eqb Bool.eqb truthy to_str scope nss bind attr_of loopv negb
               fold_right as_list omethodv oistate ostr
               om_comment om_specifier om_async om_annotation om_type_decl om_name om_params om_attributes
               g_cstart g_cend g_cprefix objc_cfg fst snd andb orb]).

Lemma omethod_step ml m idx last :
  for_step (execs objc_cfg) "method" oiface_body (scope (oistate ml)) (omethodv m) idx last (oistate ml) = (oistate ml, omethod_decl m).
Proof.
  pose proof (oparam_loop_here ml m (loopv idx (Nat.eqb idx 0) last)) as Hp. unfold oparam_loop in Hp.
  unfold for_step, oiface_body, omethod_decl, annot_prefix, has_text. tstep_oi.
  (destruct (om_comment m) as [c|]; tstep_oi; [destruct (String.eqb c ""); cbn [negb]; tstep_oi|]);
    (destruct (om_async m); cbn [negb]; tstep_oi;
     [|destruct (om_annotation m) as [a|]; tstep_oi; [destruct (String.eqb a ""); cbn [negb]; tstep_oi|]]);
    rewrite Hp; tstep_oi; snorm; reflexivity.
Qed.

Theorem oiface_methods_render ml :
  exec objc_cfg oiface_loop (oistate ml) = (oistate ml, concat "" (map omethod_decl ml)).
Proof.
  rewrite oiface_shape, exec_for. unfold for_items.
  replace (as_list (eval objc_cfg (oistate ml) (EAttr (EVar "type_def") "methods"))) with (map omethodv ml) by reflexivity.
  apply (loop_over_const omethodv). intros a idx last. apply omethod_step.
Qed.

Example oiface_example :
  omethod_decl (mkomethod None "-" false (Some "nullable") "NSString *" "findName"
                          [mkoparam "id" None "int32_t"; mkoparam "fallback" (Some "nonnull") "NSString *"] [])
  = ("- (nullable NSString *)findName:(int32_t)id fallback:(nonnull NSString *)fallback;" ++ String nl "")%string.
Proof. reflexivity. Qed.

(* ---------------------------------------------------------------- C++/CLI ---------------------------------------------------------------- *)
Record kparam := mkkparam { kp_null : string; kp_typename : string; kp_name : string }.
Record kmethod := mkkmethod { km_comment : option string; km_deprecated : bool; km_depr_text : string; km_null : string; km_static : bool;
                              km_typename : string; km_name : string; km_params : list kparam }.
Definition kparamv (p : kparam) : val :=
  VObj [("cppcli", VObj [("nullability_attribute", VStr (kp_null p)); ("typename", VStr (kp_typename p)); ("name", VStr (kp_name p))])].
Definition kmethodv (m : kmethod) : val :=
  VObj [("deprecated", if km_deprecated m then VStr "d" else VNone); ("static", VBool (km_static m));
        ("parameters", VList (map kparamv (km_params m)));
        ("cppcli", VObj [("comment", ostr (km_comment m)); ("deprecated", VStr (km_depr_text m)); ("nullability_attribute", VStr (km_null m));
                         ("typename", VStr (km_typename m)); ("name", VStr (km_name m))])].
Definition kistate (ml : list kmethod) : state := mkst [("type_def", VObj [("methods", VList (map kmethodv ml))])] [].

Definition kiface_loop : stmt := Eval vm_compute in get_loop "methods" 0 t_cppcli_header_interface_jinja2_hpp.
Definition kiface_body : list stmt := Eval vm_compute in body_of kiface_loop.
Lemma kiface_shape : kiface_loop = SFor "method" (EAttr (EVar "type_def") "methods") None kiface_body. Proof. reflexivity. Qed.
Definition kparam_loop : stmt := Eval vm_compute in nth 4 kiface_body (SOther "missing").
Definition kparam_body : list stmt := Eval vm_compute in body_of kparam_loop.
Lemma kparam_shape : kparam_loop = SFor "param" (EAttr (EVar "method") "parameters") None kparam_body. Proof. reflexivity. Qed.

Definition kparam_item (p : kparam) (_ : nat) (last : bool) : string :=
  (kp_null p ++ kp_typename p ++ " " ++ kp_name p ++ (if last then "" else ", "))%string.
Lemma kparam_step st p idx last :
  for_step (execs cli_cfg) "param" kparam_body (scope st) (kparamv p) idx last st = (st, kparam_item p idx last).
Proof.
  unfold for_step, kparam_body, kparam_item. destruct st as [sc ns].
  repeat (rewrite ?execs_cons, ?execs_nil, ?exec_out;
          cbn [out_str eval assoc upd String.eqb Ascii.eqb Bool.eqb truthy to_str scope nss bind attr_of loopv negb fold_right
               kparamv kp_null kp_typename kp_name fst snd]).
  destruct last; cbn [negb truthy to_str]; snorm; reflexivity.
Qed.

Definition kmethod_decl (m : kmethod) : string :=
  ((if has_text (km_comment m) then "    " ++ indent_filter (comment_filter (Some "/**") (Some " */") " * " (to_str (ostr (km_comment m)))) ++ String nl "" else "") ++
   (if km_deprecated m then "    " ++ km_depr_text m ++ String nl "" else "") ++
   (if negb (String.eqb (km_null m) "") then "    " ++ km_null m ++ String nl "" else "") ++
   "    " ++ (if km_static m then "static " else "virtual ") ++ km_typename m ++ " " ++ km_name m ++ "(" ++
   plines kparam_item (km_params m) 0 ++ ")" ++ (if km_static m then "" else " abstract") ++ ";" ++ String nl "")%string.

Lemma kparam_loop_here ml m lv :
  exec cli_cfg kparam_loop (bind "loop" lv (bind "method" (kmethodv m) (kistate ml)))
  = (bind "loop" lv (bind "method" (kmethodv m) (kistate ml)), plines kparam_item (km_params m) 0).
Proof.
  rewrite kparam_shape, exec_for. unfold for_items.
  replace (as_list (eval cli_cfg (bind "loop" lv (bind "method" (kmethodv m) (kistate ml))) (EAttr (EVar "method") "parameters")))
    with (map kparamv (km_params m)) by reflexivity.
  apply (loop_over_pure kparamv _ _ kparam_item). intros a idx last. apply kparam_step.
Qed.

Ltac tstep_ki :=
  repeat (rewrite ?execs_cons, ?execs_nil, ?exec_out, ?exec_if0;
          cbn [out_str eval assoc upd String.eqb Ascii.eqb Bool.eqb truthy to_str scope nss bind attr_of loopv negb
               fold_right as_list kmethodv kistate ostr
               km_comment km_deprecated km_depr_text km_null km_static km_typename km_name km_params
               g_cstart g_cend g_cprefix cli_cfg fst snd andb orb]).

Lemma kmethod_step ml m idx last :
  for_step (execs cli_cfg) "method" kiface_body (scope (kistate ml)) (kmethodv m) idx last (kistate ml) = (kistate ml, kmethod_decl m).
Proof.
  pose proof (kparam_loop_here ml m (loopv idx (Nat.eqb idx 0) last)) as Hp. unfold kparam_loop in Hp.
  unfold for_step, kiface_body, kmethod_decl, has_text. tstep_ki.
  (destruct (km_comment m) as [c|]; tstep_ki; [destruct (String.eqb c ""); cbn [negb]; tstep_ki|]);
    (destruct (km_deprecated m); tstep_ki); (destruct (String.eqb (km_null m) ""); cbn [negb]; tstep_ki);
    (destruct (km_static m) eqn:Es; cbn [negb]; tstep_ki); rewrite Hp; tstep_ki; rewrite ?Es; cbn [negb]; tstep_ki; snorm; reflexivity.
Qed.

Theorem kiface_methods_render ml :
  exec cli_cfg kiface_loop (kistate ml) = (kistate ml, concat "" (map kmethod_decl ml)).
Proof.
  rewrite kiface_shape, exec_for. unfold for_items.
  replace (as_list (eval cli_cfg (kistate ml) (EAttr (EVar "type_def") "methods"))) with (map kmethodv ml) by reflexivity.
  apply (loop_over_const kmethodv). intros a idx last. apply kmethod_step.
Qed.

Example kiface_example :
  kmethod_decl (mkkmethod None false "" "" false "int" "Add" [mkkparam "" "int" "a"; mkkparam "[NotNull] " "System::String^" "b"])
  = ("    virtual int Add(int a, [NotNull] System::String^ b) abstract;" ++ String nl "")%string.
Proof. reflexivity. Qed.

Theorem objc_cli_iface_loops_are_the_templates :
  Slice.nth_for "methods" 0 t_objc_header_interface_jinja2_h = Some oiface_loop /\
  List.length (Slice.find_fors_in "methods" t_objc_header_interface_jinja2_h) = 1 /\
  Slice.nth_for "methods" 0 t_cppcli_header_interface_jinja2_hpp = Some kiface_loop.
Proof. vm_compute. repeat split; reflexivity. Qed.
